#!/bin/sh
# Build /verif/.venv offline: python 3.13 (same interpreter as /venv, needed for PEP 695
# syntax in the repo) + z3-solver/cvc5 wheels + a .pth overlay onto /venv's site-packages so
# that replays import numpy/pyproj/netCDF4/xarray/AEIC exactly as the test suite does.
set -e
cd "$(dirname "$0")"
if [ -x .venv/bin/python ] && .venv/bin/python -c 'import z3, numpy' 2>/dev/null; then
  echo "setup: .venv already usable"; exit 0
fi
rm -rf .venv
/venv/bin/python -m venv .venv
PIP_NO_INDEX=1 .venv/bin/python -m pip install --quiet --no-index --find-links /opt/veriftools/wheels \
   z3-solver cvc5 jsonschema hypothesis icontract
echo "import site; site.addsitedir('/venv/lib/python3.13/site-packages')" \
   > .venv/lib/python3.13/site-packages/_repo_overlay.pth
.venv/bin/python -c 'import z3, numpy, netCDF4, pyproj; print("setup ok: z3", z3.get_version_string())'
