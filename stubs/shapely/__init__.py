"""Stand-in for the shapely package, which is not installed in this sandbox.  AEIC.gridding.grid imports
shapely.geometry.Polygon at module level but only grid_polygon / _polygon_touched_cells use it; the
trajectory gridding checked here never does.  Any use raises."""
