class Polygon:
    def __init__(self, *a, **k):
        raise NotImplementedError('shapely is not installed in the verification sandbox (stub)')
