"""Conformance of the assumed library contracts with the installed libraries (bounded, sampled; DESIGN 1.7).

Every proof in /verif rests on contracts *assumed* for numpy, scipy, netCDF4, cachetools, pyproj, pydantic and a few
standard-library calls (the ``library model (assumed contract): ...`` lines of each evidence file).  A wrong model is the main
way a discharged obligation could be wrong.  Each function below states the clauses the model in ``pyvc/models`` (or the
contract module named in its docstring) relies on and checks them against the real library on generated inputs.  This is a
*bounded* check - it narrows the trusted base, it does not remove it - and it is reported as such in the evidence of the
thorough tier (``coverage.library_conformance``), never counted among the discharged obligations.

Run:  .venv/bin/python -m pyvc.conformance [seed]      exit 0 = every clause held on every sample.
"""
from __future__ import annotations

import json
import math
import os
import random
import sys
import tempfile

CHECKS = []


def conf(models):
    def deco(fn):
        CHECKS.append((fn.__name__, models, fn))
        return fn
    return deco


def _arr(rnd, n, lo=-5.0, hi=5.0):
    import numpy as np
    return np.array([rnd.uniform(lo, hi) for _ in range(n)])


@conf(['numpy.interp'])
def np_interp(rnd):
    """piece-wise linear between neighbouring nodes, exact at nodes, clamped to the end values outside (or left / right),
    the right-most node wins on tied abscissae (pyvc.models: _interp; contracts.C02: install_interp_contract)."""
    import numpy as np
    bad = []
    for _ in range(300):
        n = rnd.randint(1, 7)
        xp = np.sort(_arr(rnd, n))
        if n > 2 and rnd.random() < 0.4:
            j = rnd.randrange(n - 1)
            xp[j + 1] = xp[j]                    # a tie
        fp = _arr(rnd, n)
        for x in list(xp) + [xp[0] - 1, xp[-1] + 1] + [rnd.uniform(xp[0] - 1, xp[-1] + 1) for _ in range(4)]:
            got = float(np.interp(x, xp, fp))
            if x < xp[0]:
                want = fp[0]
            elif x >= xp[-1]:
                want = fp[-1]
            else:
                j = max(i for i in range(n) if xp[i] <= x)        # right-most node not after x
                want = fp[j] if j == n - 1 or xp[j + 1] == xp[j] else fp[j] + (fp[j + 1] - fp[j]) * (x - xp[j]) / (xp[j + 1] - xp[j])
            if not math.isclose(got, want, rel_tol=1e-12, abs_tol=1e-12):
                bad.append(f'interp({x}, {xp.tolist()}, {fp.tolist()}) = {got}, model {want}')
        if float(np.interp(xp[0] - 1, xp, fp, left=-7.0, right=9.0)) != -7.0 or float(np.interp(xp[-1] + 1, xp, fp, left=-7.0, right=9.0)) != 9.0:
            bad.append('left / right values outside the nodes')
    return 300, bad


@conf(['numpy.searchsorted', 'numpy.digitize', 'bisect.bisect_left'])
def np_searchsorted_digitize(rnd):
    """searchsorted(side='left') / bisect_left = number of elements < v; digitize on increasing bins = number of bins <= v
    (right=False), on decreasing bins the mirrored count; digitize refuses bins that are neither."""
    import bisect
    import numpy as np
    bad = []
    for _ in range(300):
        a = np.sort(np.round(_arr(rnd, rnd.randint(0, 8)), 1))
        v = round(rnd.uniform(-6, 6), 1)
        if int(np.searchsorted(a, v)) != int(np.sum(a < v)) or bisect.bisect_left(list(a), v) != int(np.sum(a < v)):
            bad.append(f'searchsorted({a.tolist()}, {v})')
        if int(np.searchsorted(a, v, side='right')) != int(np.sum(a <= v)):
            bad.append(f'searchsorted right({a.tolist()}, {v})')
        if len(a) >= 1:
            inc = np.unique(a)
            if int(np.digitize(v, inc)) != int(np.sum(inc <= v)):
                bad.append(f'digitize inc({v}, {inc.tolist()})')
            dec = inc[::-1]
            if len(dec) >= 2 and int(np.digitize(v, dec)) != int(np.sum(dec > v)):      # (one bin counts as increasing)
                bad.append(f'digitize dec({v}, {dec.tolist()})')
    try:
        np.digitize(0.5, np.array([0.0, 2.0, 1.0]))
        bad.append('digitize accepted non-monotonic bins')
    except ValueError:
        pass
    return 300, bad


@conf(['numpy.resize', 'numpy.diff', 'numpy.zeros_like', 'numpy.where', 'numpy.select', 'numpy.maximum', 'numpy.polyfit'])
def np_misc(rnd):
    """resize keeps the prefix when growing (cyclic refill beyond - the verified code only reads the prefix); diff with
    prepend; zeros_like / full_like keep the element type and assignment into an integer array truncates towards zero;
    where / select pick element-wise (select: first true condition, default otherwise); polyfit(deg=1) is closed-form least squares."""
    import numpy as np
    bad = []
    for _ in range(200):
        n = rnd.randint(1, 6)
        a = _arr(rnd, n)
        m = n + rnd.randint(0, 5)
        if not np.array_equal(np.resize(a, m)[:n], a):
            bad.append('resize prefix')
        d = np.diff(a, prepend=a[0])
        if d[0] != 0 or any(d[k] != a[k] - a[k - 1] for k in range(1, n)):
            bad.append('diff prepend')
        ia = np.array([rnd.randint(-9, 9) for _ in range(n)])
        z = np.zeros_like(ia)
        v = rnd.uniform(-9, 9)
        z[0] = v
        if z.dtype != ia.dtype or z[0] != math.trunc(v):
            bad.append(f'integer zeros_like / truncating assignment: {v} -> {z[0]}')
        c = a > 0
        if not np.array_equal(np.where(c, a, -a), np.array([x if x > 0 else -x for x in a])):
            bad.append('where')
        s = np.select([a > 1, a > 0], [np.full(n, 2.0), np.full(n, 1.0)], default=0.0)
        if not np.array_equal(s, np.array([2.0 if x > 1 else 1.0 if x > 0 else 0.0 for x in a])):
            bad.append('select')
        if not np.array_equal(np.maximum(a, 0.0), np.array([max(x, 0.0) for x in a])):
            bad.append('maximum')
        if n >= 2 and len(set(a)) > 1:
            y = _arr(rnd, n)
            sl, ic = np.polyfit(a, y, 1)
            sx, sy, sxx, sxy = a.sum(), y.sum(), (a * a).sum(), (a * y).sum()
            want = (n * sxy - sx * sy) / (n * sxx - sx * sx)
            if not math.isclose(sl, want, rel_tol=1e-7, abs_tol=1e-9) or not math.isclose(ic, (sy - want * sx) / n, rel_tol=1e-7, abs_tol=1e-8):
                bad.append(f'polyfit deg 1: {sl}, {ic} vs {want}')
    return 200, bad


@conf(['numpy.asarray', 'numpy.array', 'numpy slices are views (engine: writes through views refused)', 'numpy.copy'])
def np_aliasing(rnd):
    """asarray of an ndarray of the requested type is the same object, of another type a copy; array() and .copy() copy;
    a basic slice is a view (writing through it changes the base); fancy / mask indexing copies."""
    import numpy as np
    bad = []
    a = np.array([1.0, 2.0, 3.0])
    if np.asarray(a) is not a or np.asarray(a, dtype=float) is not a:
        bad.append('asarray(float array) is not the array itself')
    if np.asarray(np.array([1, 2]), dtype=float).base is not None and np.shares_memory(np.asarray(np.array([1, 2]), dtype=float), np.array([1, 2])):
        bad.append('asarray(int array, float) shares memory')
    if np.shares_memory(np.array(a), a) or np.shares_memory(a.copy(), a):
        bad.append('array() / copy() share memory')
    v = a[1:]
    v[0] = 9.0
    if a[1] != 9.0:
        bad.append('slice is not a view')
    f = a[[0, 1]]
    f[0] = -1.0
    m = a[a > 0]
    m[0] = -2.0
    if a[0] != 1.0:
        bad.append('fancy / mask indexing is a view')
    return 6, bad


@conf(['scipy.interpolate.interpn'])
def scipy_interpn(rnd):
    """method='linear': exact at nodes, multilinear inside the containing cell (hence within the corner values), ValueError
    outside the grid (contracts.C06: install_interpn)."""
    import numpy as np
    from scipy.interpolate import interpn
    bad = []
    for _ in range(150):
        nx, ny = rnd.randint(2, 5), rnd.choice([1, 3])
        xs = np.sort(np.unique(np.round(_arr(rnd, nx, 0, 400), 1)))
        if len(xs) < 2:
            continue
        if ny == 1:
            vals = _arr(rnd, len(xs))
            i = rnd.randrange(len(xs))
            if not math.isclose(float(interpn((xs,), vals, np.array([xs[i]]))[0]), vals[i], rel_tol=1e-12, abs_tol=1e-12):
                bad.append('1-D node exactness')
            j = rnd.randrange(len(xs) - 1)
            t = rnd.random()
            x = xs[j] + t * (xs[j + 1] - xs[j])
            want = (1 - t) * vals[j] + t * vals[j + 1]
            if not math.isclose(float(interpn((xs,), vals, np.array([x]))[0]), want, rel_tol=1e-9, abs_tol=1e-9):
                bad.append('1-D linear in the cell')
            for out in (xs[0] - 0.5, xs[-1] + 0.5):
                try:
                    interpn((xs,), vals, np.array([out]))
                    bad.append('1-D outside accepted')
                except ValueError:
                    pass
        else:
            ys = np.array([50.0, 60.0, 75.0])
            vals = _arr(rnd, len(xs) * 3).reshape(len(xs), 3)
            j, k = rnd.randrange(len(xs) - 1), rnd.randrange(2)
            t, u = rnd.random(), rnd.random()
            x, y = xs[j] + t * (xs[j + 1] - xs[j]), ys[k] + u * (ys[k + 1] - ys[k])
            want = ((1 - t) * (1 - u) * vals[j, k] + t * (1 - u) * vals[j + 1, k] + (1 - t) * u * vals[j, k + 1] + t * u * vals[j + 1, k + 1])
            got = float(interpn((xs, ys), vals, np.array([[x, y]]))[0])
            corners = [vals[j, k], vals[j + 1, k], vals[j, k + 1], vals[j + 1, k + 1]]
            if not math.isclose(got, want, rel_tol=1e-9, abs_tol=1e-9) or not (min(corners) - 1e-9 <= got <= max(corners) + 1e-9):
                bad.append('2-D bilinear in the cell / within the corner values')
            for pt in ([xs[0] - 0.5, 60.0], [xs[0], 49.0], [xs[-1], 76.0]):
                try:
                    interpn((xs, ys), vals, np.array([pt]))
                    bad.append('2-D outside accepted')
                except ValueError:
                    pass
    return 150, bad


@conf(['netCDF4 variables / groups (contracts.storemodel, contracts.C03: NcVar)'])
def netcdf_variables(rnd):
    """unlimited first dimension grows on write; negative indices count from the current end, out of range raises IndexError;
    unwritten slots hold the fill value, which is *masked* on reading unless set_auto_mask(False) was called (default on, for
    files created and for files opened); an unwritten variable-length cell reads as an empty array; data persist across
    close / open; a second dimension does not grow (index beyond it is refused)."""
    import netCDF4 as nc4
    import numpy as np
    bad = []
    d = tempfile.mkdtemp(prefix='conf-nc-', dir=os.environ.get('VERIF_SCRATCH'))
    try:
        fn = os.path.join(d, 'a.nc')
        ds = nc4.Dataset(fn, 'w')
        ds.createDimension('t', None)
        ds.createDimension('s', 2)
        v = ds.createVariable('v', np.float64, ('t',))
        w = ds.createVariable('w', np.float64, ('t', 's'))
        vl = ds.createVLType(np.float64, 'vl')
        x = ds.createVariable('x', vl, ('t',))
        v[0] = 1.5
        v[2] = 3.5                       # row 1 is never written
        if len(ds.dimensions['t']) != 3:
            bad.append('unlimited dimension did not grow to 3')
        if float(v[-1]) != 3.5:
            bad.append('negative index')
        try:
            v[5]
            bad.append('index beyond the end accepted')
        except IndexError:
            pass
        if not np.ma.is_masked(v[1]):
            bad.append('unwritten slot is not masked by default in a file just created')
        v.set_auto_mask(False)
        if float(v[1]) != float(v.get_fill_value() if hasattr(v, 'get_fill_value') else nc4.default_fillvals['f8']):
            bad.append('unwritten slot is not the fill value with auto-masking off')
        try:
            w[0, 2] = 1.0
            bad.append('write beyond a fixed dimension accepted')
        except (IndexError, RuntimeError):
            pass
        x[0] = np.array([1.0, 2.0])
        x[2] = np.array([3.0])
        if len(x[1]) != 0:
            bad.append(f'unwritten variable-length cell reads as {x[1]!r}')
        ds.close()
        ds = nc4.Dataset(fn, 'r')
        v = ds.variables['v']
        if float(v[0]) != 1.5 or len(ds.dimensions['t']) != 3 or list(ds.variables['x'][0]) != [1.0, 2.0]:
            bad.append('data do not persist across close / open')
        if not np.ma.is_masked(v[1]):
            bad.append('unwritten slot is not masked by default in a file just opened')
        ds.close()
    finally:
        import shutil
        shutil.rmtree(d, ignore_errors=True)
    return 12, bad


@conf(['cachetools.LRUCache (contracts.storemodel: cache model)'])
def cachetools_lru(rnd):
    """inserting a new key evicts least-recently-used entries through self.popitem() until the value fits; a value larger than
    maxsize raises ValueError('value too large') before anything changes; reads refresh recency."""
    from cachetools import LRUCache
    bad = []
    popped = []

    class C(LRUCache):
        def popitem(self):
            k, v = super().popitem()
            popped.append(k)
            return k, v
    for _ in range(100):
        popped.clear()
        c = C(maxsize=10, getsizeof=lambda v: v)
        model = []
        for step in range(12):
            k, size = rnd.randint(0, 6), rnd.randint(1, 12)
            before = dict(c)
            try:
                c[k] = size
            except ValueError:
                if size <= 10 or dict(c) != before:
                    bad.append('ValueError for a value that fits / state changed by a refused insertion')
                continue
            if size > 10:
                bad.append('oversize value accepted')
            if sum(c.values()) > 10 or c.get(k) != size:
                bad.append('capacity exceeded / value not stored')
            if rnd.random() < 0.3 and len(c):
                c[next(iter(c))]
        if any(k in c and False for k in popped):
            bad.append('popitem')
    c = C(maxsize=3, getsizeof=lambda v: 1)
    c[1] = c[2] = c[3] = 0
    c[1]
    popped.clear()
    c[4] = 0
    if popped != [2]:
        bad.append(f'eviction order: {popped}')
    return 100, bad


@conf(['pyproj.Geod (pyvc.models.geod)'])
def pyproj_geod(rnd):
    """inv(lon1, lat1, lon2, lat2) = (az12, az21, d) in that argument order, d >= 0, d(p, q) = d(q, p), d(p, p) = 0,
    fwd(p, az12(p, q), d(p, q)) = q, fwd(p, az, 0) = p; the triangle inequality (C04)."""
    from pyproj import Geod
    g = Geod(ellps='WGS84')
    bad = []
    for _ in range(300):
        lo1, la1, lo2, la2, lo3, la3 = (rnd.uniform(-179, 179), rnd.uniform(-85, 85)) * 1 + (rnd.uniform(-179, 179), rnd.uniform(-85, 85)) + (rnd.uniform(-179, 179), rnd.uniform(-85, 85))
        az12, az21, d = g.inv(lo1, la1, lo2, la2)
        _, _, d2 = g.inv(lo2, la2, lo1, la1)
        if d < 0 or not math.isclose(d, d2, rel_tol=1e-9, abs_tol=1e-6):
            bad.append('distance not symmetric / negative')
        if g.inv(lo1, la1, lo1, la1)[2] != 0:
            bad.append('d(p, p) != 0')
        lo, la, _ = g.fwd(lo1, la1, az12, d)
        if g.inv(lo, la, lo2, la2)[2] > 1e-3:
            bad.append('fwd(p, az12, d) is not q')
        lo, la, _ = g.fwd(lo1, la1, rnd.uniform(0, 360), 0.0)
        if g.inv(lo, la, lo1, la1)[2] > 1e-6:
            bad.append('fwd(p, az, 0) is not p')
        d13, d32 = g.inv(lo1, la1, lo3, la3)[2], g.inv(lo3, la3, lo2, la2)[2]
        if d > (d13 + d32) * (1 + 1e-9) + 1e-6:
            bad.append('triangle inequality')
    # argument order: a point 1 degree north of (0, 0) is about 110.57 km away, 1 degree east about 111.32 km
    if not (110500 < g.inv(0, 0, 0, 1)[2] < 110650 and 111250 < g.inv(0, 0, 1, 0)[2] < 111400):
        bad.append('argument order (lon, lat)')
    return 300, bad


@conf(['pydantic (pyvc.models.pydantic_)'])
def pydantic_models(rnd):
    """model_validate runs field validation, then mode='after' validators in definition order and stops at the first one that
    raises; frozen=True makes attribute assignment and deletion raise; a frozen model's mutable field values stay mutable
    (which is why C18 asks for immutable containers)."""
    from pydantic import BaseModel, ConfigDict, ValidationError, model_validator
    bad = []
    order = []

    class M(BaseModel):
        model_config = ConfigDict(frozen=True)
        a: int = 1
        xs: list[int] = []

        @model_validator(mode='after')
        def first(self):
            order.append('first')
            if self.a == 13:
                raise ValueError('no')
            return self

        @model_validator(mode='after')
        def second(self):
            order.append('second')
            return self
    M.model_validate(dict(a=2))
    if order != ['first', 'second']:
        bad.append(f'validator order {order}')
    order.clear()
    try:
        M.model_validate(dict(a=13))
        bad.append('failing validator did not abort')
    except ValidationError:
        if order != ['first']:
            bad.append(f'validators after a failing one still ran: {order}')
    try:
        M.model_validate(dict(a='x'))
        bad.append('field validation')
    except ValidationError:
        pass
    m = M()
    for op in ('set', 'del'):
        try:
            if op == 'set':
                m.a = 3
            else:
                del m.a
            bad.append(f'frozen model allows {op}')
        except (ValidationError, TypeError, AttributeError):
            pass
    m.xs.append(1)
    if m.xs != [1]:
        bad.append('list field of a frozen model is not editable in place (model assumption of C18)')
    return 6, bad


@conf(['functools.cache (engine: one object per argument tuple)', 'threading.Lock / get_ident (contracts.C20)', 'os / json (contracts.storemodel: GhostOS)'])
def stdlib(rnd):
    """functools.cache returns the same object for equal arguments; a Lock gives mutual exclusion and is not re-entrant;
    get_ident differs between live threads; os.rename moves a file (the source is gone, the target holds the data) and replaces
    nothing silently for directories; os.rmdir refuses a non-empty directory; os.mkdir refuses an existing one; json round-trips
    the metadata shapes."""
    import functools
    import threading
    bad = []

    @functools.cache
    def f(x):
        return {'x': x}
    if f(1) is not f(1) or f(1) is f(2):
        bad.append('functools.cache object identity')
    lk = threading.Lock()
    with lk:
        if lk.acquire(blocking=False):
            bad.append('Lock is re-entrant / not exclusive')
    ids = []
    ev = threading.Event()
    ths = [threading.Thread(target=lambda: (ids.append(threading.get_ident()), ev.wait(2))) for _ in range(3)]
    for t in ths:
        t.start()
    import time
    time.sleep(0.1)
    ids.append(threading.get_ident())
    ev.set()
    for t in ths:
        t.join()
    if len(set(ids)) != 4:
        bad.append('get_ident not distinct among live threads')
    d = tempfile.mkdtemp(prefix='conf-os-', dir=os.environ.get('VERIF_SCRATCH'))
    try:
        a, b = os.path.join(d, 'a'), os.path.join(d, 'sub')
        open(a, 'w').write('data')
        os.mkdir(b)
        try:
            os.mkdir(b)
            bad.append('mkdir of an existing directory')
        except FileExistsError:
            pass
        os.rename(a, os.path.join(b, 'a'))
        if os.path.exists(a) or open(os.path.join(b, 'a')).read() != 'data':
            bad.append('rename')
        try:
            os.rmdir(b)
            bad.append('rmdir of a non-empty directory')
        except OSError:
            pass
        try:
            os.rename(os.path.join(d, 'missing'), os.path.join(d, 'x'))
            bad.append('rename of a missing file')
        except FileNotFoundError:
            pass
        meta = dict(stores=[['a.nc', 3], ['b.nc', 0]], created='2026-01-01T00:00:00+00:00', title='t')
        with open(os.path.join(d, 'm.json'), 'w') as fp:
            json.dump(meta, fp)
        if json.load(open(os.path.join(d, 'm.json'))) != meta:
            bad.append('json round trip')
    finally:
        import shutil
        shutil.rmtree(d, ignore_errors=True)
    return 10, bad


@conf(['pandas date_range / Timestamp / zoneinfo (contracts.C13)', 'sqlite3 cursors (contracts.C14)'])
def pandas_sqlite(rnd):
    """date_range(a, b) = consecutive days, both ends included; isoweekday 1 = Monday; a wall time localised to a zone and
    converted to UTC = wall time minus the zone's offset at that moment; executing on a cursor discards its pending rows, separate
    cursors are independent; INSERT appends, RETURNING id is fresh."""
    import datetime as dt
    import sqlite3
    from zoneinfo import ZoneInfo
    import pandas as pd
    bad = []
    for _ in range(100):
        a = dt.date(2019, 1, 1) + dt.timedelta(days=rnd.randint(-40, 380))
        b = a + dt.timedelta(days=rnd.randint(0, 40))
        r = pd.date_range(a, b)
        if len(r) != (b - a).days + 1 or r[0].date() != a or r[-1].date() != b or any((r[i + 1] - r[i]).days != 1 for i in range(len(r) - 1)):
            bad.append(f'date_range({a}, {b})')
        if any(t.isoweekday() != t.date().isoweekday() for t in r[:3]) or pd.Timestamp('2019-01-07').isoweekday() != 1:
            bad.append('isoweekday')
        z = ZoneInfo(rnd.choice(['America/New_York', 'Europe/London', 'Asia/Tokyo', 'Australia/Sydney']))
        wall = dt.datetime.combine(a, dt.time(rnd.randint(3, 22), rnd.choice([0, 30])))
        aware = wall.replace(tzinfo=z)
        utc = aware.astimezone(dt.timezone.utc).replace(tzinfo=None)
        if utc != wall - aware.utcoffset():
            bad.append('local -> UTC')
    con = sqlite3.connect(':memory:')
    con.execute('create table t (id integer primary key, v int)')
    ids = [con.execute('insert into t (v) values (?) returning id', (i,)).fetchone()[0] for i in range(5)]
    if len(set(ids)) != 5:
        bad.append('RETURNING id not fresh')
    c1, c2 = con.cursor(), con.cursor()
    c1.execute('select v from t order by v')
    first = c1.fetchone()
    c2.execute('select count(*) from t')
    if c2.fetchone()[0] != 5 or [r[0] for r in c1.fetchall()] != [1, 2, 3, 4] or first[0] != 0:
        bad.append('separate cursors are not independent')
    c1.execute('select v from t order by v')
    c1.fetchone()
    c1.execute('select count(*) from t')
    if c1.fetchall() != [(5,)]:
        bad.append('re-executing on a cursor does not discard its pending rows')
    return 100, bad


def run_all(seed=0, only=None):
    out = []
    for name, models, fn in CHECKS:
        if only and name not in only:
            continue
        rnd = random.Random(f'{seed}:{name}')
        try:
            cases, bad = fn(rnd)
            out.append(dict(check=name, models=models, clauses=' '.join((fn.__doc__ or '').split()), cases=cases, disagreements=bad[:5], ok=not bad))
        except Exception as e:   # noqa
            import traceback
            out.append(dict(check=name, models=models, cases=0, ok=False, error=f'{type(e).__name__}: {e}', trace=traceback.format_exc()[-600:]))
    return out


def main():
    seed = int(sys.argv[1]) if len(sys.argv) > 1 else int(os.environ.get('VERIF_SEED', '0') or 0)
    res = run_all(seed)
    for r in res:
        print(('ok   ' if r['ok'] else 'FAIL ') + r['check'], r.get('cases'), r.get('disagreements') or r.get('error') or '')
    print('@@CONFORMANCE@@' + json.dumps(res))
    return 0 if all(r['ok'] for r in res) else 1


if __name__ == '__main__':
    sys.exit(main())
