"""Runtime structures shared by the interpreter mixins."""
from __future__ import annotations

import ast

from .source import ModuleInfo
from .values import Ext, UnionType


class _Return(Exception):
    def __init__(self, value):
        self.value = value


class _Break(Exception):
    pass


class _Continue(Exception):
    pass


class Frame:
    def __init__(self, module, locals_=None, closure=None, func=None, cls_body=None):
        self.module = module
        self.locals = locals_ if locals_ is not None else {}
        self.closure = closure
        self.func = func
        self.globals_decl = set()
        self.nonlocal_decl = set()
        self.cls_body = cls_body
        self.cur_exc = None


class ClassInfo:
    """A class of the real source, evaluated (class body executed) in this path's world."""

    def __init__(self, module: ModuleInfo, node: ast.ClassDef, qualname):
        self.module = module
        self.node = node
        self.name = node.name
        self.qualname = qualname
        self.bases = []
        self.attrs = {}
        self.annotations = {}     # own annotated names in order (dataclass / pydantic fields)
        self.ann_defaults = {}
        self.enum_kind = None     # None | 'plain' | 'int' | 'str'
        self.members = []
        self.is_exception = None  # ExcClass
        self.dataclass = None     # None | dict(frozen=..)
        self.decorators = []
        self.keywords = {}

    @property
    def fq(self):
        return f'{self.module.name}:{self.qualname}'

    def mro(self):
        out = [self]
        for b in self.bases:
            if isinstance(b, ClassInfo):
                for c in b.mro():
                    if c not in out:
                        out.append(c)
        return out

    def lookup(self, name):
        for c in self.mro():
            if name in c.attrs:
                return c.attrs[name], c
        return None, None

    def issub(self, other):
        return other in self.mro()

    def ext_bases(self):
        out = []
        for c in self.mro():
            out += [b for b in c.bases if isinstance(b, Ext)]
        return out

    def all_fields(self):
        """dataclass / pydantic style fields over the MRO (base first)."""
        out = {}
        for c in reversed(self.mro()):
            for n in c.annotations:
                out[n] = c
        return out

    def __repr__(self):
        return f'<class {self.qualname}>'

    def __or__(self, o):
        return UnionType([self, o])

    def __ror__(self, o):
        return UnionType([o, self])



MISSING = object()


def fr_child(fr):
    return Frame(fr.module, {}, closure=fr, func=fr.func)


class _NI:
    def __repr__(self):
        return 'NotImplemented'


NotImplementedVal = _NI()
