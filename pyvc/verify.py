"""Proof units, the runner, evidence and verdicts.

A *unit* states the contract of one function of the real source (its ``func`` fq-name): symbolic
inputs + ``requires`` (h.assume), a call of the real body (h.call), and the postconditions /
exceptional postconditions (h.ensure).  Callees either carry their own contract (installed as a
summary: the caller is checked against the contract, the callee's body against the same contract
in its own unit) or are executed inline (then their bodies are verified as part of the caller's
paths and they are listed in the evidence).
"""
from __future__ import annotations

import json
import os
import time
import traceback
from fractions import Fraction

import z3

from . import models as models_pkg
from .core import InfeasiblePath, PathCtx, PathLimit, explore
from .interp import Interp
from .loops import LoopDone
from .rt import ClassInfo
from .source import Repo, Unsupported
from .values import BUILTIN_EXCS, ExcInstance, Obj, PyExc, from_model_value

UNITS: dict[str, list] = {}


class Unit:
    def __init__(self, prop, name, func, fn, replay=None, characterises=None, bounded=False,
                 expect_paths=None, timeout_ms=None, note=None, max_paths=4000, max_seconds=None):
        self.prop = prop
        self.name = name
        self.func = func if isinstance(func, (list, tuple)) else [func]
        self.fn = fn
        self.replay = replay
        self.characterises = characterises
        self.timeout_ms = timeout_ms
        self.note = note
        self.max_paths = max_paths
        self.max_seconds = max_seconds      # wall-clock budget of the unit (None = no limit): beyond it the unit comes out undecided


def unit(prop, name, func, **kw):
    def deco(fn):
        UNITS.setdefault(prop, []).append(Unit(prop, name, func, fn, **kw))
        return fn
    return deco


class Harness:
    """What a unit function sees (one instance per path)."""

    def __init__(self, u: Unit, ctx: PathCtx, repo: Repo):
        self.unit = u
        self.ctx = ctx
        self.repo = repo
        self.I = Interp(repo, ctx, models_pkg.default_models())
        self.trusted = []
        self.pres = []
        self.clauses_stated = []
        self.inputs = {}

    # symbols
    def real(self, name):
        return self.ctx.real(name)

    def int(self, name):
        return self.ctx.int(name)

    def bool(self, name):
        return self.ctx.bool(name)

    def assume(self, cond, why=None):
        """A precondition delimiting 'valid input' (reported in the evidence)."""
        if why:
            if why not in self.ctx.assumed:
                self.ctx.assumed.append(why)
        self.ctx.assume(cond)

    def trust(self, what):
        if what not in self.trusted:
            self.trusted.append(what)

    def choice(self, n, label=None):
        """Harness-level nondeterministic choice (e.g. None vs a value for an optional input)."""
        return self.ctx.choose(n, lambda i: True)

    # objects of the real classes
    def cls(self, fq):
        c = self.I.lookup_fq(fq)
        return c

    def new(self, fq, **attrs):
        """An instance of a real class with the given attribute values, *without* running its
        constructor (the representation invariant assumed for it is what the unit states)."""
        c = self.cls(fq)
        o = Obj(c)
        partial = attrs.pop('_partial', False)
        o.attrs.update(attrs)
        if partial:
            o.attrs['__partial__'] = True
        return o

    def construct(self, fq, *args, **kw):
        return self.I.call(self.cls(fq), list(args), kw)

    def func(self, fq):
        return self.I.lookup_fq(fq)

    def call(self, fq, *args, **kw):
        """Execute the body of the real function (never its summary)."""
        f = self.I.lookup_fq(fq)
        from .source import FuncInfo
        if isinstance(f, FuncInfo):
            self.I.no_summary.add(f.fq)
            try:
                return self.I.call_function(f, list(args), kw)
            finally:
                self.I.no_summary.discard(f.fq)
        return self.I.call(f, list(args), kw)

    def method(self, obj, name, *args, **kw):
        m = self.I.getattr(obj, name)
        from .values import BoundMethod
        if isinstance(m, BoundMethod):
            self.I.no_summary.add(m.func.fq)
            try:
                return self.I.call(m, list(args), kw)
            finally:
                self.I.no_summary.discard(m.func.fq)
        return self.I.call(m, list(args), kw)

    def getattr(self, obj, name):
        return self.I.getattr(obj, name)

    def summary(self, fq, fn):
        """Install the contract of a callee (used at call sites instead of its body)."""
        self.I.summaries[fq] = fn

    def model(self, name, fn):
        self.I.models[name] = fn

    # obligations
    def ensure(self, clause, goal, note=None):
        self.clauses_stated.append(clause)
        if isinstance(goal, bool):
            goal = z3.BoolVal(goal)
        return self.ctx.prove(clause, goal, note=note)

    def ensure_from(self, clause, goal, facts, note=None):
        """Obligation discharged from an explicit, small set of facts instead of the whole path condition."""
        from .core import prove_from
        self.clauses_stated.append(clause)
        return prove_from(self.ctx, clause, goal, list(facts), note=note)

    def lemma(self, clause, goal, note=None):
        """Prove an intermediate fact, then make it available to later obligations."""
        r = self.ensure(clause, goal, note)
        if r.status == 'proved':
            self.ctx.assume(goal)
        return r

    def fail(self, clause, note):
        """An obligation that is violated outright on this (feasible) path."""
        return self.ensure(clause, False, note=note)

    def exc_is(self, e: PyExc, name):
        cls = BUILTIN_EXCS.get(name)
        if cls is None:
            return e.cls.name == name or e.cls.name.endswith('.' + name)
        return e.cls.issub(cls)


class ClauseResult:
    def __init__(self, name):
        self.name = name
        self.paths = 0
        self.proved = 0
        self.refuted = []
        self.unknown = []
        self.seconds = 0.0
        self.backends = set()

    @property
    def status(self):
        if self.refuted:
            return 'refuted'
        if self.unknown:
            return 'unknown'
        return 'proved' if self.proved else 'unstated'


class UnitResult:
    def __init__(self, u: Unit):
        self.unit = u
        self.clauses: dict[str, ClauseResult] = {}
        self.paths = 0
        self.live_paths = 0
        self.unsupported = []
        self.crash = None
        self.functions = {}
        self.summaries = {}
        self.assumed = []
        self.trusted = []
        self.solver_seconds = 0.0
        self.wall = 0.0
        self.models_used = set()
        self.samples = []
        self.cross = dict(unsat=0, sat=0, unknown=0, error=0)

    @property
    def status(self):
        if self.crash:
            return 'crash'
        if self.unsupported:
            return 'undecided'
        if self.live_paths == 0:
            return 'vacuous'
        st = [c.status for c in self.clauses.values()]
        if 'refuted' in st:
            return 'refuted'
        if 'unknown' in st:
            return 'undecided'
        if not st:
            return 'vacuous'
        return 'proved'


def model_to_dict(ctx: PathCtx, model):
    out = {}
    if model is None:
        return out
    for name, c in ctx.named.items():
        try:
            if name.startswith('array:'):
                f, length = c
                n = model.eval(z3.IntVal(length) if isinstance(length, int) else length, model_completion=True)
                n = n.as_long() if z3.is_int_value(n) else 0
                vals = [from_model_value(model.eval(f(i), model_completion=True)) for i in range(min(max(n, 0), 64))]
                out[name[6:]] = vals
            else:
                out[name] = from_model_value(model.eval(c, model_completion=True))
        except Exception as e:     # noqa
            out[name] = f'<unreadable: {e}>'
    return out


def run_unit(u: Unit, repo: Repo, timeout_ms=10000, seed=0) -> UnitResult:
    res = UnitResult(u)
    t0 = time.time()
    tmo = u.timeout_ms or timeout_ms
    models_pkg.USED.clear()
    from . import core as _core
    _core.CROSSCHECK['seen'] = {}
    _core.GAVE_UP.clear()

    def make_ctx(trace):
        return PathCtx(trace, timeout_ms=tmo, seed=seed)

    def body(ctx):
        h = Harness(u, ctx, repo)
        ctx.harness = h
        try:
            try:
                u.fn(h)
                for cb in list(getattr(ctx, 'at_end', [])):
                    cb(h)               # end-of-path checks registered by models (e.g. state a model does not declare)
            finally:
                # purity of memoised functions (functools.cache / lru_cache): memoisation is only transparent if the result
                # depends on the arguments alone, so a read of rebindable module state inside one is a violation of every
                # "depends only on its inputs and the active configuration" reading of the unit's property
                if ctx.memoised_entered and not getattr(ctx, '_memo_checked', False):
                    ctx._memo_checked = True
                    reads = sorted(set(ctx.memo_state_reads))
                    h.clauses_stated.append('memoised-functions-depend-on-their-arguments-only')
                    ctx.prove('memoised-functions-depend-on-their-arguments-only', z3.BoolVal(not reads),
                              note='; '.join(f'{fn} reads {st}' for fn, st in reads) or 'memoised functions entered: ' + ', '.join(sorted(ctx.memoised_entered)))
        except InfeasiblePath:
            raise
        except LoopDone:
            pass
        except Unsupported as e:
            ctx.unsupported = str(e)
        except PyExc as e:
            # an exception escaping the unit function itself = the unit did not state what may
            # be raised: treat as an unmet (implicit) 'no unexpected exception' clause
            h.clauses_stated.append('no-unexpected-exception')
            ctx.prove('no-unexpected-exception', z3.BoolVal(False),
                      note=f'{e.inst!r} raised at {e.inst.where}')

    _core.DEADLINE[0] = (time.time() + u.max_seconds * (1 if timeout_ms <= 10000 else 4)) if u.max_seconds else None
    try:
        paths = explore(body, make_ctx, max_paths=u.max_paths)
    except PathLimit as e:
        res.unsupported.append(str(e))
        paths = getattr(e, 'done', [])
    except Exception:
        res.crash = traceback.format_exc()
        paths = []
    for ctx in paths:
        res.paths += 1
        res.solver_seconds += ctx.solver_seconds
        if getattr(ctx, 'outcome', None) == 'infeasible':
            continue
        if getattr(ctx, 'unsupported', None):
            res.unsupported.append(ctx.unsupported)
            continue
        # vacuity guard: the path condition must be satisfiable (a canary `False` must be refuted)
        try:
            ctx.solver.set('timeout', min(ctx.timeout_ms, 5000))      # 'unknown' counts as live anyway: no point in waiting long for it
            live = ctx._check() != z3.unsat
        finally:
            ctx.solver.set('timeout', ctx.timeout_ms)
        if live:
            res.live_paths += 1
        h = ctx.harness
        for a in ctx.assumed:
            if a not in res.assumed:
                res.assumed.append(a)
        for t in h.trusted:
            if t not in res.trusted:
                res.trusted.append(t)
        res.functions.update(ctx.functions_entered)
        for k, v in ctx.summaries_used.items():
            res.summaries[k] = res.summaries.get(k, 0) + v
        for r in ctx.results:
            c = res.clauses.setdefault(r.name, ClauseResult(r.name))
            c.paths += 1
            c.seconds += r.seconds
            c.backends.add(r.backend)
            if getattr(r, 'cross', None):
                res.cross[r.cross] = res.cross.get(r.cross, 0) + 1
            if r.status == 'proved':
                c.proved += 1
            elif r.status == 'refuted':
                c.refuted.append(dict(model=model_to_dict(ctx, r.model), note=r.note,
                                      formula=_fmt(r.formula), path=r.path,
                                      pc=[_fmt(p) for p in ctx.pc[-12:]]))
            else:
                c.unknown.append(dict(formula=_fmt(r.formula), note=r.note, path=r.path))
            if len(res.samples) < 3 and r.status == 'proved':
                res.samples.append(dict(unit=u.name, clause=r.name, goal=_fmt(r.formula),
                                        path_decisions=r.path, backend=r.backend))
    _core.DEADLINE[0] = None
    res.models_used = set(models_pkg.USED)
    res.wall = time.time() - t0
    return res


def _fmt(f, limit=600):
    try:
        s = str(f).replace('\n', ' ')
        s = ' '.join(s.split())
    except Exception:   # noqa
        s = '<formula>'
    return s if len(s) <= limit else s[:limit] + ' ...'


def jsonable(v):
    if isinstance(v, Fraction):
        return float(v) if v.denominator != 1 else int(v)
    if isinstance(v, dict):
        return {str(k): jsonable(x) for k, x in v.items()}
    if isinstance(v, (list, tuple, set)):
        return [jsonable(x) for x in v]
    if isinstance(v, (int, float, str, bool)) or v is None:
        return v
    return str(v)
