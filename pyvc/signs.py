"""Sign and bound lemmas by structural decomposition.

The nonlinear definedness questions of the numeric kernels ("can this denominator be zero?", "can the base of this
real power be negative?", "is this index non-negative?") are sign questions about products, quotients and powers of
sub-terms whose own signs follow from the stated preconditions.  z3's incremental core routinely gives up on them when
the whole path condition (nested If / pow / interp terms) is in the query, although every single step is trivial.

``interval_of(ctx, t)`` derives an interval with rational end points (open, closed or infinite) that contains the real /
integer term ``t`` under the current path condition:

* numerals are exact; leaves (constants, array reads, applications without a rule) and small composite terms are settled
  by the path's *light* solver (the small conjuncts of the path condition): one ``unsat`` answer per excluded sign, and a
  comparison with 1 where a rule below needs it;
* composite terms combine the intervals of their arguments by interval arithmetic for + - * / and by the facts of the
  axiomatised transcendentals: exp > 0; pow(a, b) > 0 for a > 0, pow(a, b) >= 1 for a >= 1, b >= 0, pow(a, b) <= 1 for
  0 < a <= 1, b >= 0, pow(0, b) = 0 for b > 0; sqrt >= 0, sqrt(x) > 0 for x > 0; ln(x) >= 0 for x >= 1 - the same facts
  `pyvc.models.mathfn` adds as axiom instances and the evidence lists as trusted;
* (x * y) / x is y for x != 0; a / b >= 1 if b > 0 and the normalised polynomial a - b is >= 0;
* If(c, x, y): the light solver settles c, or the two branches are analysed under c / not c and joined;
  If(x >= y, x, y) / If(x <= y, x, y) are max / min;
* terms registered by a library model with bounding terms (``ctx.term_bounds``: np.interp lies between the smallest and
  the largest of its node values) take the interval spanned by the bounds' intervals.

Every result is a consequence of the path condition (each leaf fact is an `unsat` answer of z3, each rule is valid over the
reals), so a branch it excludes is infeasible and a goal it establishes is proved; the evidence reports such obligations
under the back end ``z3-sign-lemmas``.  What it cannot settle is left to the ordinary back ends.
"""
from __future__ import annotations

from fractions import Fraction

import z3

STATS = dict(queries=0, decided=0)
import os as _os
_DEBUG = bool(_os.environ.get('VERIF_DEBUG_SIGNS'))


def _explain(sc, t, ind, maxd=9):
    import sys
    from .core import _small
    if ind > maxd:
        return
    try:
        I = sc.iv(t)
    except Exception as e:   # noqa
        I = e
    head = t.decl().name() if z3.is_app(t) else '?'
    txt = str(t).replace('\n', ' ') if _small(t, 5) else f'<{t.num_args() if z3.is_app(t) else 0} args, depth {z3.Z3_get_depth(t.ctx.ref(), t.as_ast())}>'
    print('  ' * ind + f'{head} {I}  :: {txt[:110]}', file=sys.stderr)
    if z3.is_app(t) and not (not isinstance(I, Exception) and (I.gt0() or I.lt0())):
        for c in t.children():
            if z3.is_arith(c):
                _explain(sc, c, ind + 1, maxd)
INF = None


class Iv:
    """Interval: lo / hi are Fractions or None (infinite); ls / hs True = that end is excluded."""
    __slots__ = ('lo', 'ls', 'hi', 'hs')

    def __init__(self, lo=None, ls=True, hi=None, hs=True):
        self.lo, self.ls, self.hi, self.hs = lo, (ls if lo is not None else True), hi, (hs if hi is not None else True)

    def __repr__(self):
        return ('(' if self.ls else '[') + f'{self.lo}, {self.hi}' + (')' if self.hs else ']')

    @property
    def top(self):
        return self.lo is None and self.hi is None

    def gt0(self):
        return self.lo is not None and (self.lo > 0 or (self.lo == 0 and self.ls))

    def ge0(self):
        return self.lo is not None and self.lo >= 0

    def lt0(self):
        return self.hi is not None and (self.hi < 0 or (self.hi == 0 and self.hs))

    def le0(self):
        return self.hi is not None and self.hi <= 0

    def nonzero(self):
        return self.gt0() or self.lt0()

    def is_zero(self):
        return self.lo == 0 and self.hi == 0 and not self.ls and not self.hs

    def ge(self, c):
        return self.lo is not None and self.lo >= c

    def le(self, c):
        return self.hi is not None and self.hi <= c


TOP = Iv()
POS = Iv(Fraction(0), True, None, True)
NONNEG = Iv(Fraction(0), False, None, True)
NEG = Iv(None, True, Fraction(0), True)
NONPOS = Iv(None, True, Fraction(0), False)


def point(q):
    return Iv(q, False, q, False)


def _lo_add(a, asx, b, bsx):
    if a is None or b is None:
        return None, True
    return a + b, asx or bsx


def i_add(A, B):
    lo, ls = _lo_add(A.lo, A.ls, B.lo, B.ls)
    hi, hs = _lo_add(A.hi, A.hs, B.hi, B.hs)
    return Iv(lo, ls, hi, hs)


def i_neg(A):
    return Iv(None if A.hi is None else -A.hi, A.hs, None if A.lo is None else -A.lo, A.ls)


def _ends(A):
    """end points as (value | +-inf marker, strict)."""
    return [(A.lo, A.ls, -1), (A.hi, A.hs, +1)]


def i_mul(A, B):
    if A.is_zero() or B.is_zero():
        return point(Fraction(0))
    # products of end points, with infinities: sign-aware
    cands = []
    for (a, asx, ad) in _ends(A):
        for (b, bsx, bd) in _ends(B):
            if a is None and b is None:
                cands.append((None, ad * bd, True))
            elif a is None:
                if b == 0:
                    cands.append((Fraction(0), 0, bsx))        # 0 * inf along a closed 0 end = 0; if 0 excluded the product stays away from it only in sign
                else:
                    cands.append((None, ad * (1 if b > 0 else -1), True))
            elif b is None:
                if a == 0:
                    cands.append((Fraction(0), 0, asx))
                else:
                    cands.append((None, bd * (1 if a > 0 else -1), True))
            else:
                # the end-point product is attained if both end points are, or if one of them is an attained 0
                attained = (not asx and not bsx) or (a == 0 and not asx) or (b == 0 and not bsx)
                cands.append((a * b, 0, not attained))
    lo = hi = None
    ls = hs = True
    lo_inf = any(v is None and d < 0 for v, d, _ in cands)
    hi_inf = any(v is None and d > 0 for v, d, _ in cands)
    fin = [(v, s) for v, d, s in cands if v is not None]
    if not lo_inf and fin:
        lo = min(v for v, _ in fin)
        ls = all(s for v, s in fin if v == lo)
    if not hi_inf and fin:
        hi = max(v for v, _ in fin)
        hs = all(s for v, s in fin if v == hi)
    return Iv(lo, ls, hi, hs)


def i_inv(B):
    """1 / B for B not containing 0."""
    if B.gt0():
        hi = None if (B.lo == 0) else 1 / B.lo
        lo = Fraction(0) if B.hi is None else 1 / B.hi
        return Iv(lo, True if B.hi is None else B.hs, hi, B.ls)
    if B.lt0():
        return i_neg(i_inv(i_neg(B)))
    return TOP


def i_join(A, B):
    if A.lo is None or B.lo is None:
        lo, ls = None, True
    elif A.lo < B.lo or (A.lo == B.lo and not A.ls):
        lo, ls = A.lo, A.ls
    else:
        lo, ls = B.lo, B.ls
    if A.hi is None or B.hi is None:
        hi, hs = None, True
    elif A.hi > B.hi or (A.hi == B.hi and not A.hs):
        hi, hs = A.hi, A.hs
    else:
        hi, hs = B.hi, B.hs
    return Iv(lo, ls, hi, hs)


def i_meet(A, B):
    """Both hold."""
    if A.lo is None:
        lo, ls = B.lo, B.ls
    elif B.lo is None or A.lo > B.lo or (A.lo == B.lo and A.ls):
        lo, ls = A.lo, A.ls
    else:
        lo, ls = B.lo, B.ls
    if A.hi is None:
        hi, hs = B.hi, B.hs
    elif B.hi is None or A.hi < B.hi or (A.hi == B.hi and A.hs):
        hi, hs = A.hi, A.hs
    else:
        hi, hs = B.hi, B.hs
    return Iv(lo, ls, hi, hs)


def i_max(A, B):
    lo, ls = (None, True)
    if A.lo is not None or B.lo is not None:
        c = [(v, s) for v, s in ((A.lo, A.ls), (B.lo, B.ls)) if v is not None]
        lo = max(v for v, _ in c)
        ls = all(s for v, s in c if v == lo)
    if A.hi is None or B.hi is None:
        hi, hs = None, True
    else:
        hi = max(A.hi, B.hi)
        hs = all(s for v, s in ((A.hi, A.hs), (B.hi, B.hs)) if v == hi)
    return Iv(lo, ls, hi, hs)


def _num(t):
    if z3.is_rational_value(t):
        return Fraction(t.numerator_as_long(), t.denominator_as_long())
    if z3.is_int_value(t):
        return Fraction(t.as_long())
    return None


class SignCtx:
    def __init__(self, ctx):
        self.ctx = ctx
        self.cache = {}
        self.budget = 600      # light-solver queries per top-level question

    # -- leaf queries --------------------------------------------------------------------------------
    def _excluded(self, cond):
        """True iff the small facts (plus the pushed branch conditions) exclude cond."""
        if self.budget <= 0:
            return False
        self.budget -= 1
        STATS['queries'] += 1
        light = self.ctx.light
        try:
            light.push()
            light.add(cond)
            r = light.check()
            light.pop()
            return r == z3.unsat
        except z3.Z3Exception:
            try:
                light.pop()
            except z3.Z3Exception:
                pass
            return False

    def query(self, t, known=TOP):
        zero = z3.RealVal(0) if t.sort().kind() == z3.Z3_REAL_SORT else z3.IntVal(0)
        r = known
        if not (r.gt0() or r.lt0()):
            no_pos = (not r.le0()) and self._excluded(t > zero)
            no_neg = (not r.ge0()) and self._excluded(t < zero)
            if no_pos or r.le0():
                r = i_meet(r, NONPOS)
            if no_neg or r.ge0():
                r = i_meet(r, NONNEG)
            if r.ge0() and not r.gt0() and not r.le0() and self._excluded(t == zero):
                r = i_meet(r, POS)
            elif r.le0() and not r.lt0() and not r.ge0() and self._excluded(t == zero):
                r = i_meet(r, NEG)
        return r

    # -- structure -----------------------------------------------------------------------------------
    def iv(self, t, depth=0):
        key = t.get_id()
        hit = self.cache.get(key)
        if hit is not None:
            return hit[1]
        r = self._iv(t, depth)
        if not r.top:
            self.cache[key] = (t, r)       # the term is kept alive with its entry: z3 reuses the ids of collected terms
        return r

    def _iv(self, t, depth):
        q = _num(t)
        if q is not None:
            return point(q)
        if depth > 80 or not z3.is_app(t):
            return TOP
        k = t.decl().kind()
        ch = t.children()
        res = TOP
        tb = getattr(self.ctx, 'term_bounds', {}).get(t.get_id())
        if tb is not None:
            lo_t, hi_t = tb
            L, H = self.iv(lo_t, depth + 1), self.iv(hi_t, depth + 1)
            return Iv(L.lo, L.ls, H.hi, H.hs)
        if k == z3.Z3_OP_ADD:
            res = point(Fraction(0))
            for c in ch:
                res = i_add(res, self.iv(c, depth + 1))
                if res.top:
                    break
        elif k == z3.Z3_OP_SUB and len(ch) >= 2:
            res = self.iv(ch[0], depth + 1)
            for c in ch[1:]:
                res = i_add(res, i_neg(self.iv(c, depth + 1)))
                if res.top:
                    break
        elif k == z3.Z3_OP_UMINUS:
            res = i_neg(self.iv(ch[0], depth + 1))
        elif k == z3.Z3_OP_MUL:
            res = point(Fraction(1))
            for c in ch:
                res = i_mul(res, self.iv(c, depth + 1))
                if res.is_zero():
                    break
        elif k == z3.Z3_OP_DIV and len(ch) == 2:
            res = self._div(ch[0], ch[1], depth)
        elif k == z3.Z3_OP_TO_REAL:
            res = self.iv(ch[0], depth + 1)
        elif k == z3.Z3_OP_ITE:
            res = self._ite(ch, depth)
        elif k == z3.Z3_OP_UNINTERPRETED and ch:
            name = t.decl().name()
            if name == 'exp_':
                res = POS
            elif name == 'pow_':
                A, B = self.iv(ch[0], depth + 1), self.iv(ch[1], depth + 1)
                if A.gt0():
                    res = POS
                    if B.ge0() and A.ge(1):
                        res = Iv(Fraction(1), False, None, True)
                    elif B.ge0() and A.le(1):
                        res = Iv(Fraction(0), True, Fraction(1), False)
                elif A.ge0() and B.gt0():
                    res = NONNEG
            elif name == 'sqrt_':
                A = self.iv(ch[0], depth + 1)
                if A.gt0():
                    res = POS
                elif A.ge0():
                    res = NONNEG
            elif name in ('ln', 'log10'):
                A = self.iv(ch[0], depth + 1)
                if A.ge(1):
                    res = POS if (A.lo > 1 or A.ls) else NONNEG
                elif A.gt0() and A.le(1):
                    res = NONPOS
        if not (res.gt0() or res.lt0() or res.is_zero()):
            # whatever the rules leave open may still follow from the small facts directly (e.g. pr - 1 > 0 from pr > 1)
            from .core import _small
            if _small(t, 6) or k in (z3.Z3_OP_UNINTERPRETED, z3.Z3_OP_SELECT) or not ch:
                res = self.query(t, res)
        return res

    def _div(self, a, b, depth):
        B = self.iv(b, depth + 1)
        if not B.nonzero():
            return TOP            # x / 0 is unspecified in SMT-LIB (and undefined in Python): say nothing
        # (x * y * z) / (x * z) = y: factors of the (non-zero) denominator cancel against equal factors of the numerator
        if a.get_id() == b.get_id():
            return point(Fraction(1))

        def factors(t):
            if z3.is_app(t) and t.decl().kind() == z3.Z3_OP_MUL:
                out = []
                for c in t.children():
                    out += factors(c)
                return out
            return [t]
        fa, fb = factors(a), factors(b)
        if len(fa) > 1 or len(fb) > 1:
            rest = list(fa)
            ok = True
            for f in fb:
                j = next((i for i, g in enumerate(rest) if g.get_id() == f.get_id()), None)
                if j is None:
                    ok = False
                    break
                del rest[j]
            if ok:
                res = point(Fraction(1))
                for c in rest:
                    res = i_mul(res, self.iv(c, depth + 1))
                return res
        A = self.iv(a, depth + 1)
        res = i_mul(A, i_inv(B))
        # a / b >= 1 when b > 0 and a - b >= 0 (a - b normalised into a sum of monomials, so that like terms cancel)
        if B.gt0() and not res.ge(1) and depth < 40:
            try:
                d = z3.simplify(a - b, som=True)
                if d.get_id() != (a - b).get_id():
                    D = self.iv(d, depth + 10)
                    if D.ge0():
                        res = i_meet(res, Iv(Fraction(1), not D.ge0() or D.gt0(), None, True))
            except z3.Z3Exception:
                pass
        return res

    def _ite(self, ch, depth):
        c, x, y = ch
        from .core import _small
        # max / min written as a conditional
        if z3.is_app(c) and c.num_args() == 2:
            ck = c.decl().kind()
            a, b = c.arg(0), c.arg(1)
            same = {x.get_id(), y.get_id()} == {a.get_id(), b.get_id()}
            if same and ck in (z3.Z3_OP_GE, z3.Z3_OP_GT, z3.Z3_OP_LE, z3.Z3_OP_LT):
                picks_larger = (ck in (z3.Z3_OP_GE, z3.Z3_OP_GT)) == (x.get_id() == a.get_id())
                X, Y = self.iv(x, depth + 1), self.iv(y, depth + 1)
                return i_max(X, Y) if picks_larger else i_neg(i_max(i_neg(X), i_neg(Y)))
        small = _small(c, 9)
        if small:
            if self._excluded(z3.Not(c)):
                return self.iv(x, depth + 1)
            if self._excluded(c):
                return self.iv(y, depth + 1)
        out = None
        for cond, br in ((c, x), (z3.Not(c), y)):
            light = self.ctx.light
            saved = self.cache
            self.cache = dict(saved) if small else saved
            light.push()
            try:
                if small:
                    light.add(cond)
                r = self.iv(br, depth + 1)
            finally:
                light.pop()
                self.cache = saved
            out = r if out is None else i_join(out, r)
            if out.top:
                break
        return out


_CMP = {z3.Z3_OP_LE: 'le', z3.Z3_OP_LT: 'lt', z3.Z3_OP_GE: 'ge', z3.Z3_OP_GT: 'gt', z3.Z3_OP_EQ: 'eq', z3.Z3_OP_DISTINCT: 'ne'}
_NEGATED = dict(le='gt', lt='ge', ge='lt', gt='le', eq='ne', ne='eq')


def _atom(cond):
    """cond as (relation, term) meaning  term <relation> 0, or None."""
    neg = False
    while z3.is_not(cond):
        cond = cond.arg(0)
        neg = not neg
    if not z3.is_app(cond):
        return None
    rel = _CMP.get(cond.decl().kind())
    if rel is None or cond.num_args() != 2:
        return None
    a, b = cond.arg(0), cond.arg(1)
    if not (z3.is_arith(a) and z3.is_arith(b)):
        return None
    if neg:
        rel = _NEGATED[rel]
    qb, qa = _num(b), _num(a)
    if qb is not None and qb == 0:
        return rel, a
    if qa is not None and qa == 0:
        flip = dict(le='ge', lt='gt', ge='le', gt='lt', eq='eq', ne='ne')
        return flip[rel], b
    if a.sort() != b.sort():
        a = z3.ToReal(a) if a.is_int() else a
        b = z3.ToReal(b) if b.is_int() else b
    return rel, a - b


def _holds(rel, I):
    """True / False / None: does  t rel 0  hold for every / no value in I?"""
    if rel == 'gt':
        return True if I.gt0() else False if I.le0() else None
    if rel == 'ge':
        return True if I.ge0() else False if I.lt0() else None
    if rel == 'lt':
        return True if I.lt0() else False if I.ge0() else None
    if rel == 'le':
        return True if I.le0() else False if I.gt0() else None
    if rel == 'eq':
        return True if I.is_zero() else False if I.nonzero() else None
    if rel == 'ne':
        return True if I.nonzero() else False if I.is_zero() else None
    return None


def sign_decides(ctx, cond):
    """True / False if the bound lemmas settle the comparison ``cond`` under ctx's path condition, else None."""
    try:
        if z3.is_and(cond):
            rs = [sign_decides(ctx, c) for c in cond.children()]
            if any(r is False for r in rs):
                return False
            return True if all(r is True for r in rs) else None
        if z3.is_or(cond):
            rs = [sign_decides(ctx, c) for c in cond.children()]
            if any(r is True for r in rs):
                return True
            return False if all(r is False for r in rs) else None
        if z3.is_not(cond) and (z3.is_and(cond.arg(0)) or z3.is_or(cond.arg(0)) or z3.is_not(cond.arg(0))):
            r = sign_decides(ctx, cond.arg(0))
            return None if r is None else (not r)
        if z3.is_true(cond):
            return True
        if z3.is_false(cond):
            return False
        at = _atom(cond)
        if at is None:
            if _DEBUG:
                import sys
                from .core import _small
                print('SIGNS-NOT-AN-ATOM', cond.decl().name() if z3.is_app(cond) else '?', str(cond)[:300] if _small(cond, 8) else '<big>', file=sys.stderr)
            return None
        rel, t = at
        sc = getattr(ctx, '_signctx', None)
        if sc is None or ctx.pure_depth:
            sc = SignCtx(ctx)
            if not ctx.pure_depth:
                ctx._signctx = sc
        sc.budget = 600
        I = sc.iv(t)
        if I.top:
            if _DEBUG:
                import sys
                print('SIGNS-OPEN', rel, I, 'budget', sc.budget, file=sys.stderr)
                _explain(sc, t, 0)
            return None
        if I.lo is not None and I.hi is not None and (I.lo > I.hi or (I.lo == I.hi and (I.ls or I.hs))):
            if _DEBUG:
                import sys
                print('SIGNS-CONTRADICTORY', rel, I, file=sys.stderr)
                _explain(sc, t, 0, 4)
            return None       # the light facts are contradictory: leave it to the ordinary path (infeasible path)
        r = _holds(rel, I)
        if r is not None:
            STATS['decided'] += 1
        elif _DEBUG:
            import sys
            print('SIGNS-OPEN', rel, I, 'budget', sc.budget, file=sys.stderr)
            _explain(sc, t, 0)
        return r
    except (z3.Z3Exception, RecursionError):
        return None
