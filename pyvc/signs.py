"""Sign lemmas by structural decomposition.

The nonlinear definedness questions of the numeric kernels ("can this denominator be zero?", "can the base of this
real power be negative?", "is this index non-negative?") are sign questions about products, quotients and powers of
sub-terms whose own signs follow from the stated preconditions.  z3's incremental core routinely gives up on them when
the whole path condition (nested If / pow / interp terms) is in the query, although every single step is trivial.

``signs_of(ctx, t)`` derives the set of signs {-1, 0, +1} a real / integer term can take under the current path
condition:

* leaves (constants, array reads, uninterpreted applications without a rule) and small composite terms are settled by
  the path's *light* solver (the small conjuncts of the path condition): one query per excluded sign;
* composite terms combine the signs of their arguments by the sign rules of +, -, *, /, If and of the axiomatised
  transcendentals (exp > 0; pow(a, b) > 0 for a > 0, pow(0, b) = 0 for b > 0; sqrt >= 0, sqrt(x) > 0 for x > 0 -- the same
  instances `pyvc.models.mathfn` adds to the path condition and the evidence lists as trusted);
* If(c, x, y): the light solver settles c, or the two branches are analysed under c / not c.

Every result is a consequence of the path condition (each leaf fact is an `unsat` answer of z3, each rule is valid over the
reals), so a branch it excludes is infeasible and a goal it establishes is proved; the evidence reports such obligations
under the back end ``z3-sign-lemmas``.  What it cannot settle is left to the ordinary back ends.
"""
from __future__ import annotations

import z3

ALL = frozenset((-1, 0, 1))
POS = frozenset((1,))
NEG = frozenset((-1,))
ZERO = frozenset((0,))
NONNEG = frozenset((0, 1))
NONPOS = frozenset((-1, 0))

STATS = dict(queries=0, decided=0)


def _add2(a, b):
    if a == 0:
        return {b}
    if b == 0:
        return {a}
    if a == b:
        return {a}
    return {-1, 0, 1}


def s_add(A, B):
    out = set()
    for a in A:
        for b in B:
            out |= _add2(a, b)
    return frozenset(out)


def s_neg(A):
    return frozenset(-a for a in A)


def s_mul(A, B):
    return frozenset(a * b for a in A for b in B)


def s_div(A, B):
    if 0 in B:
        return ALL          # x / 0 is unspecified in SMT-LIB (and undefined in Python): say nothing
    return frozenset(a * b for a in A for b in B)


class SignCtx:
    def __init__(self, ctx):
        self.ctx = ctx
        self.cache = {}
        self.budget = 400      # light-solver queries per top-level question

    # -- leaf queries --------------------------------------------------------------------------------
    def _excluded(self, cond):
        """True iff the small facts (plus the pushed branch conditions) exclude cond."""
        if self.budget <= 0:
            return False
        self.budget -= 1
        STATS['queries'] += 1
        light = self.ctx.light
        try:
            light.push()
            light.add(cond)
            r = light.check()
            light.pop()
            return r == z3.unsat
        except z3.Z3Exception:
            try:
                light.pop()
            except z3.Z3Exception:
                pass
            return False

    def query(self, t, among=ALL):
        zero = z3.RealVal(0) if t.sort().kind() == z3.Z3_REAL_SORT else z3.IntVal(0)
        out = set(among)
        if 1 in out and self._excluded(t > zero):
            out.discard(1)
        if -1 in out and self._excluded(t < zero):
            out.discard(-1)
        if 0 in out and len(out) > 1 and self._excluded(t == zero):
            out.discard(0)
        return frozenset(out)

    # -- structure -----------------------------------------------------------------------------------
    def signs(self, t, depth=0):
        key = t.get_id()
        hit = self.cache.get(key)
        if hit is not None:
            return hit[1]
        r = self._signs(t, depth)
        if r != ALL:
            self.cache[key] = (t, r)       # the term is kept alive with its entry: z3 reuses the ids of collected terms
        return r

    def _signs(self, t, depth):
        if z3.is_rational_value(t) or z3.is_int_value(t):
            n = t.numerator_as_long() if z3.is_rational_value(t) else t.as_long()
            return POS if n > 0 else NEG if n < 0 else ZERO
        if depth > 60 or not z3.is_app(t):
            return ALL
        k = t.decl().kind()
        ch = t.children()
        res = ALL
        if k == z3.Z3_OP_ADD:
            res = ZERO
            for c in ch:
                res = s_add(res, self.signs(c, depth + 1))
                if res == ALL:
                    break
        elif k == z3.Z3_OP_SUB and len(ch) >= 2:
            res = self.signs(ch[0], depth + 1)
            for c in ch[1:]:
                res = s_add(res, s_neg(self.signs(c, depth + 1)))
                if res == ALL:
                    break
        elif k == z3.Z3_OP_UMINUS:
            res = s_neg(self.signs(ch[0], depth + 1))
        elif k == z3.Z3_OP_MUL:
            res = POS
            for c in ch:
                res = s_mul(res, self.signs(c, depth + 1))
                if res == ZERO:
                    break
        elif k in (z3.Z3_OP_DIV,) and len(ch) == 2:
            res = s_div(self.signs(ch[0], depth + 1), self.signs(ch[1], depth + 1))
        elif k == z3.Z3_OP_TO_REAL:
            res = self.signs(ch[0], depth + 1)
        elif k == z3.Z3_OP_ITE:
            res = self._ite(ch, depth)
        elif k == z3.Z3_OP_UNINTERPRETED and ch:
            name = t.decl().name()
            if name == 'exp_':
                res = POS
            elif name == 'pow_':
                A = self.signs(ch[0], depth + 1)
                if A == POS:
                    res = POS
                elif A <= NONNEG and self.signs(ch[1], depth + 1) == POS:
                    res = A
            elif name == 'sqrt_':
                A = self.signs(ch[0], depth + 1)
                if A <= NONNEG:
                    res = A
        if len(res) > 1:
            # whatever the rules leave open may still follow from the small facts directly (e.g. pr - 1 > 0 from pr > 1)
            from .core import _small
            if _small(t, 6) or k in (z3.Z3_OP_UNINTERPRETED, z3.Z3_OP_SELECT) or not ch:
                res = self.query(t, res)
        return res

    def _ite(self, ch, depth):
        c, x, y = ch
        from .core import _small
        small = _small(c, 9)
        if small:
            if self._excluded(z3.Not(c)):
                return self.signs(x, depth + 1)
            if self._excluded(c):
                return self.signs(y, depth + 1)
        out = set()
        for cond, br in ((c, x), (z3.Not(c), y)):
            light = self.ctx.light
            saved = self.cache
            self.cache = dict(saved) if small else saved
            light.push()
            try:
                if small:
                    light.add(cond)
                out |= self.signs(br, depth + 1)
            finally:
                light.pop()
                self.cache = saved
            if len(out) == 3:
                break
        return frozenset(out)


_CMP = {z3.Z3_OP_LE: 'le', z3.Z3_OP_LT: 'lt', z3.Z3_OP_GE: 'ge', z3.Z3_OP_GT: 'gt', z3.Z3_OP_EQ: 'eq', z3.Z3_OP_DISTINCT: 'ne'}
_NEGATED = dict(le='gt', lt='ge', ge='lt', gt='le', eq='ne', ne='eq')
_HOLDS = dict(le=NONPOS, lt=NEG, ge=NONNEG, gt=POS, eq=ZERO, ne=frozenset((-1, 1)))


def _atom(cond):
    """cond as (relation, term) meaning  term <relation> 0, or None."""
    neg = False
    while z3.is_not(cond):
        cond = cond.arg(0)
        neg = not neg
    if not z3.is_app(cond):
        return None
    rel = _CMP.get(cond.decl().kind())
    if rel is None or cond.num_args() != 2:
        return None
    a, b = cond.arg(0), cond.arg(1)
    if not (z3.is_arith(a) and z3.is_arith(b)):
        return None
    if neg:
        rel = _NEGATED[rel]
    zb = (z3.is_rational_value(b) or z3.is_int_value(b)) and z3.simplify(b == 0).eq(z3.BoolVal(True))
    za = (z3.is_rational_value(a) or z3.is_int_value(a)) and z3.simplify(a == 0).eq(z3.BoolVal(True))
    if zb:
        return rel, a
    if za:
        flip = dict(le='ge', lt='gt', ge='le', gt='lt', eq='eq', ne='ne')
        return flip[rel], b
    if a.sort() != b.sort():
        a = z3.ToReal(a) if a.is_int() else a
        b = z3.ToReal(b) if b.is_int() else b
    return rel, a - b


def sign_decides(ctx, cond):
    """True / False if the sign lemmas settle the comparison ``cond`` under ctx's path condition, else None."""
    try:
        if z3.is_and(cond):
            rs = [sign_decides(ctx, c) for c in cond.children()]
            if any(r is False for r in rs):
                return False
            return True if all(r is True for r in rs) else None
        at = _atom(cond)
        if at is None:
            return None
        rel, t = at
        sc = getattr(ctx, '_signctx', None)
        if sc is None or ctx.pure_depth:
            sc = SignCtx(ctx)
            if not ctx.pure_depth:
                ctx._signctx = sc
        sc.budget = 400
        s = sc.signs(t)
        if s == ALL:
            return None
        if not s:
            return None       # the light facts are contradictory: leave it to the ordinary path (infeasible path)
        if s <= _HOLDS[rel]:
            STATS['decided'] += 1
            return True
        if not (s & _HOLDS[rel]):
            STATS['decided'] += 1
            return False
        return None
    except z3.Z3Exception:
        return None
