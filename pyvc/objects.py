"""Object model: attribute access, subscripts, iteration, calls, classes (mixin of Interp)."""
from __future__ import annotations

import ast
from fractions import Fraction

import z3

from .core import Impure
from .rt import MISSING, ClassInfo, Frame, NotImplementedVal, _Return
from .source import FuncInfo, Unsupported
from .values import (BUILTIN_EXCS, BoundMethod, Builtin, ClassMethodVal, EnumMember, ExcClass,
                     ExcInstance, Ext, FStr, Model, NPStr, Obj, PropertyVal, PyExc,
                     StaticMethodVal, SymEnum, UnionType, is_sym, to_z3)

MUTATING = {'append', 'extend', 'insert', 'remove', 'pop', 'clear', 'sort', 'reverse', 'update',
            'add', 'discard', 'setdefault', 'popitem', 'difference_update', 'intersection_update'}


class SuperVal:
    def __init__(self, obj, after_cls):
        self.obj = obj
        self.after = after_cls


class ObjMixin:
    # ---------------------------------------------------------------------- attributes
    def getattr(self, obj, name, node=None, fr=None, default=MISSING):
        from .stmts import ModuleRef
        try:
            return self._getattr(obj, name)
        except PyExc as e:
            if default is not MISSING and e.cls.issub(BUILTIN_EXCS['AttributeError']):
                return default
            raise

    def ext_method(self, obj, name):
        """Method inherited from an external base class, by its library model."""
        cls = obj.cls if isinstance(obj, Obj) else None
        if cls is None:
            return None
        for b in cls.ext_bases():
            key = f'method:{b.name}.{name}'
            if key in self.models:
                fn = self.models[key]
                return Builtin(key, lambda *a, _fn=fn, **k: _fn(self, obj, *a, **k), pure=False)
        return None

    def special(self, obj, name):
        """Special-method lookup on an Obj: the repo class first, then external bases' models."""
        m, _ = obj.cls.lookup(name)
        if m is not None:
            return BoundMethod(obj, m)
        return self.ext_method(obj, name)

    def attr_error(self, obj, name):
        if isinstance(obj, Obj) and obj.attrs.get('__partial__'):
            raise Unsupported(f"attribute '{name}' of {obj.cls.name} is not described by the contract's representation "
                              'invariant (the class changed shape)')
        tn = obj.cls.name if isinstance(obj, (Obj,)) else type(obj).__name__
        self.raise_('AttributeError', f"'{tn}' object has no attribute '{name}'")

    def _getattr(self, obj, name):
        from .stmts import ModuleRef
        if isinstance(obj, Obj):
            return self.obj_getattr(obj, name)
        if isinstance(obj, ModuleRef):
            if obj.mod.binds(name) or name in self.module_globals(obj.mod):
                return self.module_get(obj.mod, name)
            sub = obj.mod.name + '.' + name
            if self.repo.has_module(sub):
                return ModuleRef(self.repo.module(sub))
            self.raise_('AttributeError', f'module {obj.mod.name} has no attribute {name}')
        if isinstance(obj, ClassInfo):
            return self.class_getattr(obj, name)
        if isinstance(obj, Ext):
            full = obj.name + '.' + name
            if ('const:' + full) in self.models:
                v = self.models['const:' + full]
                return v(self) if callable(v) else v
            return Ext(full)
        if isinstance(obj, Model):
            return obj.py_getattr(self, name)
        if isinstance(obj, EnumMember):
            if name == 'name':
                return obj.name
            if name == 'value':
                return obj.value
            if name in obj.attrs:
                return obj.attrs[name]
            v, owner = obj.cls.lookup(name)
            if v is not None:
                return self.bind_class_attr(obj, v, obj.cls)
            if obj.kind == 'str' and hasattr(str, name):
                return Builtin('str.' + name, lambda *a, _s=obj.value, _n=name, **k: getattr(_s, _n)(*a, **k))
            self.attr_error(obj, name)
        if isinstance(obj, SymEnum):
            if obj.np_str:
                # numpy.str_: str methods exist, enum-member attributes do not
                if hasattr(str, name):
                    return self._getattr(NPStr(self.split_enum(obj)), name)
                self.raise_('AttributeError', f"'numpy.str_' object has no attribute '{name}'")
            # an attribute with a numeric value for every member becomes an if-chain over the ordinal
            from .values import is_num
            try:
                vals = [self._getattr(m, name) for m in obj.cls.members]
            except PyExc:
                vals = None
            if vals is not None and all(is_num(v) for v in vals):
                from .models.arrays import _ite
                r = vals[-1]
                for m, v in reversed(list(zip(obj.cls.members[:-1], vals[:-1]))):
                    r = _ite(obj.ord == m.index, v, r)
                return r
            return self._getattr(self.split_enum(obj), name)
        if isinstance(obj, SuperVal):
            return self.super_getattr(obj, name)
        if isinstance(obj, ExcInstance):
            if name == 'args':
                return obj.args
            if name in obj.attrs:
                return obj.attrs[name]
            if obj.cls.cinfo is not None:
                v, _ = obj.cls.cinfo.lookup(name)
                if v is not None:
                    return self.bind_class_attr(obj, v, obj.cls.cinfo)
            self.attr_error(obj, name)
        if isinstance(obj, ExcClass):
            if name == '__name__':
                return obj.name
            if obj.cinfo is not None:
                return self.class_getattr(obj.cinfo, name)
            self.attr_error(obj, name)
        if isinstance(obj, FuncInfo):
            if name == '__name__':
                return obj.name
            if name == 'cache_clear':
                return Builtin('cache_clear', lambda: None)
            self.attr_error(obj, name)
        if isinstance(obj, BoundMethod):
            if name == '__func__':
                return obj.func
            if name == '__self__':
                return obj.self_val
            self.attr_error(obj, name)
        if isinstance(obj, NPStr):
            # numpy.str_ is a str: str methods exist, enum-member attributes do not
            if hasattr(str, name):
                return Builtin('str.' + name, lambda *a, _s=obj.s, _n=name, **k: getattr(_s, _n)(*a, **k))
            self.raise_('AttributeError', f"'numpy.str_' object has no attribute '{name}'")
        if is_sym(obj):
            if name in ('real',):
                return obj
            if name == 'copy':
                return Builtin('copy', lambda: obj)
            if name == 'values':
                return obj
            raise Unsupported(f'attribute {name} on symbolic scalar')
        # concrete python values
        return self.builtin_getattr(obj, name)

    def builtin_getattr(self, obj, name):
        from . import builtins_ as b
        return b.value_getattr(self, obj, name)

    def obj_getattr(self, obj: Obj, name):
        if name == '__class__':
            return obj.cls
        if name == '__dict__':
            return obj.attrs
        v, owner = obj.cls.lookup(name)
        if isinstance(v, PropertyVal):
            if v.cached and name in obj.attrs:
                return obj.attrs[name]
            r = self.call(BoundMethod(obj, v.fget), [], {})
            if v.cached:
                obj.attrs[name] = r
            return r
        if name in obj.attrs:
            return obj.attrs[name]
        hk = self.hooks.get('class_attr_get')
        if hk is not None and owner is not None:
            r = hk(self, owner, name)
            if r is not MISSING:
                return r
        if v is not None or owner is not None:
            return self.bind_class_attr(obj, v, obj.cls)
        hook = self.hooks.get('obj_getattr')
        if hook is not None:
            r = hook(self, obj, name)
            if r is not MISSING:
                return r
        if name == '__getattribute__':
            return Builtin('__getattribute__', lambda n, _o=obj: self.raw_getattribute(_o, n))
        if name == '__setattr__':
            return Builtin('__setattr__', lambda n, v_, _o=obj: self.raw_setattr(_o, n, v_), pure=False)
        em = self.ext_method(obj, name)
        if em is not None:
            return em
        ga, _ = obj.cls.lookup('__getattr__')
        if ga is not None and name != '__getattr__':
            return self.call(BoundMethod(obj, ga), [name], {})
        self.attr_error(obj, name)

    def raw_getattribute(self, obj, name):
        """object.__getattribute__: normal lookup without the __getattr__ fallback."""
        v, owner = obj.cls.lookup(name)
        if isinstance(v, PropertyVal):
            return self.call(BoundMethod(obj, v.fget), [], {})
        if name in obj.attrs:
            return obj.attrs[name]
        if v is not None:
            return self.bind_class_attr(obj, v, obj.cls)
        self.attr_error(obj, name)

    def bind_class_attr(self, inst, v, cls):
        if isinstance(v, FuncInfo):
            return BoundMethod(inst, v)
        if isinstance(v, ClassMethodVal):
            return BoundMethod(cls, v.func)
        if isinstance(v, StaticMethodVal):
            return v.func
        if isinstance(v, PropertyVal):
            return self.call(BoundMethod(inst, v.fget), [], {})
        return v

    def class_getattr(self, cls: ClassInfo, name):
        if name == '__name__':
            return cls.name
        if name == '__qualname__':
            return cls.qualname
        if name == '__members__' and cls.enum_kind:
            return {m.name: m for m in cls.members}
        hk = self.hooks.get('class_attr_get')
        if hk is not None:
            r = hk(self, cls, name)
            if r is not MISSING:
                return r
        v, owner = cls.lookup(name)
        if v is not None or owner is not None:
            if isinstance(v, ClassMethodVal):
                return BoundMethod(cls, v.func)
            if isinstance(v, StaticMethodVal):
                return v.func
            return v
        if name in cls.all_fields() and False:
            pass
        for b in cls.ext_bases():
            key = 'classattr:' + b.name + '.' + name
            if key in self.models:
                return self.models[key](self, cls)
        if cls.is_exception is not None and name in ('__init__',):
            return Builtin('exc_init', lambda *a, **k: None)
        self.raise_('AttributeError', f"type object '{cls.name}' has no attribute '{name}'")

    def setattr(self, obj, name, val):
        self.effect()
        if isinstance(obj, Obj):
            v, _ = obj.cls.lookup(name)
            if isinstance(v, PropertyVal):
                if v.fset is None:
                    if v.cached:
                        obj.attrs[name] = val
                        return
                    self.raise_('AttributeError', f"property '{name}' has no setter")
                return self.call(BoundMethod(obj, v.fset), [val], {})
            sa, owner = obj.cls.lookup('__setattr__')
            if sa is not None:
                return self.call(BoundMethod(obj, sa), [name, val], {})
            chk = self.hooks.get('setattr_check')
            if chk is not None:
                chk(self, obj, name, val)
            return self.raw_setattr(obj, name, val)
        if isinstance(obj, ClassInfo):
            hk = self.hooks.get('class_attr_set')
            if hk is not None and hk(self, obj, name, val):
                return
            obj.attrs[name] = val
            return
        if isinstance(obj, Model):
            return obj.py_setattr(self, name, val)
        if isinstance(obj, SuperVal):
            return self.raw_setattr(obj.obj, name, val)
        if isinstance(obj, ExcInstance):
            obj.attrs[name] = val
            return
        from .stmts import ModuleRef
        if isinstance(obj, ModuleRef):
            self.module_globals(obj.mod)[name] = val
            return
        if isinstance(obj, FuncInfo):
            return
        self.raise_('AttributeError', f'cannot set attribute {name} on {type(obj).__name__}')

    def raw_setattr(self, obj: Obj, name, val):
        """object.__setattr__ (dataclass frozen / pydantic frozen enforced here)."""
        self.effect()
        if obj.cls.dataclass is not None and obj.cls.dataclass.get('frozen') and not obj.attrs.get('__constructing__'):
            raise PyExc(self.mk_exc(self.frozen_exc(), f"cannot assign to field '{name}'"))
        hook = self.hooks.get('raw_setattr')
        if hook is not None and hook(self, obj, name, val):
            return
        obj.attrs[name] = val

    def frozen_exc(self):
        if 'FrozenInstanceError' not in BUILTIN_EXCS:
            BUILTIN_EXCS['FrozenInstanceError'] = ExcClass('FrozenInstanceError', [BUILTIN_EXCS['AttributeError']])
        return BUILTIN_EXCS['FrozenInstanceError']

    def delattr(self, obj, name):
        self.effect()
        if isinstance(obj, Obj):
            da, _ = obj.cls.lookup('__delattr__')
            if da is not None:
                return self.call(BoundMethod(obj, da), [name], {})
            if name in obj.attrs:
                del obj.attrs[name]
                return
            self.attr_error(obj, name)
        if isinstance(obj, Model) and hasattr(obj, 'py_delattr'):
            return obj.py_delattr(self, name)
        raise Unsupported(f'del attribute on {type(obj).__name__}')

    def hasattr(self, obj, name):
        try:
            self._getattr(obj, name)
            return True
        except PyExc as e:
            if e.cls.issub(BUILTIN_EXCS['AttributeError']):
                return False
            raise

    def super_getattr(self, sv: SuperVal, name):
        obj = sv.obj
        cls = obj.cls if isinstance(obj, Obj) else (obj if isinstance(obj, ClassInfo) else obj.cls)
        mro = cls.mro()
        i = mro.index(sv.after) if sv.after in mro else -1
        for c in mro[i + 1:]:
            if name == '__init__' and name not in c.attrs and c.dataclass is not None and isinstance(obj, Obj):
                # the __init__ generated by @dataclass for this base
                return Builtin(c.name + '.__init__', lambda *a, _c=c, **k: self.dataclass_init(obj, _c, list(a), k), pure=False)
            if name in c.attrs:
                v = c.attrs[name]
                if isinstance(v, FuncInfo):
                    return BoundMethod(obj, v)
                if isinstance(v, ClassMethodVal):
                    return BoundMethod(cls, v.func)
                if isinstance(v, StaticMethodVal):
                    return v.func
                if isinstance(v, PropertyVal):
                    return self.call(BoundMethod(obj, v.fget), [], {})
                return v
        # fall through to external bases / object
        for c in mro[max(i, 0):]:
            for b in c.bases:
                if isinstance(b, Ext):
                    key = 'super:' + b.name + '.' + name
                    if key in self.models:
                        return Builtin(key, lambda *a, _k=key, **k: self.models[_k](self, obj, *a, **k), pure=False)
        if name == '__init__':
            return Builtin('object.__init__', lambda *a, **k: None)
        if name == '__setattr__':
            return Builtin('object.__setattr__', lambda n, v: self.raw_setattr(obj, n, v), pure=False)
        if name == '__getattribute__':
            return Builtin('object.__getattribute__', lambda n: self.raw_getattribute(obj, n))
        if name == '__init_subclass__':
            return Builtin('object.__init_subclass__', lambda *a, **k: None)
        self.raise_('AttributeError', f"'super' object has no attribute '{name}'")

    def make_super(self, fr):
        f = fr
        while f is not None and (f.func is None or f.func.cls is None):
            f = f.closure
        if f is None:
            raise Unsupported('super() outside a method')
        fn = f.func
        first = fn.node.args.args[0].arg if fn.node.args.args else None
        selfv = f.locals.get(first)
        return SuperVal(selfv, fn.cls)

    # ---------------------------------------------------------------------- subscripts
    def getitem(self, obj, idx, node=None):
        from .models.arrays import SArr
        if isinstance(obj, Obj):
            m = self.special(obj, '__getitem__')
            if m is None:
                if obj.cls.lookup('__class_getitem__')[0] is not None:
                    return obj
                self.raise_('TypeError', f"'{obj.cls.name}' object is not subscriptable")
            return self.call(m, [idx], {})
        if isinstance(obj, Model):
            return obj.py_getitem(self, idx)
        if isinstance(obj, ClassInfo):
            if obj.enum_kind:
                for mem in obj.members:
                    if mem.name == idx:
                        return mem
                self.raise_('KeyError', idx)
            return obj   # generic alias  SpeciesValues[ThrustModeValues]
        if isinstance(obj, (Ext, Builtin, UnionType)):
            return obj   # typing generics: list[int], dict[str, Any]
        if isinstance(obj, (list, tuple, str, range)):
            if isinstance(idx, slice):
                if any(is_sym(x) for x in (idx.start, idx.stop, idx.step)):
                    if isinstance(obj, (list, tuple)):
                        return SArr.from_list(list(obj), kind='list').py_getitem(self, idx)
                    raise Unsupported('symbolic slice of concrete sequence')
                return obj[idx]
            if isinstance(idx, EnumMember) and idx.kind == 'int':
                idx = idx.value
            if is_sym(idx):
                i2 = z3.simplify(idx)
                if z3.is_int_value(i2):
                    idx = i2.as_long()
                else:
                    if isinstance(obj, (list, tuple)):
                        from .values import is_num
                        if all(is_num(x) or isinstance(x, (bool, z3.BoolRef)) for x in obj):
                            return SArr.from_list(list(obj), kind='list').py_getitem(self, idx)
                        return self.fork_index(obj, idx)
                    raise Unsupported('symbolic index into concrete sequence')
            if isinstance(idx, bool):
                idx = int(idx)
            if not isinstance(idx, int):
                self.raise_('TypeError', f'indices must be integers, not {type(idx).__name__}')
            try:
                return obj[idx]
            except IndexError:
                self.raise_('IndexError', 'index out of range')
        if isinstance(obj, dict):
            if isinstance(idx, SymEnum):
                r = self.dict_get_symenum(obj, idx)
                if r is not MISSING:
                    return r
            k = self.hashable(idx)
            try:
                if k in obj:
                    return obj[k]
            except TypeError:
                self.raise_('TypeError', 'unhashable type')
            self.raise_('KeyError', k)
        if obj is None:
            self.raise_('TypeError', "'NoneType' object is not subscriptable")
        if isinstance(obj, (EnumMember, int, Fraction, bool)) or is_sym(obj):
            self.raise_('TypeError', f"'{type(obj).__name__}' object is not subscriptable")
        raise Unsupported(f'subscript on {type(obj).__name__}')

    def fork_index(self, seq, idx):
        """seq[idx] for a concrete sequence of non-mergeable elements and a symbolic index: one path
        per feasible position (python negative indices included), plus the IndexError path."""
        n = len(seq)
        alts = list(range(-n, n)) + ['out']

        def cond(a):
            if a == 'out':
                return z3.Or(idx >= n, idx < -n)
            return idx == a
        c = self.ctx.choose(len(alts), lambda i: self.ctx.feasible(cond(alts[i])))
        self.ctx.assume(cond(alts[c]))
        if alts[c] == 'out':
            self.raise_('IndexError', 'index out of range')
        return seq[alts[c]]

    def dict_get_symenum(self, d, key):
        """d[key] for a symbolic enum key: an if-chain over the members (KeyError path if some member is
        not a key and that is feasible)."""
        from .values import is_num
        vals, missing = {}, []
        for m in key.cls.members:
            hit = None
            for k in d:
                if (k is m) or (isinstance(k, EnumMember) and k == m) or (isinstance(k, str) and m.kind == 'str' and k == m.value):
                    hit = d[k]
                    break
                if isinstance(k, NPStr) and m.kind == 'str' and k.s == m.value:
                    hit = d[k]
                    break
            if hit is None and not any((k is m) for k in d):
                missing.append(m)
            else:
                vals[m.index] = hit
        if not all(is_num(v) or isinstance(v, (bool, z3.BoolRef)) for v in vals.values()):
            return MISSING
        if missing:
            bad = z3.Or(*[key.ord == m.index for m in missing])
            if self.ctx.branch(bad):
                self.raise_('KeyError', key)
        items = sorted(vals.items())
        if not items:
            self.raise_('KeyError', key)
        from .models.arrays import _ite
        r = items[-1][1]
        for i, v in reversed(items[:-1]):
            r = _ite(key.ord == i, v, r)
        return r

    def setitem(self, obj, idx, val):
        self.effect()
        if isinstance(obj, Obj):
            m = self.special(obj, '__setitem__')
            if m is None:
                self.raise_('TypeError', f"'{obj.cls.name}' object does not support item assignment")
            return self.call(m, [idx, val], {})
        if isinstance(obj, Model):
            return obj.py_setitem(self, idx, val)
        if isinstance(obj, list):
            if isinstance(idx, slice):
                obj[idx] = self.iterate(val)
                return
            if is_sym(idx):
                idx = self.hashable(idx)
            try:
                obj[idx] = val
            except IndexError:
                self.raise_('IndexError', 'list assignment index out of range')
            return
        if isinstance(obj, dict):
            obj[self.hashable(idx)] = val
            return
        if isinstance(obj, tuple):
            self.raise_('TypeError', "'tuple' object does not support item assignment")
        raise Unsupported(f'item assignment on {type(obj).__name__}')

    def delitem(self, obj, idx):
        self.effect()
        if isinstance(obj, dict):
            k = self.hashable(idx)
            if k not in obj:
                self.raise_('KeyError', k)
            del obj[k]
            return
        if isinstance(obj, list):
            del obj[idx]
            return
        if isinstance(obj, Obj):
            m, _ = obj.cls.lookup('__delitem__')
            if m is not None:
                return self.call(BoundMethod(obj, m), [idx], {})
        if isinstance(obj, Model) and hasattr(obj, 'py_delitem'):
            return obj.py_delitem(self, idx)
        raise Unsupported(f'del item on {type(obj).__name__}')

    # ---------------------------------------------------------------------- iteration
    def iterate(self, v, loop=None):
        """Concrete list of the items of an iterable (finite, concrete length)."""
        from .models.arrays import SArr
        from . import builtins_ as b
        if isinstance(v, (list, tuple)):
            return list(v)
        if isinstance(v, dict):
            return list(v.keys())
        if isinstance(v, (set, frozenset)):
            try:
                return sorted(v, key=b.sort_key)
            except TypeError:
                return list(v)
        if isinstance(v, range):
            return list(v)
        if isinstance(v, str):
            return list(v)
        if isinstance(v, b.DictView):
            return v.items()
        if isinstance(v, b.PyIterator):
            return v.rest()
        if isinstance(v, ClassInfo) and v.enum_kind:
            return list(v.members)
        if isinstance(v, SArr):
            if isinstance(v.length, int):
                return [v.at(i) for i in range(v.length)]
            n = z3.simplify(v.length)
            if z3.is_int_value(n):
                return [v.at(i) for i in range(n.as_long())]
            raise Unsupported('iteration over a sequence of symbolic length needs an invariant'
                              + (f' at {loop[1].module.path}:{loop[0].lineno}' if loop else ''))
        if isinstance(v, Model):
            if hasattr(v, 'py_iter'):
                return list(v.py_iter(self))
            raise Unsupported(f'iteration over {type(v).__name__}')
        if isinstance(v, Obj):
            m = self.special(v, '__iter__')
            if m is not None:
                it = self.call(m, [], {})
                if isinstance(it, Obj):
                    nxt, _ = it.cls.lookup('__next__')
                    out = []
                    while True:
                        try:
                            out.append(self.call(BoundMethod(it, nxt), [], {}))
                        except PyExc as e:
                            if e.cls.issub(BUILTIN_EXCS['StopIteration']):
                                break
                            raise
                        if len(out) > 10000:
                            raise Unsupported('unbounded iterator')
                    return out
                return self.iterate(it)
            m, _ = v.cls.lookup('__getitem__')
            if m is not None:
                out = []
                i = 0
                while True:
                    try:
                        out.append(self.call(BoundMethod(v, m), [i], {}))
                    except PyExc as e:
                        if e.cls.issub(BUILTIN_EXCS['IndexError']):
                            break
                        raise
                    i += 1
                    if i > 10000:
                        raise Unsupported('unbounded __getitem__ iteration')
                return out
            self.raise_('TypeError', f"'{v.cls.name}' object is not iterable")
        if v is None:
            self.raise_('TypeError', "'NoneType' object is not iterable")
        if is_sym(v) or isinstance(v, (int, Fraction)):
            self.raise_('TypeError', 'object is not iterable')
        raise Unsupported(f'iteration over {type(v).__name__}')

    def len_(self, v):
        from .models.arrays import SArr
        from . import builtins_ as b
        if isinstance(v, (list, tuple, dict, set, frozenset, str, range)):
            return len(v)
        if isinstance(v, SArr):
            return v.length
        if isinstance(v, b.DictView):
            return len(v.items())
        if isinstance(v, Model):
            if hasattr(v, 'py_len'):
                return v.py_len(self)
            raise Unsupported(f'len of {type(v).__name__}')
        if isinstance(v, Obj):
            m = self.special(v, '__len__')
            if m is not None:
                return self.call(m, [], {})
            self.raise_('TypeError', f"object of type '{v.cls.name}' has no len()")
        if isinstance(v, ClassInfo) and v.enum_kind:
            return len(v.members)
        self.raise_('TypeError', f"object of type '{type(v).__name__}' has no len()")

    # ---------------------------------------------------------------------- isinstance
    def isinstance_(self, v, t):
        from .models.arrays import SArr
        if isinstance(t, tuple):
            return any(self.isinstance_(v, x) for x in t)
        if isinstance(t, UnionType):
            return any(self.isinstance_(v, x) for x in t.alts)
        if t is None:
            return v is None
        if isinstance(t, ClassInfo):
            if isinstance(v, Obj):
                if v.cls.issub(t):
                    return True
                hook = self.hooks.get('protocol')
                if hook is not None:
                    return hook(self, v, t)
                return False
            if isinstance(v, EnumMember):
                return v.cls.issub(t)
            if isinstance(v, SymEnum):
                return v.cls.issub(t)
            if isinstance(v, ExcInstance):
                return t.is_exception is not None and v.cls.issub(t.is_exception)
            if isinstance(v, Model):
                return t.qualname in getattr(v, 'type_names', ())
            return False
        if isinstance(t, ExcClass):
            return isinstance(v, ExcInstance) and v.cls.issub(t)
        if isinstance(t, Builtin):
            n = t.name
            if n == 'int':
                return (isinstance(v, int) or (isinstance(v, z3.ArithRef) and v.is_int()) or
                        isinstance(v, z3.BoolRef) or (isinstance(v, EnumMember) and v.kind == 'int'))
            if n == 'float':
                return isinstance(v, Fraction) or (isinstance(v, z3.ArithRef) and v.is_real()) or isinstance(v, float)
            if n == 'bool':
                return isinstance(v, (bool, z3.BoolRef))
            if n == 'str':
                return isinstance(v, (str, FStr, NPStr)) or (isinstance(v, EnumMember) and v.kind == 'str') or \
                    (isinstance(v, Model) and 'str' in getattr(v, 'type_names', ()))
            if n == 'list':
                return isinstance(v, list) or (isinstance(v, SArr) and v.kind == 'list')
            if n == 'tuple':
                return isinstance(v, tuple)
            if n == 'dict':
                return isinstance(v, dict)
            if n == 'set':
                return isinstance(v, set)
            if n == 'frozenset':
                return isinstance(v, frozenset)
            if n == 'bytes':
                return isinstance(v, bytes)
            if n == 'object':
                return True
            if n == 'type':
                return isinstance(v, (ClassInfo, ExcClass))
            if n == 'complex':
                return False
            raise Unsupported(f'isinstance(_, {n})')
        if isinstance(t, Ext):
            n = t.name
            if isinstance(v, Model) and n in getattr(v, 'type_names', ()):
                return True
            if n in ('numpy.ndarray',):
                return isinstance(v, SArr) and v.kind == 'ndarray'
            if n in ('numpy.floating', 'numpy.float64', 'numpy.float32', 'numpy.number'):
                return isinstance(v, z3.ArithRef) and v.is_real() and getattr(v, 'np_scalar', False)
            if n in ('numpy.integer', 'numpy.int64', 'numpy.int32'):
                return False
            if n in ('numbers.Number', 'numbers.Real'):
                return isinstance(v, (int, Fraction)) or isinstance(v, z3.ArithRef)
            if n in ('collections.abc.Mapping', 'typing.Mapping'):
                return isinstance(v, dict) or (isinstance(v, Obj) and any(b.name == 'collections.abc.Mapping' for b in v.cls.ext_bases()))
            if n in ('collections.abc.Sequence', 'collections.abc.Iterable'):
                return isinstance(v, (list, tuple, SArr))
            if n == 'typing.Any':
                return True
            if isinstance(v, Model):
                return False
            if n in self.models.get('types:known', ()):
                return False
            if isinstance(v, (int, Fraction, str, bool, list, tuple, dict, set, Obj, EnumMember)) or v is None or is_sym(v):
                return False
            raise Unsupported(f'isinstance(_, {n})')
        raise Unsupported(f'isinstance second argument {t!r}')

    # ---------------------------------------------------------------------- calls
    def call(self, fn, args, kwargs, node=None, fr=None):
        if isinstance(fn, BoundMethod):
            return self.call(fn.func, [fn.self_val] + list(args), kwargs, node, fr)
        if isinstance(fn, FuncInfo):
            return self.call_function(fn, args, kwargs)
        if isinstance(fn, Builtin):
            if not fn.pure:
                self.effect()
            return fn.fn(*args, **kwargs)
        if isinstance(fn, ClassInfo):
            return self.instantiate(fn, args, kwargs)
        if isinstance(fn, ExcClass):
            return ExcInstance(fn, args)
        if isinstance(fn, Ext):
            m = self.models.get(fn.name)
            if m is None:
                raise Unsupported(f'call of external {fn.name} (no model)')
            return m(self, *args, **kwargs)
        if isinstance(fn, Model):
            if hasattr(fn, 'py_call'):
                return fn.py_call(self, *args, **kwargs)
            raise Unsupported(f'call of {type(fn).__name__}')
        if isinstance(fn, Obj):
            m, _ = fn.cls.lookup('__call__')
            if m is not None:
                return self.call(BoundMethod(fn, m), args, kwargs)
            self.raise_('TypeError', f"'{fn.cls.name}' object is not callable")
        if isinstance(fn, (ClassMethodVal, StaticMethodVal)):
            return self.call(fn.func, args, kwargs)
        if callable(fn) and getattr(fn, '_pyvc_native', False):
            return fn(self, *args, **kwargs)
        if fn is None:
            self.raise_('TypeError', "'NoneType' object is not callable")
        if isinstance(fn, (int, str, Fraction, EnumMember, NPStr)) or is_sym(fn):
            self.raise_('TypeError', f"'{type(fn).__name__}' object is not callable")
        raise Unsupported(f'call of {fn!r}')

    def bind_args(self, fi: FuncInfo, args, kwargs, fr: Frame):
        a = fi.node.args
        params = [p.arg for p in a.posonlyargs + a.args]
        defaults = a.defaults
        nreq = len(params) - len(defaults)
        args = list(args)
        kwargs = dict(kwargs)
        loc = fr.locals
        for i, p in enumerate(params):
            if i < len(args):
                loc[p] = args[i]
                if p in kwargs:
                    self.raise_('TypeError', f"{fi.name}() got multiple values for argument '{p}'")
            elif p in kwargs:
                loc[p] = kwargs.pop(p)
            elif i >= nreq:
                loc[p] = self.eval_default(defaults[i - nreq], fi)
            else:
                self.raise_('TypeError', f"{fi.name}() missing required positional argument: '{p}'")
        extra = args[len(params):]
        if a.vararg:
            loc[a.vararg.arg] = tuple(extra)
        elif extra:
            self.raise_('TypeError', f'{fi.name}() takes {len(params)} positional arguments but {len(args)} were given')
        for p, d in zip(a.kwonlyargs, a.kw_defaults):
            if p.arg in kwargs:
                loc[p.arg] = kwargs.pop(p.arg)
            elif d is not None:
                loc[p.arg] = self.eval_default(d, fi)
            else:
                self.raise_('TypeError', f"{fi.name}() missing required keyword-only argument: '{p.arg}'")
        if a.kwarg:
            loc[a.kwarg.arg] = kwargs
        elif kwargs:
            self.raise_('TypeError', f"{fi.name}() got an unexpected keyword argument '{next(iter(kwargs))}'")

    def eval_default(self, node, fi):
        # defaults are evaluated once at definition time in Python; all defaults in the verified
        # code are immutable literals or constructor calls evaluated in the defining scope.
        cache = self.hooks.setdefault('default_cache', {})
        if id(node) in cache:
            return cache[id(node)]
        fr = Frame(fi.module, {}, closure=fi.closure)
        if fi.cls is not None and fi.closure is None:
            fr = Frame(fi.module, dict(fi.cls.attrs), closure=None)
        v = self.eval(node, fr)
        cache[id(node)] = v
        return v

    def call_function(self, fi: FuncInfo, args, kwargs, force_body=False):
        # (see _memo_key below for memoised functions)
        if not force_body and fi.fq in self.summaries and fi.fq not in self.no_summary:
            self.ctx.summaries_used[fi.fq] = self.ctx.summaries_used.get(fi.fq, 0) + 1
            return self.summaries[fi.fq](self, fi, args, kwargs)
        if isinstance(fi.node, ast.Lambda):
            fr = Frame(fi.module, {}, closure=fi.closure, func=fi)
            self.bind_args(fi, args, kwargs, fr)
            return self.eval(fi.node.body, fr)
        self.depth += 1
        if self.depth > self.max_depth:
            self.depth -= 1
            raise Unsupported(f'call depth exceeded at {fi.fq}')
        self.ctx.functions_entered.setdefault(fi.fq, fi.where)
        cached = getattr(fi, 'cached', False)
        prev_func = self.hooks.get('cur_func')
        self.hooks['cur_func'] = fi.fq
        memo_key = None
        if cached:
            # functools.cache hands out the *same object* for equal arguments: a caller that edits the result in place edits
            # what every later caller gets.  Results are therefore kept per argument tuple (concrete values by value, objects
            # and symbolic terms by identity - equal terms are equal values; unequal terms may still be equal values, in which
            # case the body runs again and yields a fresh object: aliasing is then under-approximated, never invented)
            memo_key = _memo_key(fi.fq, args, kwargs)
            store = self.hooks.setdefault('memo_results', {})
            if memo_key is not None and memo_key in store:
                self.depth -= 1
                self.hooks['cur_func'] = prev_func
                return store[memo_key]
            self.hooks.setdefault('memoised_stack', []).append(fi.fq)
            self.ctx.memoised_entered.add(fi.fq)
        try:
            fr = Frame(fi.module, {}, closure=fi.closure, func=fi)
            self.bind_args(fi, args, kwargs, fr)
            if any(isinstance(n, (ast.Yield, ast.YieldFrom)) for n in ast.walk(fi.node)):
                raise Unsupported(f'generator function {fi.fq}')
            try:
                self.exec_block(fi.node.body, fr)
            except _Return as r:
                if memo_key is not None:
                    self.hooks['memo_results'][memo_key] = r.value
                return r.value
            if memo_key is not None:
                self.hooks['memo_results'][memo_key] = None
            return None
        finally:
            self.depth -= 1
            self.hooks['cur_func'] = prev_func
            if cached:
                self.hooks['memoised_stack'].pop()

    # ---------------------------------------------------------------------- classes
    def instantiate(self, cls: ClassInfo, args, kwargs):
        hook = self.models.get('new:' + cls.fq)
        if hook is not None:
            return hook(self, cls, *args, **kwargs)
        if cls.enum_kind:
            # Enum lookup by value: Species(3), ThrustMode('idle')
            v = args[0]
            if isinstance(v, EnumMember) and v.cls is cls:
                return v
            if isinstance(v, SymEnum) and v.cls is cls:
                return SymEnum(cls, v.ord)          # the member whose value the numpy string holds
            if isinstance(v, NPStr):
                v = v.s
            for m in cls.members:
                if self.compare('==', m.value, v) is True:
                    return m
            miss, _ = cls.lookup('_missing_')
            if miss is not None:
                r = self.call(BoundMethod(cls, miss.func if isinstance(miss, ClassMethodVal) else miss), [v], {})
                if r is not None:
                    return r
            self.raise_('ValueError', FStr([v, f' is not a valid {cls.name}']))
        if cls.is_exception is not None:
            inst = ExcInstance(cls.is_exception, args)
            init, owner = cls.lookup('__init__')
            if init is not None:
                self.call(BoundMethod(inst, init), args, kwargs)
            return inst
        for b in cls.ext_bases():
            h = self.models.get('new-sub:' + b.name)
            if h is not None:
                return h(self, cls, *args, **kwargs)
        obj = Obj(cls)
        new, _ = cls.lookup('__new__')
        if new is not None:
            raise Unsupported(f'__new__ in {cls.qualname}')
        init, owner = cls.lookup('__init__')
        # a @dataclass generates its own __init__: it overrides an __init__ inherited from further up the MRO
        if init is not None and owner is not None:
            for c in cls.mro():
                if c is owner:
                    break
                if c.dataclass is not None and c.dataclass.get('init', True):
                    init = None
                    break
        if init is not None:
            if isinstance(init, Builtin):
                init.fn(obj, *args, **kwargs)
            else:
                self.call(BoundMethod(obj, init), args, kwargs)
            return obj
        if any(c.dataclass is not None for c in cls.mro()):
            self.dataclass_init(obj, cls, args, kwargs)
            return obj
        if args or kwargs:
            known_ext = [b.name for b in cls.ext_bases() if b.name not in ('abc.ABC', 'typing.Protocol', 'typing.Generic')]
            if known_ext:
                raise Unsupported(f'constructor of {cls.qualname} inherited from {known_ext}')
            self.raise_('TypeError', f'{cls.name}() takes no arguments')
        return obj

    def dataclass_init(self, obj: Obj, cls: ClassInfo, args, kwargs):
        fields = cls.all_fields()
        names = list(fields)
        # ClassVar / non-field annotations are skipped
        names = [n for n in names if not self.is_classvar(fields[n].annotations[n])]
        kwargs = dict(kwargs)
        if len(args) > len(names):
            self.raise_('TypeError', f'{cls.name}.__init__() takes {len(names)} positional arguments but {len(args)} were given')
        obj.attrs['__constructing__'] = True
        for i, n in enumerate(names):
            owner = fields[n]
            if i < len(args):
                v = args[i]
            elif n in kwargs:
                v = kwargs.pop(n)
            elif n in owner.ann_defaults:
                v = self.dataclass_default(owner, n)
            else:
                self.raise_('TypeError', f"{cls.name}.__init__() missing required argument: '{n}'")
            obj.attrs[n] = v
        if kwargs:
            self.raise_('TypeError', f"{cls.name}.__init__() got an unexpected keyword argument '{next(iter(kwargs))}'")
        post, _ = cls.lookup('__post_init__')
        if post is not None:
            self.call(BoundMethod(obj, post), [], {})
        del obj.attrs['__constructing__']

    def is_classvar(self, ann):
        s = ast.unparse(ann) if isinstance(ann, ast.AST) else str(ann)
        if isinstance(ann, ast.Constant) and isinstance(ann.value, str):
            s = ann.value
        return s.startswith('ClassVar') or s.startswith('typing.ClassVar')

    def dataclass_default(self, owner: ClassInfo, name):
        node = owner.ann_defaults[name]
        fr = Frame(owner.module, dict(owner.attrs), closure=getattr(owner, 'outer_frame', None))
        v = self.eval(node, fr)
        from . import builtins_ as b
        if isinstance(v, b.FieldSpec):
            if v.default_factory is not None:
                return self.call(v.default_factory, [], {})
            if v.default is not MISSING:
                return v.default
            self.raise_('TypeError', f'missing required argument {name}')
        return v



def _memo_key(fq, args, kwargs):
    import z3
    from fractions import Fraction

    def k(v):
        if v is None or isinstance(v, (str, int, bool, float, Fraction)):
            return ('v', type(v).__name__, v)
        if isinstance(v, tuple):
            return ('t',) + tuple(k(x) for x in v)
        if z3.is_expr(v):
            return ('z', v.get_id())
        try:
            hash(v)
            if type(v).__eq__ is not object.__eq__:
                return ('h', v)
        except TypeError:
            pass
        return ('id', id(v))
    try:
        return (fq, tuple(k(a) for a in args), tuple(sorted((n, k(v)) for n, v in kwargs.items())))
    except Exception:   # noqa
        return None
