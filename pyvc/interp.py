"""Symbolic executor for the Python subset described in DESIGN.md section 1.4.

It executes the *real* ``ast`` nodes of /repo/src (see source.py); values are concrete Python
values or z3 terms (values.py).  One ``Interp`` = one path (fresh module globals / classes).
"""
from __future__ import annotations

import ast
import operator
from fractions import Fraction

import z3

from .core import Impure, PathCtx
from .source import FuncInfo, ModuleInfo, Repo, Unsupported
from .values import (BUILTIN_EXCS, BoundMethod, Builtin, ClassMethodVal, EnumMember, ExcClass,
                     ExcInstance, Ext, FStr, Model, NPStr, Obj, PropertyVal, PyExc,
                     StaticMethodVal, SymEnum, SymOpt, UnionType, is_sym, to_real, to_z3)


from .rt import (MISSING, ClassInfo, Frame, NotImplementedVal, _Break, _Continue, _Return,
                 fr_child)
from .stmts import StmtMixin
from .objects import ObjMixin





class Interp(StmtMixin, ObjMixin):
    def __init__(self, repo: Repo, ctx: PathCtx, models=None):
        self.repo = repo
        self.ctx = ctx
        self.models = models or {}
        self.summaries = {}          # fq -> callable(interp, fi, args, kwargs)
        self.no_summary = set()      # fq currently being verified (body must be executed)
        self.globals = {}            # module name -> dict
        self.in_progress = set()
        self.depth = 0
        self.max_depth = 80
        self.steps = 0
        self.max_steps = 2_000_000
        self.loop_invariants = {}
        self.hooks = {}              # misc hooks installed by contracts
        self.ext_attr_hooks = {}
        from . import builtins_ as b
        self.builtins = b.make_builtins(self)

    # ------------------------------------------------------------------ modules / names
    def module_globals(self, mod: ModuleInfo):
        return self.globals.setdefault(mod.name, {})

    def module_get(self, mod: ModuleInfo, name, default=MISSING):
        g = self.module_globals(mod)
        if name in g:
            return g[name]
        if mod.binds(name):
            key = (mod.name, name)
            if key in self.in_progress:
                raise Unsupported(f'circular module-level dependency on {mod.name}.{name}')
            self.in_progress.add(key)
            try:
                fr = Frame(mod, g)
                fr.is_module = True
                for st in mod._binding_nodes[name]:
                    if isinstance(st, ast.ImportFrom):
                        # imports are resolved lazily, one name at a time
                        self.s_ImportFrom(st, fr, only=name)
                        continue
                    if id(st) in g.setdefault('__executed__', set()):
                        continue
                    g['__executed__'].add(id(st))
                    self.exec_stmt(st, fr)
            finally:
                self.in_progress.discard(key)
            if name in g:
                return g[name]
        if name == '__name__':
            return mod.name
        if name == '__file__':
            from .models.fs import PathVal
            return PathVal.of(str(mod.path))
        if default is not MISSING:
            return default
        raise PyExc(self.mk_exc('NameError', f"name '{name}' is not defined in {mod.name}"))

    def get_module(self, name) -> ModuleInfo:
        return self.repo.module(name)

    def lookup_fq(self, fq):
        """'AEIC.weather:Weather.get_ground_speed' -> FuncInfo / ClassInfo / value."""
        modname, _, qual = fq.partition(':')
        mod = self.get_module(modname)
        parts = qual.split('.')
        v = self.module_get(mod, parts[0])
        for p in parts[1:]:
            if isinstance(v, ClassInfo):
                a, _ = v.lookup(p)
                if a is None:
                    raise Unsupported(f'{fq}: {p} not found')
                v = a
            else:
                raise Unsupported(f'{fq}: cannot descend into {v!r}')
        if isinstance(v, (ClassMethodVal, StaticMethodVal)):
            v = v.func
        if isinstance(v, PropertyVal):
            v = v.fget
        return v

    def _rebindable_globals(self, module):
        """Names of a module that some function rebinds through a ``global`` statement: the module's mutable state."""
        cache = self.hooks.setdefault('rebindable_globals', {})
        if module.name not in cache:
            import ast as _ast
            cache[module.name] = {n for st in _ast.walk(module.tree) if isinstance(st, _ast.Global) for n in st.names}
        return cache[module.name]

    def _note_state_read(self, module, name):
        """A memoised function (functools.cache / lru_cache) is only transparent if its result depends on its arguments alone:
        a read of rebindable module state while one is executing is recorded (verify turns it into a refuted obligation)."""
        stack = self.hooks.get('memoised_stack')
        if stack and name in self._rebindable_globals(module):
            self.ctx.memo_state_reads.append((stack[0], f'{module.name}.{name}'))

    def load_name(self, name, fr: Frame):
        f = fr
        if name in fr.globals_decl:
            self._note_state_read(fr.module, name)
            return self.module_get(fr.module, name)
        first = True
        while f is not None:
            if (first or f.cls_body is None) and name in f.locals and not getattr(f, 'is_module', False):
                return f.locals[name]
            first = False
            f = f.closure
        v = self.module_get(fr.module, name, None) if (fr.module.binds(name) or name in self.module_globals(fr.module)) else MISSING
        if v is not MISSING:
            self._note_state_read(fr.module, name)
            return v
        if name in self.builtins:
            return self.builtins[name]
        if name in ('__file__', '__name__'):
            return self.module_get(fr.module, name)
        raise PyExc(self.mk_exc('NameError', f"name '{name}' is not defined"))

    def store_name(self, name, val, fr: Frame):
        if name in fr.globals_decl:
            self.effect()
            self.module_globals(fr.module)[name] = val
            return
        if name in fr.nonlocal_decl:
            f = fr.closure
            while f is not None:
                if name in f.locals:
                    f.locals[name] = val
                    return
                f = f.closure
        fr.locals[name] = val

    # ------------------------------------------------------------------ helpers
    def effect(self):
        if self.ctx.pure_depth:
            raise Impure('side effect')

    def mk_exc(self, cls, *args):
        if isinstance(cls, str):
            cls = BUILTIN_EXCS[cls]
        return ExcInstance(cls, args)

    def raise_(self, cls, *args):
        raise PyExc(self.mk_exc(cls, *args))

    def truth(self, v):
        """Python truthiness -> python bool (forks on symbolic)."""
        if isinstance(v, bool):
            return v
        if v is None:
            return False
        if isinstance(v, z3.BoolRef):
            return self.ctx.branch(v)
        if isinstance(v, z3.ArithRef):
            return self.ctx.branch(v != 0)
        if isinstance(v, (int, Fraction)):
            return v != 0
        if isinstance(v, (str, list, tuple, dict, set, frozenset, range)):
            return len(v) > 0
        if isinstance(v, EnumMember):
            if v.kind == 'int':
                return v.value != 0
            if v.kind == 'str':
                return len(v.value) > 0
            return True
        if isinstance(v, Model):
            if hasattr(v, 'py_truth'):
                return self.truth(v.py_truth(self))
            if hasattr(v, 'py_len'):
                return self.truth(self.compare('>', v.py_len(self), 0))
            return True
        if isinstance(v, Obj):
            m, _ = v.cls.lookup('__bool__')
            if m is not None:
                return self.truth(self.call(BoundMethod(v, m), [], {}))
            m, _ = v.cls.lookup('__len__')
            if m is not None:
                return self.truth(self.compare('>', self.call(BoundMethod(v, m), [], {}), 0))
            return True
        if isinstance(v, SymEnum):
            return True
        if isinstance(v, SymOpt):
            return self.ctx.branch(z3.And(z3.Not(v.is_none), v.val != 0))
        return True

    def symbolic_truth(self, v):
        """Truth value as python bool or z3 Bool, without forking."""
        if isinstance(v, (bool, z3.BoolRef)):
            return v
        if isinstance(v, z3.ArithRef):
            return v != 0
        return self.truth(v)

    # ------------------------------------------------------------------ speculation (merge)
    def try_pure(self, thunk, assuming=None):
        """Evaluate thunk() without forks / side effects under an extra assumption; returns
        (ok, value)."""
        ctx = self.ctx
        ctx.pure_depth += 1
        ctx.solver.push()
        ctx.light.push()
        saved_len = len(ctx.pc)
        try:
            if assuming is not None:
                ctx.assume(assuming)
            try:
                return True, thunk()
            except Impure:
                return False, None
            except PyExc:
                return False, None
        finally:
            del ctx.pc[saved_len:]
            ctx.solver.pop()
            ctx.light.pop()
            ctx.pure_depth -= 1
            if ctx.pure_depth == 0 and ctx._deferred:
                d, ctx._deferred = ctx._deferred, []
                for fact in d:
                    ctx.assume(fact)

    def merge_values(self, cond, a, b):
        """If(cond, a, b) for mergeable scalar values, else None."""
        if a is b:
            return a
        try:
            if isinstance(a, (bool, z3.BoolRef)) and isinstance(b, (bool, z3.BoolRef)):
                return z3.If(cond, to_z3(a), to_z3(b))
            from .values import is_num
            if is_num(a) and is_num(b):
                za, zb = to_z3(a), to_z3(b)
                if za.sort() != zb.sort():
                    za, zb = to_real(za), to_real(zb)
                return z3.If(cond, za, zb)
        except TypeError:
            pass
        from .models.arrays import SArr
        if isinstance(a, SArr) and isinstance(b, SArr) and a.same_len(b):
            fa, fb = a, b
            return SArr(a.length, lambda k: self.merge_values(cond, fa.at(k), fb.at(k)), kind=a.kind)
        return None

    # ------------------------------------------------------------------ expression evaluation
    def eval(self, node, fr: Frame):
        self.steps += 1
        if self.steps > self.max_steps:
            raise Unsupported('step budget exceeded')
        m = getattr(self, 'e_' + type(node).__name__, None)
        if m is None:
            raise Unsupported(f'expression {type(node).__name__} at {fr.module.path}:{node.lineno}')
        return m(node, fr)

    def e_Constant(self, node, fr):
        v = node.value
        if isinstance(v, float):
            seg = ast.get_source_segment(fr.module.source, node) if hasattr(fr.module, 'source') else None
            try:
                return Fraction(seg.replace('_', '')) if seg else Fraction(repr(v))
            except (ValueError, AttributeError):
                return Fraction(repr(v))
        if v is Ellipsis:
            return None
        return v

    def e_Name(self, node, fr):
        return self.load_name(node.id, fr)

    def e_Tuple(self, node, fr):
        return tuple(self._eval_elts(node.elts, fr))

    def e_List(self, node, fr):
        return list(self._eval_elts(node.elts, fr))

    def e_Set(self, node, fr):
        return set(self._eval_elts(node.elts, fr))

    def _eval_elts(self, elts, fr):
        out = []
        for e in elts:
            if isinstance(e, ast.Starred):
                out += self.iterate(self.eval(e.value, fr))
            else:
                out.append(self.eval(e, fr))
        return out

    def e_Dict(self, node, fr):
        d = {}
        for k, v in zip(node.keys, node.values):
            if k is None:
                d.update(self.as_dict(self.eval(v, fr)))
            else:
                d[self.hashable(self.eval(k, fr))] = self.eval(v, fr)
        return d

    def hashable(self, k):
        if isinstance(k, SymEnum):
            return self.split_enum(k)
        if is_sym(k):
            k2 = z3.simplify(k)
            if z3.is_int_value(k2):
                return k2.as_long()
            raise Unsupported('symbolic dictionary key')
        return k

    def as_dict(self, v):
        if isinstance(v, dict):
            return v
        if isinstance(v, Obj):
            keys = self.iterate(v)
            return {k: self.getitem(v, k) for k in keys}
        raise Unsupported(f'** of {type(v).__name__}')

    def e_JoinedStr(self, node, fr):
        parts = []
        for p in node.values:
            if isinstance(p, ast.Constant):
                parts.append(p.value)
            else:
                v = self.eval(p.value, fr)
                s = self.to_str(v, p, fr)
                parts.append(s)
        if all(isinstance(p, str) for p in parts):
            return ''.join(parts)
        flat = []
        for p in parts:
            if isinstance(p, FStr):
                flat += p.parts
            else:
                flat.append(p)
        return FStr(flat)

    def to_str(self, v, fmtnode=None, fr=None):
        if isinstance(v, str):
            if fmtnode is not None and fmtnode.conversion == ord('r'):
                return repr(v)
            return v
        if isinstance(v, bool) or v is None:
            return str(v)
        if isinstance(v, int) and (fmtnode is None or fmtnode.format_spec is None):
            return str(v)
        if isinstance(v, EnumMember):
            m, _ = v.cls.lookup('__str__')
            if m is not None and fmtnode is not None and fmtnode.conversion != ord('r'):
                return self.call(BoundMethod(v, m), [], {})
            return str(v)
        if isinstance(v, Model) and hasattr(v, 'py_str'):
            return v.py_str(self)
        return FStr([v])

    def e_FormattedValue(self, node, fr):
        return self.to_str(self.eval(node.value, fr), node, fr)

    def e_Attribute(self, node, fr):
        obj = self.eval(node.value, fr)
        return self.getattr(obj, node.attr, node=node, fr=fr)

    def e_Subscript(self, node, fr):
        obj = self.eval(node.value, fr)
        idx = self.eval_index(node.slice, fr)
        return self.getitem(obj, idx, node=node)

    def eval_index(self, s, fr):
        if isinstance(s, ast.Slice):
            return slice(self.eval(s.lower, fr) if s.lower else None,
                         self.eval(s.upper, fr) if s.upper else None,
                         self.eval(s.step, fr) if s.step else None)
        if isinstance(s, ast.Tuple):
            return tuple(self.eval_index(e, fr) for e in s.elts)
        return self.eval(s, fr)

    def e_Slice(self, node, fr):
        return self.eval_index(node, fr)

    def e_UnaryOp(self, node, fr):
        v = self.eval(node.operand, fr)
        if isinstance(node.op, ast.Not):
            t = self.symbolic_truth(v)
            if isinstance(t, bool):
                return not t
            return z3.Not(t)
        if isinstance(node.op, ast.USub):
            return self.unary_neg(v)
        if isinstance(node.op, ast.UAdd):
            return v
        if isinstance(node.op, ast.Invert):
            from .models.arrays import SArr
            if isinstance(v, SArr):
                return v.map(lambda x: self.not_(x))
            if isinstance(v, (bool, z3.BoolRef)):
                return self.not_(v)
            if isinstance(v, int):
                return ~v
        raise Unsupported(f'unary {type(node.op).__name__}')

    def not_(self, x):
        if isinstance(x, bool):
            return not x
        return z3.Not(x)

    def unary_neg(self, v):
        from .models.arrays import SArr
        if isinstance(v, SArr):
            return v.map(lambda x: self.unary_neg(x))
        if isinstance(v, bool):
            return -int(v)
        if isinstance(v, (int, Fraction)) or is_sym(v):
            return -v
        if isinstance(v, EnumMember) and v.kind == 'int':
            return -v.value
        if isinstance(v, Obj):
            m, _ = v.cls.lookup('__neg__')
            if m is not None:
                return self.call(BoundMethod(v, m), [], {})
        raise Unsupported(f'negation of {type(v).__name__}')

    def e_BinOp(self, node, fr):
        a = self.eval(node.left, fr)
        b = self.eval(node.right, fr)
        return self.binop(type(node.op).__name__, a, b, node)

    def e_BoolOp(self, node, fr):
        is_and = isinstance(node.op, ast.And)
        vals = node.values
        cur = self.eval(vals[0], fr)
        for nxt in vals[1:]:
            t = self.symbolic_truth(cur)
            if isinstance(t, bool):
                if t != is_and:
                    return cur
                cur = self.eval(nxt, fr)
                continue
            # symbolic: try to merge lazily-evaluated right operand
            guard = t if is_and else z3.Not(t)
            ok, rv = self.try_pure(lambda n=nxt: self.symbolic_truth_pure(self.eval(n, fr)), assuming=guard)
            if ok and isinstance(rv, (bool, z3.BoolRef)) and isinstance(cur, (bool, z3.BoolRef)):
                cur = z3.And(t, to_z3(rv)) if is_and else z3.Or(t, to_z3(rv))
                continue
            if self.ctx.branch(t) != is_and:
                return cur
            cur = self.eval(nxt, fr)
        return cur

    def symbolic_truth_pure(self, v):
        if isinstance(v, (bool, z3.BoolRef)):
            return v
        raise Impure('non-boolean operand')

    def e_IfExp(self, node, fr):
        c = self.symbolic_truth(self.eval(node.test, fr))
        if isinstance(c, bool):
            return self.eval(node.body if c else node.orelse, fr)
        ok1, v1 = self.try_pure(lambda: self.eval(node.body, fr), assuming=c)
        if ok1:
            ok2, v2 = self.try_pure(lambda: self.eval(node.orelse, fr), assuming=z3.Not(c))
            if ok2:
                m = self.merge_values(c, v1, v2)
                if m is not None:
                    return m
        if self.ctx.branch(c):
            return self.eval(node.body, fr)
        return self.eval(node.orelse, fr)

    def e_Compare(self, node, fr):
        left = self.eval(node.left, fr)
        result = None
        for op, rn in zip(node.ops, node.comparators):
            right = self.eval(rn, fr)
            r = self.compare(_CMP[type(op)], left, right)
            if result is None:
                result = r
            else:
                result = self.and_(result, r)
            if result is False:
                return False
            left = right
        return result

    def and_(self, a, b):
        from .models.arrays import SArr
        if isinstance(a, SArr) or isinstance(b, SArr):
            return self.binop('BitAnd', a, b, None)
        if isinstance(a, bool):
            return b if a else False
        if isinstance(b, bool):
            return a if b else False
        return z3.And(a, b)

    def or_(self, a, b):
        if isinstance(a, bool):
            return True if a else b
        if isinstance(b, bool):
            return True if b else a
        return z3.Or(a, b)

    def e_Lambda(self, node, fr):
        return FuncInfo(fr.module, node, closure=fr, qualname='<lambda>')

    def e_Call(self, node, fr):
        fn = self.eval(node.func, fr)
        args = []
        for a in node.args:
            if isinstance(a, ast.Starred):
                args += self.iterate(self.eval(a.value, fr))
            else:
                args.append(self.eval(a, fr))
        kwargs = {}
        for k in node.keywords:
            if k.arg is None:
                kwargs.update(self.as_dict(self.eval(k.value, fr)))
            else:
                kwargs[k.arg] = self.eval(k.value, fr)
        # zero-argument super()
        if isinstance(fn, Builtin) and fn.name == 'super' and not args:
            return self.make_super(fr)
        return self.call(fn, args, kwargs, node=node, fr=fr)

    def e_ListComp(self, node, fr):
        from .models.arrays import SArr
        if len(node.generators) == 1 and not node.generators[0].ifs:
            g = node.generators[0]
            it = self.eval(g.iter, fr)
            if isinstance(it, Obj) and not isinstance(it, SArr):
                m = self.special(it, '__iter__')
                if m is not None:
                    r = self.call(m, [], {})
                    if isinstance(r, SArr):
                        it = r
            if isinstance(it, SArr) and not isinstance(it.length, int):
                return self.map_symbolic(it, g.target, node.elt, fr)
        out = []
        self._comp(node.generators, 0, fr_child(fr), lambda f: out.append(self.eval(node.elt, f)))
        return out

    def map_symbolic(self, arr, target, elt, fr):
        from .models.arrays import SArr

        def at(k):
            f = fr_child(fr)
            self.assign(target, arr.at(k), f)
            self.ctx.pure_depth += 1
            try:
                return self.eval(elt, f)
            except Impure:
                raise Unsupported('comprehension over symbolic-length sequence with effects')
            finally:
                self.ctx.pure_depth -= 1
        out = SArr(arr.length, at, kind='list')
        # the element expression is evaluated once for a generic index right away, so that an exception
        # it raises (for a non-empty sequence) surfaces here and not wherever an element happens to be used
        k = self.ctx.fresh('k', z3.IntSort())
        n = to_z3(arr.length)
        if self.ctx.feasible(n > 0):
            self.ctx.solver.push()
            self.ctx.light.push()
            saved = len(self.ctx.pc)
            raised = None
            try:
                self.ctx.assume(z3.And(k >= 0, k < n))
                at(k)
            except PyExc as e:
                raised = e
            finally:
                del self.ctx.pc[saved:]
                self.ctx.solver.pop()
                self.ctx.light.pop()
            if raised is not None:
                if not self.ctx.branch(n > 0):
                    return out          # empty sequence: the element expression is never evaluated
                raise raised
        return out

    def e_GeneratorExp(self, node, fr):
        # a generator is a single-pass iterator: whatever one consumer has taken is gone for the next (`any(g) and not all(g)`).
        # Its elements are computed up front (the element expressions of the verified code have no effects whose timing
        # matters); sequences of symbolic length stay multi-pass arrays.
        r = self.e_ListComp(node, fr)
        if isinstance(r, list):
            from .builtins_ import PyIterator
            return PyIterator(r)
        return r

    def e_SetComp(self, node, fr):
        out = set()
        self._comp(node.generators, 0, fr_child(fr), lambda f: out.add(self.hashable(self.eval(node.elt, f))))
        return out

    def e_DictComp(self, node, fr):
        out = {}

        def put(f):
            k = self.hashable(self.eval(node.key, f))
            out[k] = self.eval(node.value, f)
        self._comp(node.generators, 0, fr_child(fr), put)
        return out

    def _comp(self, gens, i, f, emit):
        if i == len(gens):
            emit(f)
            return
        g = gens[i]
        for item in self.iterate(self.eval(g.iter, f)):
            self.assign(g.target, item, f)
            if all(self.truth(self.eval(c, f)) for c in g.ifs):
                self._comp(gens, i + 1, f, emit)

    def e_Starred(self, node, fr):
        raise Unsupported('starred expression')

    def e_NamedExpr(self, node, fr):
        v = self.eval(node.value, fr)
        self.assign(node.target, v, fr)
        return v

    # ------------------------------------------------------------------ operators
    def binop(self, op, a, b, node=None):
        from .models.arrays import SArr, elementwise
        if isinstance(a, SArr) or isinstance(b, SArr):
            if op == 'Add' and isinstance(a, SArr) and isinstance(b, SArr) and a.kind == 'list' and b.kind == 'list':
                return a.concat(b)
            if op == 'Add' and ((isinstance(a, SArr) and a.kind == 'list' and isinstance(b, list)) or
                                (isinstance(b, SArr) and b.kind == 'list' and isinstance(a, list))):
                a2 = a if isinstance(a, SArr) else SArr.from_list(a, kind='list')
                b2 = b if isinstance(b, SArr) else SArr.from_list(b, kind='list')
                return a2.concat(b2)
            return elementwise(self, op, a, b)
        if isinstance(a, EnumMember) and a.kind in ('int', 'str'):
            a = a.value
        if isinstance(b, EnumMember) and b.kind in ('int', 'str'):
            b = b.value
        from .builtins_ import DictView
        if isinstance(a, DictView) and a.kind in ('keys', 'items') and op in ('BitAnd', 'BitOr', 'Sub', 'BitXor'):
            a = set(a.items())
        if isinstance(b, DictView) and b.kind in ('keys', 'items') and op in ('BitAnd', 'BitOr', 'Sub', 'BitXor'):
            b = set(b.items())
        if isinstance(a, bool) and op not in ('BitAnd', 'BitOr', 'BitXor'):
            a = int(a)
        if isinstance(b, bool) and op not in ('BitAnd', 'BitOr', 'BitXor'):
            b = int(b)
        if isinstance(a, (Obj, Model)) or isinstance(b, (Obj, Model)):
            return self.obj_binop(op, a, b)
        if isinstance(a, UnionType) or isinstance(b, UnionType) or isinstance(a, (ClassInfo, Ext, Builtin)) and op == 'BitOr':
            return UnionType([a, b])
        if b is None and op == 'BitOr' or a is None and op == 'BitOr':
            return UnionType([a, b])
        sym = is_sym(a) or is_sym(b)
        if not sym:
            return self.concrete_binop(op, a, b)
        return self.sym_binop(op, a, b)

    def concrete_binop(self, op, a, b):
        try:
            if op == 'Add':
                if isinstance(a, FStr) or isinstance(b, FStr):
                    pa = a.parts if isinstance(a, FStr) else [a]
                    pb = b.parts if isinstance(b, FStr) else [b]
                    return FStr(pa + pb)
                return a + b
            if op == 'Sub':
                return a - b
            if op == 'Mult':
                return a * b
            if op == 'Div':
                if b == 0:
                    self.raise_('ZeroDivisionError', 'division by zero')
                return Fraction(a) / Fraction(b)
            if op == 'FloorDiv':
                if b == 0:
                    self.raise_('ZeroDivisionError', 'integer division or modulo by zero')
                r = a // b
                return r
            if op == 'Mod':
                if isinstance(a, str):
                    return a % b
                if b == 0:
                    self.raise_('ZeroDivisionError', 'modulo by zero')
                return a % b
            if op == 'Pow':
                if isinstance(b, int):
                    if b < 0:
                        if a == 0:
                            self.raise_('ZeroDivisionError', '0 to a negative power')
                        return Fraction(a) ** b
                    return a ** b
                return self.sym_binop(op, a, b)
            if op == 'BitAnd':
                return a & b
            if op == 'BitOr':
                return a | b
            if op == 'BitXor':
                return a ^ b
            if op == 'LShift':
                return a << b
            if op == 'RShift':
                return a >> b
        except TypeError as e:
            self.raise_('TypeError', str(e))
        raise Unsupported(f'binary operator {op} on {type(a).__name__}, {type(b).__name__}')

    def sym_binop(self, op, a, b):
        from .models import mathfn
        if op in ('BitAnd', 'BitOr', 'BitXor'):
            za, zb = to_z3(a), to_z3(b)
            if z3.is_bool(za) and z3.is_bool(zb):
                return {'BitAnd': z3.And, 'BitOr': z3.Or, 'BitXor': z3.Xor}[op](za, zb)
            raise Unsupported('bitwise operator on symbolic integers')
        if isinstance(a, (str, FStr)) or isinstance(b, (str, FStr)):
            if op == 'Add':
                pa = a.parts if isinstance(a, FStr) else [a]
                pb = b.parts if isinstance(b, FStr) else [b]
                return FStr(pa + pb)
            raise Unsupported('string operator with symbolic operand')
        try:
            za, zb = to_z3(a), to_z3(b)
        except TypeError:
            self.raise_('TypeError', f"unsupported operand type(s) for {op}: '{type(a).__name__}' and '{type(b).__name__}'")
        if z3.is_bool(za):
            za = z3.If(za, 1, 0)
        if z3.is_bool(zb):
            zb = z3.If(zb, 1, 0)
        if op == 'Add':
            return za + zb
        if op == 'Sub':
            return za - zb
        if op == 'Mult':
            return za * zb
        if op == 'Div':
            self.require_nonzero(zb, 'division')
            return to_real(za) / to_real(zb)
        if op == 'FloorDiv':
            self.require_nonzero(zb, 'floor division')
            if z3.is_int(za) and z3.is_int(zb):
                return mathfn.floordiv_int(za, zb)
            return z3.ToReal(z3.ToInt(to_real(za) / to_real(zb)))
        if op == 'Mod':
            self.require_nonzero(zb, 'modulo')
            if z3.is_int(za) and z3.is_int(zb):
                return mathfn.mod_int(za, zb)
            ra, rb = to_real(za), to_real(zb)
            return ra - rb * z3.ToReal(z3.ToInt(ra / rb))
        if op == 'Pow':
            return mathfn.power(self, za, zb)
        raise Unsupported(f'symbolic operator {op}')

    def require_nonzero(self, zb, what):
        """Division: fork a ZeroDivisionError path when the divisor may be zero."""
        bad = zb == 0
        if self.ctx.pure_depth:
            if self.ctx.entails(z3.Not(bad)):
                return
            raise Impure('possible division by zero')
        if self.ctx.branch(bad):
            self.raise_('ZeroDivisionError', what + ' by zero')

    def obj_binop(self, op, a, b):
        names = _DUNDER[op]
        for x, y, nm in ((a, b, names[0]), (b, a, names[1])):
            if isinstance(x, Obj):
                m, _ = x.cls.lookup(nm)
                if m is not None:
                    r = self.call(BoundMethod(x, m), [y], {})
                    if r is not NotImplementedVal:
                        return r
            elif isinstance(x, Model) and hasattr(x, 'py_binop'):
                r = x.py_binop(self, op, y, x is b)
                if r is not NotImplemented:
                    return r
        self.raise_('TypeError', f'unsupported operand type(s) for {op}')

    def compare(self, op, a, b):
        from .models.arrays import SArr, elementwise_cmp
        if op == 'is':
            return self.is_(a, b)
        if op == 'is not':
            r = self.is_(a, b)
            return (not r) if isinstance(r, bool) else z3.Not(r)
        if op == 'in':
            return self.contains(b, a)
        if op == 'not in':
            r = self.contains(b, a)
            return (not r) if isinstance(r, bool) else z3.Not(r)
        if isinstance(a, SArr) or isinstance(b, SArr):
            if op in ('==', '!=') and (isinstance(a, SArr) and a.kind == 'list' or isinstance(b, SArr) and b.kind == 'list'):
                raise Unsupported('list equality on symbolic lists')
            return elementwise_cmp(self, op, a, b)
        if isinstance(a, SymEnum) or isinstance(b, SymEnum):
            return self.symenum_cmp(op, a, b)
        if isinstance(a, SymOpt) or isinstance(b, SymOpt):
            if op not in ('==', '!='):
                raise Unsupported('ordering on optional value')
            e = a.eq(b) if isinstance(a, SymOpt) else b.eq(a)
            if op == '==':
                return e
            return (not e) if isinstance(e, bool) else z3.Not(e)
        if isinstance(a, NPStr) or isinstance(b, NPStr):
            if op == '==':
                return a == b
            if op == '!=':
                return not (a == b)
        if is_sym(a) or is_sym(b):
            if a is None or b is None or isinstance(a, (str, Obj)) or isinstance(b, (str, Obj)):
                if op == '==':
                    return False
                if op == '!=':
                    return True
                self.raise_('TypeError', 'ordering comparison with None/str')
            za, zb = to_z3(a), to_z3(b)
            if z3.is_bool(za) != z3.is_bool(zb):
                za = z3.If(za, 1, 0) if z3.is_bool(za) else za
                zb = z3.If(zb, 1, 0) if z3.is_bool(zb) else zb
            return _Z3CMP[op](za, zb)
        if isinstance(a, Obj) or isinstance(b, Obj):
            return self.obj_compare(op, a, b)
        if isinstance(a, Model) and hasattr(a, 'py_cmp'):
            r = a.py_cmp(self, op, b)
            if r is not NotImplemented:
                return r
        if isinstance(b, Model) and hasattr(b, 'py_cmp'):
            r = b.py_cmp(self, _SWAP[op], a)
            if r is not NotImplemented:
                return r
        try:
            if op in ('==', '!='):
                eq = self.concrete_eq(a, b)
                if isinstance(eq, bool):
                    return eq if op == '==' else not eq
                return eq if op == '==' else z3.Not(eq)
            return _PYCMP[op](a, b)
        except TypeError as e:
            self.raise_('TypeError', str(e))

    def concrete_eq(self, a, b):
        """== on concrete containers that may hold symbolic leaves."""
        if isinstance(a, (list, tuple)) and isinstance(b, (list, tuple)) and type(a) is type(b):
            if len(a) != len(b):
                return False
            r = True
            for x, y in zip(a, b):
                r = self.and_(r, self.compare('==', x, y))
                if r is False:
                    return False
            return r
        if isinstance(a, dict) and isinstance(b, dict):
            if set(a.keys()) != set(b.keys()):
                return False
            r = True
            for k in a:
                r = self.and_(r, self.compare('==', a[k], b[k]))
                if r is False:
                    return False
            return r
        if isinstance(a, Fraction) and isinstance(b, float) or isinstance(b, Fraction) and isinstance(a, float):
            return Fraction(a) == Fraction(b)
        return a == b

    def obj_compare(self, op, a, b):
        names = {'==': '__eq__', '!=': '__ne__', '<': '__lt__', '<=': '__le__', '>': '__gt__', '>=': '__ge__'}
        for x, y, o in ((a, b, op), (b, a, _SWAP[op])):
            if isinstance(x, Obj):
                m, _ = x.cls.lookup(names[o])
                if m is not None:
                    r = self.call(BoundMethod(x, m), [y], {})
                    if r is not NotImplementedVal:
                        return r
                if o == '!=':
                    m, _ = x.cls.lookup('__eq__')
                    if m is not None:
                        r = self.call(BoundMethod(x, m), [y], {})
                        if r is not NotImplementedVal:
                            t = self.symbolic_truth(r)
                            return (not t) if isinstance(t, bool) else z3.Not(t)
                em = self.ext_method(x, names[o])
                if em is not None:
                    r = self.call(em, [y], {})
                    if r is not NotImplementedVal:
                        return r
                if x.cls.dataclass is not None and o in ('==', '!=') and isinstance(y, Obj) and y.cls is x.cls:
                    if x.cls.dataclass.get('eq', True):
                        r = True
                        for f in x.cls.all_fields():
                            r = self.and_(r, self.compare('==', x.attrs.get(f), y.attrs.get(f)))
                        return r if o == '==' else ((not r) if isinstance(r, bool) else z3.Not(r))
        if op == '==':
            return a is b
        if op == '!=':
            return a is not b
        self.raise_('TypeError', f'{op} not supported between instances')

    def symenum_cmp(self, op, a, b):
        if op not in ('==', '!='):
            raise Unsupported('ordering on symbolic enum')

        def ordof(x, other):
            if isinstance(x, SymEnum):
                return x.ord
            if isinstance(x, EnumMember):
                if x.cls is other.cls:
                    return z3.IntVal(x.index)
                return None
            if isinstance(x, str) and other.cls.enum_kind == 'str':
                for m in other.cls.members:
                    if m.value == x:
                        return z3.IntVal(m.index)
            return None
        oa = ordof(a, b if isinstance(b, SymEnum) else a)
        ob = ordof(b, a if isinstance(a, SymEnum) else b)
        if oa is None or ob is None:
            return op == '!='
        return (oa == ob) if op == '==' else (oa != ob)

    def is_(self, a, b):
        from .values import Poison
        if isinstance(a, Poison) or isinstance(b, Poison):
            (a if isinstance(a, Poison) else b)._hit()
        if isinstance(a, SymOpt) or isinstance(b, SymOpt):
            if a is None or b is None:
                return (a if isinstance(a, SymOpt) else b).is_none
            raise Unsupported('identity test on optional value')
        if a is None or b is None:
            if is_sym(a) or is_sym(b):
                return False
            return a is b
        if isinstance(a, SymEnum) or isinstance(b, SymEnum):
            return self.symenum_cmp('==', a, b)
        if isinstance(a, (bool,)) and isinstance(b, z3.BoolRef) or isinstance(b, bool) and isinstance(a, z3.BoolRef):
            return to_z3(a) == to_z3(b)
        if isinstance(a, (Obj, EnumMember, ClassInfo, ExcClass, Model, Ext, Builtin)) or isinstance(b, (Obj, EnumMember, ClassInfo, ExcClass, Model, Ext, Builtin)):
            if isinstance(a, Ext) and isinstance(b, Ext):
                return a == b
            return a is b
        if isinstance(a, bool) and isinstance(b, bool):
            return a == b
        if isinstance(a, (list, dict, set)) or isinstance(b, (list, dict, set)):
            return a is b
        if isinstance(a, (int, str, tuple)) and isinstance(b, (int, str, tuple)):
            return a == b
        return a is b

    def contains(self, container, item):
        if isinstance(container, Obj):
            m = self.special(container, '__contains__')
            if m is not None:
                return self.symbolic_truth(self.call(m, [item], {}))
            m, _ = container.cls.lookup('__iter__')
            if m is not None:
                return self.contains(self.iterate(container), item)
            self.raise_('TypeError', 'argument is not iterable')
        if isinstance(container, Model):
            if hasattr(container, 'py_contains'):
                return container.py_contains(self, item)
            raise Unsupported(f'`in` on {type(container).__name__}')
        if isinstance(container, ClassInfo) and container.enum_kind:
            return any(m is item for m in container.members) if isinstance(item, EnumMember) else \
                any(m.value == item for m in container.members)
        if isinstance(container, (str, FStr)):
            if isinstance(container, str) and isinstance(item, str):
                return item in container
            raise Unsupported('substring test on symbolic string')
        if isinstance(container, (list, tuple, set, frozenset, dict, range)) or hasattr(container, '__contains__'):
            if isinstance(item, SymEnum):
                # a symbolic member always denotes one of the class's members: if each of them is in the
                # container the answer is True without asking the solver
                hits = [any(self.compare('==', x, m) is True for x in container) for m in item.cls.members]
                if all(hits):
                    return True
                r = False
                for m, hit in zip(item.cls.members, hits):
                    if hit:
                        r = self.or_(r, item.ord == m.index)
                return r
            if is_sym(item):
                if isinstance(container, range):
                    if container.step == 1:
                        return z3.And(item >= container.start, item < container.stop)
                r = False
                for x in container:
                    r = self.or_(r, self.compare('==', x, item))
                return r
            if isinstance(container, (dict, set, frozenset)):
                try:
                    if not any(is_sym(x) for x in container):
                        return item in container
                except TypeError:
                    self.raise_('TypeError', 'unhashable type')
            r = False
            for x in container:
                r = self.or_(r, self.symbolic_truth(self.compare('==', x, item)) if not (x is item) else True)
                if r is True:
                    return True
            return r
        raise Unsupported(f'`in` on {type(container).__name__}')

    def split_enum(self, se: SymEnum):
        n = len(se.cls.members)
        i = self.ctx.choose(n, lambda i: self.ctx.feasible(se.ord == i))
        self.ctx.assume(se.ord == i)
        return se.cls.members[i]


_CMP = {ast.Eq: '==', ast.NotEq: '!=', ast.Lt: '<', ast.LtE: '<=', ast.Gt: '>', ast.GtE: '>=',
        ast.Is: 'is', ast.IsNot: 'is not', ast.In: 'in', ast.NotIn: 'not in'}
_SWAP = {'==': '==', '!=': '!=', '<': '>', '<=': '>=', '>': '<', '>=': '<='}
_PYCMP = {'<': operator.lt, '<=': operator.le, '>': operator.gt, '>=': operator.ge}
_Z3CMP = {'==': lambda a, b: a == b, '!=': lambda a, b: a != b, '<': lambda a, b: a < b,
          '<=': lambda a, b: a <= b, '>': lambda a, b: a > b, '>=': lambda a, b: a >= b}
_DUNDER = {'Add': ('__add__', '__radd__'), 'Sub': ('__sub__', '__rsub__'), 'Mult': ('__mul__', '__rmul__'),
           'Div': ('__truediv__', '__rtruediv__'), 'FloorDiv': ('__floordiv__', '__rfloordiv__'),
           'Mod': ('__mod__', '__rmod__'), 'Pow': ('__pow__', '__rpow__'), 'BitOr': ('__or__', '__ror__'),
           'BitAnd': ('__and__', '__rand__'), 'BitXor': ('__xor__', '__rxor__'), 'MatMult': ('__matmul__', '__rmatmul__'),
           'LShift': ('__lshift__', '__rlshift__'), 'RShift': ('__rshift__', '__rrshift__')}
