"""Value layer of the symbolic executor.

Concrete Python values are used wherever everything is concrete (int, bool, str, None, tuple,
list, dict, set, ``Fraction`` for floats -- decimal literals become the exact rational of their
text).  Symbolic scalars are z3 terms: ``Int`` for Python ints, ``Real`` for floats (machine
arithmetic treated as mathematical -- reported as an assumption), ``Bool``.
"""
from __future__ import annotations

from fractions import Fraction

import z3


class PyExc(Exception):
    """An exception raised by the *interpreted* program (exceptions are values)."""

    def __init__(self, inst):
        super().__init__(repr(inst))
        self.inst = inst

    @property
    def cls(self):
        return self.inst.cls


class ExcClass:
    def __init__(self, name, bases=(), cinfo=None):
        self.name = name
        self.bases = list(bases)
        self.cinfo = cinfo

    def mro(self):
        out = [self]
        for b in self.bases:
            for c in b.mro():
                if c not in out:
                    out.append(c)
        return out

    def issub(self, other):
        return other in self.mro()

    def __repr__(self):
        return f'<exc {self.name}>'


class ExcInstance:
    def __init__(self, cls: ExcClass, args=()):
        self.cls = cls
        self.args = tuple(args)
        self.attrs = {}
        self.where = None

    def message_parts(self):
        out = []
        for a in self.args:
            if isinstance(a, FStr):
                out += a.parts
            else:
                out.append(a)
        return out

    def message_text(self):
        return ''.join(str(p) if isinstance(p, str) else '{' + _short(p) + '}'
                       for p in self.message_parts())

    def __repr__(self):
        return f'{self.cls.name}({self.message_text()!r})'


def _short(v):
    s = str(v)
    return s if len(s) < 60 else s[:57] + '...'


def _mk_builtin_excs():
    t = {}

    def mk(name, *bases):
        t[name] = ExcClass(name, [t[b] for b in bases])

    mk('BaseException')
    mk('Exception', 'BaseException')
    mk('KeyboardInterrupt', 'BaseException')
    mk('SystemExit', 'BaseException')
    mk('NonFiniteResult', 'BaseException')   # pseudo: numpy produced inf/nan (undefined op)
    mk('ArithmeticError', 'Exception')
    mk('ZeroDivisionError', 'ArithmeticError')
    mk('OverflowError', 'ArithmeticError')
    mk('AssertionError', 'Exception')
    mk('AttributeError', 'Exception')
    mk('LookupError', 'Exception')
    mk('KeyError', 'LookupError')
    mk('IndexError', 'LookupError')
    mk('NameError', 'Exception')
    mk('UnboundLocalError', 'NameError')
    mk('OSError', 'Exception')
    mk('FileNotFoundError', 'OSError')
    mk('FileExistsError', 'OSError')
    mk('PermissionError', 'OSError')
    mk('RuntimeError', 'Exception')
    mk('NotImplementedError', 'RuntimeError')
    mk('RecursionError', 'RuntimeError')
    mk('MemoryError', 'Exception')
    mk('StopIteration', 'Exception')
    mk('TypeError', 'Exception')
    mk('ValueError', 'Exception')
    mk('Warning', 'Exception')
    mk('RuntimeWarning', 'Warning')
    mk('UserWarning', 'Warning')
    mk('DeprecationWarning', 'Warning')
    return t


BUILTIN_EXCS = _mk_builtin_excs()


class FStr:
    """A formatted string with non-concrete parts: opaque, but its parts are kept so that
    'the message names X' can be decided."""

    def __init__(self, parts):
        self.parts = list(parts)

    def __repr__(self):
        return 'f' + repr(''.join(str(p) if isinstance(p, str) else '{' + _short(p) + '}'
                                  for p in self.parts))


class Ext:
    """Reference to something outside the repo (numpy, pyproj, netCDF4, stdlib ...).  Calls go
    through the model registry; anything without a model is *Unsupported*."""

    def __init__(self, name):
        self.name = name

    def __repr__(self):
        return f'<ext {self.name}>'

    def __eq__(self, o):
        return isinstance(o, Ext) and o.name == self.name

    def __hash__(self):
        return hash(('Ext', self.name))

    def __or__(self, o):      # typing unions  A | B
        return UnionType([self, o])

    def __ror__(self, o):
        return UnionType([o, self])


class UnionType:
    def __init__(self, alts):
        self.alts = []
        for a in alts:
            if isinstance(a, UnionType):
                self.alts += a.alts
            else:
                self.alts.append(a)

    def __or__(self, o):
        return UnionType(self.alts + [o])

    def __ror__(self, o):
        return UnionType([o] + self.alts)


class Builtin:
    def __init__(self, name, fn, pure=True):
        self.name = name
        self.fn = fn
        self.pure = pure

    def __repr__(self):
        return f'<builtin {self.name}>'

    def __or__(self, o):
        return UnionType([self, o])

    def __ror__(self, o):
        return UnionType([o, self])


class BoundMethod:
    def __init__(self, self_val, func):
        self.self_val = self_val
        self.func = func

    def __repr__(self):
        return f'<bound {self.func!r} of {type(self.self_val).__name__}>'


class PropertyVal:
    def __init__(self, fget, fset=None, cached=False):
        self.fget = fget
        self.fset = fset
        self.cached = cached


class ClassMethodVal:
    def __init__(self, func):
        self.func = func


class StaticMethodVal:
    def __init__(self, func):
        self.func = func


class EnumMember:
    def __init__(self, cls, name, value, index):
        self.cls = cls
        self.name = name
        self.value = value
        self.index = index
        self.attrs = {}

    @property
    def kind(self):
        return self.cls.enum_kind

    def __eq__(self, o):
        if isinstance(o, EnumMember):
            if self.kind in ('int', 'str') and o.kind == self.kind:
                return self.value == o.value
            return self is o
        if self.kind == 'int' and isinstance(o, int) and not isinstance(o, bool):
            return self.value == o
        if self.kind == 'str' and isinstance(o, str):
            return self.value == o
        return False

    def __ne__(self, o):
        return not self.__eq__(o)

    def __hash__(self):
        if self.kind in ('int', 'str'):
            return hash(self.value)
        return hash((self.cls.qualname, self.name))

    def __lt__(self, o):
        if isinstance(o, EnumMember):
            return self.value < o.value
        return self.value < o

    def __le__(self, o):
        return self == o or self < o

    def __gt__(self, o):
        if isinstance(o, EnumMember):
            return self.value > o.value
        return self.value > o

    def __ge__(self, o):
        return self == o or self > o

    def __repr__(self):
        return f'{self.cls.name}.{self.name}'

    def __str__(self):
        if self.kind == 'str':
            return str(self.value)
        return f'{self.cls.name}.{self.name}'


class SymEnum:
    """A symbolic member of an enum class: z3 Int ordinal in [0, n)."""

    def __init__(self, cls, ordv, np_str=False):
        self.cls = cls
        self.ord = ordv
        self.np_str = np_str     # a numpy.str_ holding the member's value (what numpy stores for StrEnum members)

    def __repr__(self):
        return f'<sym {self.cls.name} {self.ord}>'


class SymOpt:
    """A symbolic `T | None` scalar: (is_none, val)."""

    def __init__(self, is_none, val):
        self.is_none = is_none
        self.val = val

    def eq(self, other):
        if other is None:
            return self.is_none
        if isinstance(other, SymOpt):
            return z3.Or(z3.And(self.is_none, other.is_none),
                         z3.And(z3.Not(self.is_none), z3.Not(other.is_none), self.val == other.val))
        if isinstance(other, (int, Fraction)) or isinstance(other, z3.ExprRef):
            return z3.And(z3.Not(self.is_none), self.val == to_z3(other))
        return False

    def __repr__(self):
        return f'<opt none={self.is_none} val={self.val}>'


class Obj:
    """Instance of a repo class."""
    _ids = 0

    def __init__(self, cls):
        self.cls = cls
        self.attrs = {}
        Obj._ids += 1
        self.oid = Obj._ids

    def __repr__(self):
        return f'<{self.cls.name} #{self.oid}>'


class Model:
    """Base of library-object models.  Hooks: py_getattr, py_setattr, py_call, py_getitem,
    py_setitem, py_len, py_iter, py_contains, py_truth, py_eq, py_enter, py_exit."""
    type_names: tuple = ()


class NPStr:
    """A numpy.str_ element (what numpy stores when given StrEnum members) -- a plain string
    for equality / hashing, but *not* an enum member (no member-only attributes)."""

    def __init__(self, s):
        self.s = str(s.value if isinstance(s, EnumMember) else s)
        self.member = s if isinstance(s, EnumMember) else None     # where the string came from (for conditional elements)

    def __eq__(self, o):
        if isinstance(o, NPStr):
            return self.s == o.s
        if isinstance(o, EnumMember):
            return o.kind == 'str' and o.value == self.s
        return self.s == o

    def __hash__(self):
        return hash(self.s)

    def __repr__(self):
        return f'np.str_({self.s!r})'


def is_sym(v):
    return isinstance(v, z3.ExprRef)


def is_num(v):
    return (isinstance(v, (int, Fraction)) and not isinstance(v, bool)) or \
        (isinstance(v, z3.ArithRef))


def to_z3(v):
    if isinstance(v, z3.ExprRef):
        return v
    if isinstance(v, bool):
        return z3.BoolVal(v)
    if isinstance(v, int):
        return z3.IntVal(v)
    if isinstance(v, Fraction):
        return z3.RealVal(str(v.numerator) + '/' + str(v.denominator)) if v.denominator != 1 \
            else z3.RealVal(v.numerator)
    if isinstance(v, float):
        return to_z3(Fraction(repr(v)))
    if isinstance(v, EnumMember) and v.kind == 'int':
        return z3.IntVal(v.value)
    raise TypeError(f'cannot convert {v!r} to z3')


def to_real(v):
    e = to_z3(v)
    if z3.is_int(e):
        return z3.ToReal(e)
    return e


def from_model_value(m):
    """z3 model value -> python int / Fraction / bool."""
    if z3.is_int_value(m):
        return m.as_long()
    if z3.is_rational_value(m):
        return Fraction(m.numerator_as_long(), m.denominator_as_long())
    if z3.is_true(m):
        return True
    if z3.is_false(m):
        return False
    if z3.is_algebraic_value(m):
        a = m.approx(20)
        return Fraction(a.numerator_as_long(), a.denominator_as_long())
    return str(m)


class PoisonRead(Exception):
    """State left behind by an earlier operation was read before being overwritten."""


class Poison(Model):
    """Marks state that must be written before it is read (history independence)."""

    def __init__(self, what):
        self.what = what

    def _hit(self, *a, **k):
        raise PoisonRead(self.what)

    py_truth = py_binop = py_cmp = py_getattr = py_call = py_getitem = py_len = py_iter = py_contains = _hit
    py_float = py_str = py_setattr = py_setitem = py_hash = _hit
