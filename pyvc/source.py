"""Front end: re-reads the real source of MIT-LAE/AEIC on every run.

Nothing here imports repo code; modules are parsed with ``ast`` (Python 3.13 grammar) and
functions / classes are selected by qualified name.  The extraction keeps the executable
statements of each selected node verbatim; what is dropped is reported by
``FuncInfo.dropped``: docstrings, comments, annotations (annotations are only read as sort
hints / dataclass field lists).
"""
from __future__ import annotations

import ast
import os
from pathlib import Path

SRC_ROOT = Path(os.environ.get('AEIC_SRC', '/repo/src'))


class Unsupported(Exception):
    """A construct outside the supported subset: the run ends *undecided* (exit 2)."""


class ModuleInfo:
    def __init__(self, repo, name: str, path: Path):
        self.repo = repo
        self.name = name
        self.path = path
        self.source = path.read_text()
        self.tree = ast.parse(self.source, filename=str(path))
        self.is_pkg = path.name == '__init__.py'
        self.globals: dict = {}          # evaluated top-level bindings (lazy)
        self._binding_nodes: dict = {}   # name -> list of top-level stmts that bind it
        self._index()

    def _index(self):
        for st in self.tree.body:
            for n in _bound_names(st):
                self._binding_nodes.setdefault(n, []).append(st)

    def binds(self, name):
        return name in self._binding_nodes

    def __repr__(self):
        return f'<module {self.name}>'


def _bound_names(st):
    if isinstance(st, (ast.FunctionDef, ast.ClassDef, ast.AsyncFunctionDef)):
        return [st.name]
    if isinstance(st, ast.Assign):
        out = []
        for t in st.targets:
            out += _target_names(t)
        return out
    if isinstance(st, ast.AnnAssign):
        return _target_names(st.target) if st.value is not None else []
    if isinstance(st, ast.AugAssign):
        return _target_names(st.target)
    if isinstance(st, ast.Import):
        return [(a.asname or a.name.split('.')[0]) for a in st.names]
    if isinstance(st, ast.ImportFrom):
        return [(a.asname or a.name) for a in st.names]
    if isinstance(st, ast.TypeAlias):
        return [st.name.id]
    if isinstance(st, (ast.If, ast.Try)):
        out = []
        for s in ast.walk(st):
            if s is not st and isinstance(s, ast.stmt):
                out += _bound_names(s) if not isinstance(s, (ast.If, ast.Try)) else []
        return out
    return []


def _target_names(t):
    if isinstance(t, ast.Name):
        return [t.id]
    if isinstance(t, (ast.Tuple, ast.List)):
        out = []
        for e in t.elts:
            out += _target_names(e)
        return out
    return []


class FuncInfo:
    """A function of the real source (an ``ast.FunctionDef`` node, never a copy)."""

    def __init__(self, module: ModuleInfo, node: ast.FunctionDef, cls=None, closure=None,
                 qualname=None):
        self.module = module
        self.node = node
        self.cls = cls
        self.closure = closure   # enclosing Frame for nested functions / lambdas
        self.name = getattr(node, 'name', '<lambda>')
        self.qualname = qualname or ((cls.qualname + '.' if cls else '') + self.name)
        self.decorators = [_dec_name(d) for d in getattr(node, 'decorator_list', [])]

    @property
    def fq(self):
        return f'{self.module.name}:{self.qualname}'

    @property
    def where(self):
        return f'{self.module.path}:{self.node.lineno}'

    def dropped(self):
        d = []
        body = getattr(self.node, 'body', [])
        if isinstance(body, list) and body and isinstance(body[0], ast.Expr) and \
                isinstance(body[0].value, ast.Constant) and isinstance(body[0].value.value, str):
            d.append('docstring')
        d.append('comments')
        d.append('type annotations (read only as sort hints)')
        return d

    def __repr__(self):
        return f'<func {self.fq}>'


def _dec_name(d):
    if isinstance(d, ast.Call):
        d = d.func
    if isinstance(d, ast.Name):
        return d.id
    if isinstance(d, ast.Attribute):
        return _dec_name(d.value) + '.' + d.attr
    return '?'


class Repo:
    """All modules below ``SRC_ROOT/AEIC`` of the current working tree."""

    def __init__(self, root: Path | None = None):
        self.root = Path(root or SRC_ROOT)
        self.modules: dict[str, ModuleInfo] = {}
        self.files_read: set[str] = set()

    def module_path(self, name: str):
        p = self.root.joinpath(*name.split('.'))
        if p.with_suffix('.py').exists():
            return p.with_suffix('.py')
        if (p / '__init__.py').exists():
            return p / '__init__.py'
        return None

    def has_module(self, name: str):
        return name in self.modules or self.module_path(name) is not None

    def module(self, name: str) -> ModuleInfo:
        if name not in self.modules:
            p = self.module_path(name)
            if p is None:
                raise Unsupported(f'module {name} not found under {self.root}')
            self.modules[name] = ModuleInfo(self, name, p)
            self.files_read.add(str(p))
        return self.modules[name]

    def resolve_relative(self, mod: ModuleInfo, level: int, name: str | None):
        parts = mod.name.split('.')
        if not mod.is_pkg:
            parts = parts[:-1]
        if level > 1:
            parts = parts[: len(parts) - (level - 1)]
        if name:
            parts += name.split('.')
        return '.'.join(parts)
