"""Python builtins and methods of builtin types for the symbolic executor."""
from __future__ import annotations

from fractions import Fraction

import z3

from .rt import MISSING, ClassInfo
from .source import FuncInfo, Unsupported
from .values import (BUILTIN_EXCS, BoundMethod, Builtin, EnumMember, ExcClass, ExcInstance, Ext,
                     FStr, Model, NPStr, Obj, PyExc, SymEnum, is_num, is_sym, to_real, to_z3)


class DictView:
    def __init__(self, d, kind):
        self.d = d
        self.kind = kind

    def items(self):
        if self.kind == 'keys':
            return list(self.d.keys())
        if self.kind == 'values':
            return list(self.d.values())
        return [(k, v) for k, v in self.d.items()]


class PyIterator:
    def __init__(self, items):
        self._items = list(items)
        self.pos = 0

    def rest(self):
        r = self._items[self.pos:]
        self.pos = len(self._items)
        return r


class FieldSpec:
    """dataclasses.field(...) / pydantic.Field(...)"""

    def __init__(self, default=MISSING, default_factory=None, **kw):
        self.default = default
        self.default_factory = default_factory
        self.kw = kw


def sort_key(v):
    if isinstance(v, EnumMember):
        return (0, v.value if not isinstance(v.value, tuple) else v.index)
    if isinstance(v, (int, Fraction)):
        return (0, v)
    if isinstance(v, str):
        return (1, v)
    return (2, str(v))


def make_builtins(I):
    b = {}

    def reg(name, fn, pure=True):
        b[name] = Builtin(name, fn, pure)

    for n, e in BUILTIN_EXCS.items():
        b[n] = e

    def _len(v):
        return I.len_(v)

    def _abs(v):
        from .models.arrays import SArr
        if isinstance(v, SArr):
            return v.map(_abs)
        if is_sym(v):
            return z3.If(v >= 0, v, -v)
        return abs(v)

    def _isinstance(v, t):
        return I.isinstance_(v, t)

    def _issubclass(c, t):
        if isinstance(t, tuple):
            return any(_issubclass(c, x) for x in t)
        if isinstance(c, ClassInfo) and isinstance(t, ClassInfo):
            return c.issub(t)
        if isinstance(c, ClassInfo) and isinstance(t, Ext):
            return any(x.name == t.name for x in c.ext_bases())
        if isinstance(c, ExcClass) and isinstance(t, ExcClass):
            return c.issub(t)
        return False

    def _getattr(o, n, *d):
        return I.getattr(o, n, default=(d[0] if d else MISSING))

    def _setattr(o, n, v):
        return I.setattr(o, n, v)

    def _hasattr(o, n):
        return I.hasattr(o, n)

    def _delattr(o, n):
        return I.delattr(o, n)

    def _range(*a):
        a = [x.value if isinstance(x, EnumMember) else x for x in a]
        if any(is_sym(x) for x in a):
            from .models.arrays import SArr
            a2 = [z3.simplify(to_z3(x)) for x in a]
            if all(z3.is_int_value(x) for x in a2):
                return range(*[x.as_long() for x in a2])
            if len(a) == 1:
                lo, hi = 0, a[0]
            elif len(a) == 2:
                lo, hi = a
            else:
                raise Unsupported('symbolic range with step')
            n = z3.If(to_z3(hi) > to_z3(lo), to_z3(hi) - to_z3(lo), 0)
            return SArr(n, lambda k: to_z3(lo) + k, kind='range')
        return range(*a)

    def _enumerate(it, start=0):
        return [(i + start, x) for i, x in enumerate(I.iterate(it))]

    def _zip(*its, strict=False):
        ls = [I.iterate(x) for x in its]
        if strict and len(set(len(x) for x in ls)) > 1:
            I.raise_('ValueError', 'zip() arguments have different lengths')
        return list(zip(*ls))

    def _list(it=()):
        from .models.arrays import SArr
        if isinstance(it, SArr):
            if isinstance(it.length, int):
                return I.iterate(it)
            return it.as_kind('list')
        return list(I.iterate(it))

    def _tuple(it=()):
        return tuple(I.iterate(it))

    def _set(it=()):
        return set(I.hashable(x) for x in I.iterate(it))

    def _frozenset(it=()):
        return frozenset(I.hashable(x) for x in I.iterate(it))

    def _dict(*a, **k):
        d = {}
        if a:
            src = a[0]
            if isinstance(src, dict):
                d.update(src)
            elif isinstance(src, Obj):
                d.update(I.as_dict(src))
            else:
                for kv in I.iterate(src):
                    kk, vv = I.iterate(kv)
                    d[I.hashable(kk)] = vv
        d.update(k)
        return d

    def _sum(it, start=0):
        from .models.arrays import SArr, array_sum
        if isinstance(it, SArr) and not isinstance(it.length, int):
            return I.binop('Add', start, array_sum(I, it)) if start != 0 else array_sum(I, it)
        r = start
        for x in I.iterate(it):
            r = I.binop('Add', r, x)
        return r

    def _minmax(name):
        def f(*a, key=None, default=MISSING):
            items = I.iterate(a[0]) if len(a) == 1 else list(a)
            if not items:
                if default is not MISSING:
                    return default
                I.raise_('ValueError', f'{name}() arg is an empty sequence')
            if key is not None:
                keyed = [(I.call(key, [x], {}), x) for x in items]
            else:
                keyed = [(x, x) for x in items]
            bk, bv = keyed[0]
            for k, v in keyed[1:]:
                c = I.compare('<' if name == 'min' else '>', k, bk)
                if isinstance(c, bool):
                    if c:
                        bk, bv = k, v
                else:
                    m = I.merge_values(c, v, bv)
                    mk = I.merge_values(c, k, bk)
                    if m is None or mk is None:
                        if I.ctx.branch(c):
                            bk, bv = k, v
                    else:
                        bk, bv = mk, m
            return bv
        return f

    def _sorted(it, key=None, reverse=False):
        items = I.iterate(it)
        if any(is_sym(x) for x in items) or (key is not None and any(is_sym(I.call(key, [x], {})) for x in items)):
            m = I.models.get('builtins.sorted')
            if m is None:
                raise Unsupported('sorted() on symbolic values')
            return m(I, items, key=key, reverse=reverse)
        try:
            if key is None:
                return sorted(items, key=sort_key, reverse=reverse)
            return sorted(items, key=lambda x: sort_key(I.call(key, [x], {})), reverse=reverse)
        except TypeError as e:
            I.raise_('TypeError', str(e))

    def _any(it):
        if isinstance(it, PyIterator):
            # consumes the iterator up to and including the first true element (the truth value decides how far: fork)
            while it.pos < len(it._items):
                x = it._items[it.pos]
                it.pos += 1
                if I.truth(x):
                    return True
            return False
        r = False
        for x in I.iterate(it):
            r = I.or_(r, I.symbolic_truth(x))
            if r is True:
                return True
        return r

    def _all(it):
        from .models.arrays import SArr, array_all
        if isinstance(it, SArr) and not isinstance(it.length, int):
            return array_all(I, it)
        if isinstance(it, PyIterator):
            while it.pos < len(it._items):
                x = it._items[it.pos]
                it.pos += 1
                if not I.truth(x):
                    return False
            return True
        r = True
        for x in I.iterate(it):
            r = I.and_(r, I.symbolic_truth(x))
            if r is False:
                return False
        return r

    def _float(v=0):
        if isinstance(v, bool):
            return Fraction(int(v))
        if isinstance(v, (int, Fraction)):
            return Fraction(v)
        if isinstance(v, EnumMember):
            return Fraction(v.value)
        if is_sym(v):
            return to_real(v)
        if isinstance(v, str):
            try:
                if v.strip().lower() in ('nan', 'inf', '-inf', 'infinity'):
                    raise Unsupported('float nan/inf')
                return Fraction(v.strip())
            except ValueError:
                I.raise_('ValueError', f'could not convert string to float: {v!r}')
        if isinstance(v, Model) and hasattr(v, 'py_float'):
            return v.py_float(I)
        from .models.arrays import SArr
        if isinstance(v, SArr):
            if isinstance(v.length, int) and v.length == 1:
                return _float(v.at(0))
            if v.scalar_like:
                return _float(v.at(0))
            I.raise_('TypeError', 'only length-1 arrays can be converted to Python scalars')
        I.raise_('TypeError', f'float() argument must be a string or a real number, not {type(v).__name__}')

    def _int(v=0, base=10):
        if isinstance(v, bool):
            return int(v)
        if isinstance(v, int):
            return v
        if isinstance(v, Fraction):
            return int(v)
        if isinstance(v, EnumMember) and v.kind == 'int':
            return v.value
        if isinstance(v, str):
            try:
                return int(v, base)
            except ValueError:
                I.raise_('ValueError', f'invalid literal for int() with base {base}: {v!r}')
        if is_sym(v):
            if z3.is_bool(v):
                return z3.If(v, 1, 0)
            if v.is_int():
                return v
            return z3.If(v >= 0, z3.ToInt(v), -z3.ToInt(-v))
        I.raise_('TypeError', f'int() argument must be a string or a number, not {type(v).__name__}')

    def _bool(v=False):
        return I.symbolic_truth(v)

    def _str(v=''):
        if isinstance(v, str):
            return v
        if isinstance(v, EnumMember):
            m, _ = v.cls.lookup('__str__')
            if m is not None:
                return I.call(BoundMethod(v, m), [], {})
            return str(v)
        if isinstance(v, Obj):
            m, _ = v.cls.lookup('__str__')
            if m is not None:
                return I.call(BoundMethod(v, m), [], {})
            return f'<{v.cls.name} object>'
        if isinstance(v, (int, bool)) or v is None:
            return str(v)
        if isinstance(v, Model) and hasattr(v, 'py_str'):
            return v.py_str(I)
        if isinstance(v, NPStr):
            return v.s
        if isinstance(v, (list, tuple, dict)) and not _has_sym(v):
            return str(v)
        return FStr([v])

    def _repr(v):
        if isinstance(v, (str, int, bool)) or v is None:
            return repr(v)
        return FStr([v])

    def _hash(v):
        if isinstance(v, Obj):
            m, _ = v.cls.lookup('__hash__')
            if m is not None:
                return I.call(BoundMethod(v, m), [], {})
            return v.oid
        if isinstance(v, Model) and hasattr(v, 'py_hash'):
            return v.py_hash(I)
        try:
            return HashVal(v)
        except TypeError:
            I.raise_('TypeError', 'unhashable type')

    def _iter(v):
        from .models.arrays import SArr
        if isinstance(v, SArr) and not isinstance(v.length, int):
            return v            # symbolic length: consumed by comprehensions / invariant loops
        return PyIterator(I.iterate(v))

    def _next(it, *default):
        if isinstance(it, PyIterator):
            if it.pos < len(it._items):
                it.pos += 1
                return it._items[it.pos - 1]
            if default:
                return default[0]
            I.raise_('StopIteration')
        if isinstance(it, Obj):
            m, _ = it.cls.lookup('__next__')
            if m is not None:
                return I.call(BoundMethod(it, m), [], {})
        if isinstance(it, list):
            I.raise_('TypeError', "'list' object is not an iterator")
        raise Unsupported(f'next() on {type(it).__name__}')

    def _type(v, *rest):
        if rest:
            raise Unsupported('3-argument type()')
        if isinstance(v, Obj):
            return v.cls
        if isinstance(v, EnumMember):
            return v.cls
        if isinstance(v, ExcInstance):
            return v.cls
        for n in ('bool', 'int', 'float', 'str', 'list', 'tuple', 'dict', 'set'):
            if I.isinstance_(v, b[n]) and not (n == 'int' and isinstance(v, (bool, z3.BoolRef))):
                return b[n]
        if v is None:
            return b['NoneType']
        if isinstance(v, Model) and getattr(v, 'py_type', None) is not None:
            return v.py_type
        raise Unsupported(f'type() of {type(v).__name__}')

    def _round(v, nd=None):
        if isinstance(v, (int, Fraction)) and not is_sym(nd):
            return round(v, nd) if nd is not None else round(v)
        if isinstance(v, z3.ArithRef) and (nd is None or isinstance(nd, int)):
            # round-half-even of a real to nd decimals (Python's rule), as an exact term: y = v * 10^nd, f = floor(y)
            if v.is_int():
                return v if (nd is None or nd >= 0) else (_ for _ in ()).throw(Unsupported('round() of an int to negative digits'))
            # defined by its characteristic property (a definitional extension: such a k exists and is unique for every y):
            # k is an integer with |y - k| <= 1/2, and even when y lies exactly half-way
            scale = Fraction(10) ** (nd or 0)
            y = v * z3.RealVal(str(scale))
            k = I.ctx.fresh('rounded', z3.IntSort())
            half = z3.RealVal('1/2')
            dk = y - z3.ToReal(k)
            I.ctx.axiom(z3.And(dk <= half, dk >= -half, z3.Implies(z3.Or(dk == half, dk == -half), k % 2 == 0)))
            return k if nd is None else z3.ToReal(k) / z3.RealVal(str(scale))
        raise Unsupported('round() on symbolic value')

    def _callable(v):
        return isinstance(v, (FuncInfo, BoundMethod, Builtin, ClassInfo, ExcClass)) or \
            (isinstance(v, Obj) and v.cls.lookup('__call__')[0] is not None)

    def _divmod(a, c):
        return (I.binop('FloorDiv', a, c), I.binop('Mod', a, c))

    def _pow(a, c):
        return I.binop('Pow', a, c)

    def _super(*a):
        from .objects import SuperVal
        if len(a) == 2:
            return SuperVal(a[1], a[0])
        raise Unsupported('super() form')

    def _property(fget=None, fset=None):
        from .values import PropertyVal
        return PropertyVal(fget, fset)

    def _reversed(v):
        return list(reversed(I.iterate(v)))

    def _map(f, *its):
        return [I.call(f, list(xs), {}) for xs in zip(*[I.iterate(x) for x in its])]

    def _filter(f, it):
        return [x for x in I.iterate(it) if I.truth(I.call(f, [x], {}) if f is not None else x)]

    def _id(v):
        return id(v)

    def _vars(v):
        return v.attrs

    def _print(*a, **k):
        return None

    def _object():
        return Obj(ClassInfo.__new__(ClassInfo))

    for name, fn in dict(len=_len, abs=_abs, isinstance=_isinstance, issubclass=_issubclass,
                         getattr=_getattr, hasattr=_hasattr, range=_range, enumerate=_enumerate,
                         zip=_zip, list=_list, tuple=_tuple, set=_set, frozenset=_frozenset, dict=_dict,
                         sum=_sum, min=_minmax('min'), max=_minmax('max'), sorted=_sorted, any=_any,
                         all=_all, float=_float, int=_int, bool=_bool, str=_str, repr=_repr,
                         hash=_hash, iter=_iter, next=_next, type=_type, round=_round,
                         callable=_callable, divmod=_divmod, pow=_pow, super=_super,
                         property=_property, reversed=_reversed, map=_map, filter=_filter, id=_id,
                         vars=_vars, print=_print).items():
        reg(name, fn)
    reg('setattr', _setattr, pure=False)
    reg('delattr', _delattr, pure=False)
    reg('slice', lambda *a: slice(*a))
    reg('bytes', lambda *a: bytes(*a))
    reg('object', lambda: None)
    reg('NoneType', lambda: None)
    reg('complex', lambda *a: (_ for _ in ()).throw(Unsupported('complex')))
    reg('open', lambda *a, **k: I.call(Ext('builtins.open'), list(a), k), pure=False)
    reg('classmethod', lambda f: __import__('pyvc.values', fromlist=['x']).ClassMethodVal(f))
    reg('staticmethod', lambda f: __import__('pyvc.values', fromlist=['x']).StaticMethodVal(f))
    b['NotImplemented'] = __import__('pyvc.rt', fromlist=['x']).NotImplementedVal
    b['Ellipsis'] = None
    b['__debug__'] = True
    return b


class HashVal:
    """Result of hash(x) for a concrete value: only equality matters."""

    def __init__(self, v):
        self.v = v
        hash(v)

    def __eq__(self, o):
        return isinstance(o, HashVal) and self.v == o.v

    def __hash__(self):
        return hash(self.v)

    def __repr__(self):
        return f'hash({self.v!r})'


def _has_sym(v):
    if is_sym(v):
        return True
    if isinstance(v, (list, tuple, set)):
        return any(_has_sym(x) for x in v)
    if isinstance(v, dict):
        return any(_has_sym(x) for x in v.values())
    return False


def value_getattr(I, obj, name):
    """Attribute access on concrete Python values (methods of list/dict/str/...)."""
    from .objects import MUTATING
    if isinstance(obj, dict):
        if name == 'items':
            return Builtin('dict.items', lambda: DictView(obj, 'items'))
        if name == 'keys':
            return Builtin('dict.keys', lambda: DictView(obj, 'keys'))
        if name == 'values':
            return Builtin('dict.values', lambda: DictView(obj, 'values'))
        if name == 'get':
            def get(k, d=None):
                k = I.hashable(k)
                return obj[k] if k in obj else d
            return Builtin('dict.get', get)
        if name == 'update':
            def update(*a, **k):
                for src in a:
                    if isinstance(src, dict):
                        obj.update(src)
                    else:
                        for kv in I.iterate(src):
                            kk, vv = I.iterate(kv)
                            obj[I.hashable(kk)] = vv
                obj.update(k)
            return Builtin('dict.update', update, pure=False)
        if name == 'pop':
            def pop(k, *d):
                k = I.hashable(k)
                if k in obj:
                    return obj.pop(k)
                if d:
                    return d[0]
                I.raise_('KeyError', k)
            return Builtin('dict.pop', pop, pure=False)
        if name == 'setdefault':
            def setdefault(k, d=None):
                k = I.hashable(k)
                return obj.setdefault(k, d)
            return Builtin('dict.setdefault', setdefault, pure=False)
        if name == 'copy':
            return Builtin('dict.copy', lambda: dict(obj))
        if name == 'clear':
            return Builtin('dict.clear', lambda: obj.clear(), pure=False)
        if name == 'popitem':
            def popitem():
                if not obj:
                    I.raise_('KeyError', 'popitem(): dictionary is empty')
                return obj.popitem()
            return Builtin('dict.popitem', popitem, pure=False)
    if isinstance(obj, DictView):
        if name == '__iter__':
            return Builtin('view.iter', lambda: PyIterator(obj.items()))
    if isinstance(obj, list):
        if name == 'append':
            return Builtin('list.append', lambda v: obj.append(v), pure=False)
        if name == 'extend':
            return Builtin('list.extend', lambda v: obj.extend(I.iterate(v)), pure=False)
        if name == 'insert':
            return Builtin('list.insert', lambda i, v: obj.insert(i, v), pure=False)
        if name == 'pop':
            def pop(i=-1):
                if not obj:
                    I.raise_('IndexError', 'pop from empty list')
                return obj.pop(i)
            return Builtin('list.pop', pop, pure=False)
        if name == 'clear':
            return Builtin('list.clear', lambda: obj.clear(), pure=False)
        if name == 'copy':
            return Builtin('list.copy', lambda: list(obj))
        if name == 'index':
            def index(v):
                for i, x in enumerate(obj):
                    if I.truth(I.compare('==', x, v)):
                        return i
                I.raise_('ValueError', 'value is not in list')
            return Builtin('list.index', index)
        if name == 'count':
            return Builtin('list.count', lambda v: sum(1 for x in obj if I.truth(I.compare('==', x, v))))
        if name == 'sort':
            def sort(key=None, reverse=False):
                r = I.call(I.builtins['sorted'], [obj], dict(key=key, reverse=reverse))
                obj[:] = r
            return Builtin('list.sort', sort, pure=False)
        if name == 'reverse':
            return Builtin('list.reverse', lambda: obj.reverse(), pure=False)
        if name == 'remove':
            return Builtin('list.remove', lambda v: obj.remove(v), pure=False)
    if isinstance(obj, tuple):
        if name == 'index':
            return Builtin('tuple.index', lambda v: obj.index(v))
        if name == 'count':
            return Builtin('tuple.count', lambda v: obj.count(v))
    if isinstance(obj, (set, frozenset)):
        if name == 'add':
            return Builtin('set.add', lambda v: obj.add(I.hashable(v)), pure=False)
        if name == 'update':
            def update(*its):
                for it in its:
                    for x in I.iterate(it):
                        obj.add(I.hashable(x))
            return Builtin('set.update', update, pure=False)
        if name in ('discard', 'remove', 'clear', 'pop'):
            return Builtin('set.' + name, lambda *a: getattr(obj, name)(*a), pure=False)
        if name in ('union', 'intersection', 'difference', 'issubset', 'issuperset', 'copy', 'isdisjoint', 'symmetric_difference'):
            return Builtin('set.' + name, lambda *a: getattr(obj, name)(*[set(I.iterate(x)) for x in a]))
    if isinstance(obj, str):
        if name == 'join':
            def join(it):
                parts = [x.value if isinstance(x, EnumMember) else x for x in I.iterate(it)]
                if all(isinstance(p, str) for p in parts):
                    return obj.join(parts)
                out = []
                for i, p in enumerate(parts):
                    if i:
                        out.append(obj)
                    out += p.parts if isinstance(p, FStr) else [p]
                return FStr(out)
            return Builtin('str.join', join)
        if name == 'format':
            def fmt(*a, **k):
                if all(isinstance(x, (str, int)) for x in list(a) + list(k.values())):
                    return obj.format(*a, **k)
                return FStr([obj] + list(a) + list(k.values()))
            return Builtin('str.format', fmt)
        if hasattr(str, name):
            def strm(*a, **k):
                a2 = [x.value if isinstance(x, EnumMember) else x for x in a]
                try:
                    return getattr(obj, name)(*a2, **k)
                except (ValueError, TypeError) as e:
                    I.raise_(type(e).__name__, str(e))
            return Builtin('str.' + name, strm)
    if isinstance(obj, bytes) and hasattr(bytes, name):
        return Builtin('bytes.' + name, lambda *a, **k: getattr(obj, name)(*a, **k))
    if isinstance(obj, (int, Fraction)) and not isinstance(obj, bool):
        if name == 'real':
            return obj
        if name == 'is_integer':
            return Builtin('is_integer', lambda: Fraction(obj).denominator == 1)
    if isinstance(obj, FStr):
        if name in ('lower', 'upper', 'strip'):
            return Builtin('fstr.' + name, lambda: obj)
        if name == 'format':
            return Builtin('fstr.format', lambda *a, **k: FStr(obj.parts + list(a) + list(k.values())))
    if isinstance(obj, Builtin):
        if name == '__name__':
            return obj.name
        if obj.name == 'dict' and name == 'fromkeys':
            return Builtin('dict.fromkeys', lambda ks, v=None: {I.hashable(k): v for k in I.iterate(ks)})
        if obj.name == 'object' and name == '__setattr__':
            return Builtin('object.__setattr__', lambda o, n, v: I.raw_setattr(o, n, v) if isinstance(o, Obj) else I.setattr(o, n, v), pure=False)
        if obj.name == 'object' and name == '__getattribute__':
            return Builtin('object.__getattribute__', lambda o, n: I.raw_getattribute(o, n))
        if obj.name == 'float' and name == '__name__':
            return 'float'
        if obj.name == 'str' and hasattr(str, name):
            return Builtin('str.' + name, lambda s, *a: getattr(s, name)(*a))
    if isinstance(obj, slice) and name in ('start', 'stop', 'step'):
        return getattr(obj, name)
    if obj is None:
        I.raise_('AttributeError', f"'NoneType' object has no attribute '{name}'")
    if isinstance(obj, (int, str, Fraction, bool, list, tuple, dict, set, frozenset, FStr)):
        I.raise_('AttributeError', f"'{type(obj).__name__}' object has no attribute '{name}'")
    raise Unsupported(f'attribute {name} on {type(obj).__name__}')
