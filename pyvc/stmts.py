"""Statement execution (mixin of Interp)."""
from __future__ import annotations

import ast

import z3

from .rt import ClassInfo, Frame, _Break, _Continue, _Return
from .source import FuncInfo, Unsupported
from .values import (BUILTIN_EXCS, EnumMember, ExcClass, ExcInstance, Ext, Model, Obj, PyExc,
                     SymEnum, is_sym)

NOOP_CALLS = {'print'}


class StmtMixin:
    def exec_block(self, stmts, fr):
        for st in stmts:
            self.exec_stmt(st, fr)

    def exec_stmt(self, st, fr):
        self.steps += 1
        if self.steps > self.max_steps:
            raise Unsupported('step budget exceeded')
        m = getattr(self, 's_' + type(st).__name__, None)
        if m is None:
            raise Unsupported(f'statement {type(st).__name__} at {fr.module.path}:{st.lineno}')
        try:
            sh = self.hooks.get('stmt_hook')
            if sh is not None and sh(self, st, fr):
                return None
            return m(st, fr)
        except PyExc as e:
            if e.inst.where is None:
                e.inst.where = f'{fr.module.path}:{st.lineno}'
            raise

    # -- simple statements ---------------------------------------------------------------------
    def s_Expr(self, st, fr):
        if isinstance(st.value, ast.Constant):
            return
        self.eval(st.value, fr)

    def s_Pass(self, st, fr):
        pass

    def s_Assign(self, st, fr):
        v = self.eval(st.value, fr)
        for t in st.targets:
            self.assign(t, v, fr)

    def s_AnnAssign(self, st, fr):
        if fr.cls_body is not None and isinstance(st.target, ast.Name):
            fr.cls_body.annotations[st.target.id] = st.annotation
            if st.value is not None:
                fr.cls_body.ann_defaults[st.target.id] = st.value
        if st.value is not None:
            self.assign(st.target, self.eval(st.value, fr), fr)

    def s_AugAssign(self, st, fr):
        t = st.target
        opn = type(st.op).__name__
        if isinstance(t, ast.Name):
            cur = self.load_name(t.id, fr)
            new = self.aug(opn, cur, self.eval(st.value, fr))
            self.store_name(t.id, new, fr)
        elif isinstance(t, ast.Attribute):
            obj = self.eval(t.value, fr)
            cur = self.getattr(obj, t.attr)
            new = self.aug(opn, cur, self.eval(st.value, fr))
            self.setattr(obj, t.attr, new)
        elif isinstance(t, ast.Subscript):
            obj = self.eval(t.value, fr)
            idx = self.eval_index(t.slice, fr)
            cur = self.getitem(obj, idx)
            new = self.aug(opn, cur, self.eval(st.value, fr))
            self.setitem(obj, idx, new)
        else:
            raise Unsupported('augmented assignment target')

    def aug(self, opn, cur, val):
        if isinstance(cur, list) and opn == 'Add':
            self.effect()
            from .models.arrays import SArr
            if isinstance(val, SArr):
                return SArr.from_list(cur, kind='list').concat(val)
            cur.extend(self.iterate(val))
            return cur
        if isinstance(cur, set) and opn in ('BitOr',):
            self.effect()
            cur |= set(self.iterate(val))
            return cur
        return self.binop(opn, cur, val)

    def assign(self, target, val, fr):
        if isinstance(target, ast.Name):
            self.store_name(target.id, val, fr)
        elif isinstance(target, (ast.Tuple, ast.List)):
            items = self.iterate(val)
            star = [i for i, e in enumerate(target.elts) if isinstance(e, ast.Starred)]
            if star:
                i = star[0]
                n_after = len(target.elts) - i - 1
                if len(items) < len(target.elts) - 1:
                    self.raise_('ValueError', 'not enough values to unpack')
                for e, v in zip(target.elts[:i], items[:i]):
                    self.assign(e, v, fr)
                self.assign(target.elts[i].value, list(items[i: len(items) - n_after]), fr)
                for e, v in zip(target.elts[i + 1:], items[len(items) - n_after:]):
                    self.assign(e, v, fr)
                return
            if len(items) < len(target.elts):
                self.raise_('ValueError', f'not enough values to unpack (expected {len(target.elts)}, got {len(items)})')
            if len(items) > len(target.elts):
                self.raise_('ValueError', f'too many values to unpack (expected {len(target.elts)})')
            for e, v in zip(target.elts, items):
                self.assign(e, v, fr)
        elif isinstance(target, ast.Attribute):
            obj = self.eval(target.value, fr)
            self.setattr(obj, target.attr, val)
        elif isinstance(target, ast.Subscript):
            obj = self.eval(target.value, fr)
            idx = self.eval_index(target.slice, fr)
            self.setitem(obj, idx, val)
        else:
            raise Unsupported(f'assignment target {type(target).__name__}')

    def s_Delete(self, st, fr):
        for t in st.targets:
            if isinstance(t, ast.Name):
                if t.id in fr.locals:
                    del fr.locals[t.id]
                else:
                    self.raise_('NameError', f"name '{t.id}' is not defined")
            elif isinstance(t, ast.Attribute):
                self.delattr(self.eval(t.value, fr), t.attr)
            elif isinstance(t, ast.Subscript):
                obj = self.eval(t.value, fr)
                idx = self.eval_index(t.slice, fr)
                self.delitem(obj, idx)
            else:
                raise Unsupported('del target')

    def s_Global(self, st, fr):
        fr.globals_decl.update(st.names)

    def s_Nonlocal(self, st, fr):
        fr.nonlocal_decl.update(st.names)

    def s_Return(self, st, fr):
        raise _Return(self.eval(st.value, fr) if st.value is not None else None)

    def s_Break(self, st, fr):
        raise _Break()

    def s_Continue(self, st, fr):
        raise _Continue()

    def s_Assert(self, st, fr):
        # typing asserts (isinstance / is not None) are evaluated like any other assert: a failing
        # one raises AssertionError, which is an internal error for the caller to judge.
        v = self.eval(st.test, fr)
        if not self.truth(v):
            msg = self.eval(st.msg, fr) if st.msg is not None else ''
            self.raise_('AssertionError', msg if msg != '' else ast.unparse(st.test))

    def s_Raise(self, st, fr):
        if st.exc is None:
            if fr.cur_exc is None:
                f = fr
                while f is not None and f.cur_exc is None:
                    f = f.closure
                if f is None:
                    self.raise_('RuntimeError', 'No active exception to reraise')
                raise PyExc(f.cur_exc)
            raise PyExc(fr.cur_exc)
        v = self.eval(st.exc, fr)
        inst = self.to_exc_instance(v)
        if st.cause is not None:
            inst.attrs['__cause__'] = self.eval(st.cause, fr)
        raise PyExc(inst)

    def to_exc_instance(self, v):
        if isinstance(v, ExcInstance):
            return v
        if isinstance(v, ExcClass):
            return self.call(v, [], {})
        if isinstance(v, ClassInfo) and v.is_exception is not None:
            return self.call(v, [], {})
        if isinstance(v, Obj) and v.cls.is_exception is not None:
            return v.attrs['__excinst__']
        self.raise_('TypeError', 'exceptions must derive from BaseException')

    def s_Import(self, st, fr):
        for a in st.names:
            top = a.name.split('.')[0]
            if self.repo.has_module(a.name) and top == 'AEIC':
                val = ModuleRef(self.repo.module(a.name if a.asname else top))
            else:
                val = Ext(a.name if a.asname else top)
            self.store_name(a.asname or top, val, fr)

    def s_ImportFrom(self, st, fr, only=None):
        if st.level:
            base = self.repo.resolve_relative(fr.module, st.level, st.module)
        else:
            base = st.module
        for a in st.names:
            nm = a.asname or a.name
            if only is not None and nm != only:
                continue
            if base.split('.')[0] == 'AEIC' and self.repo.has_module(base):
                sub = base + '.' + a.name
                mod = self.repo.module(base)
                if mod.binds(a.name):
                    val = self.module_get(mod, a.name)
                elif self.repo.has_module(sub):
                    val = ModuleRef(self.repo.module(sub))
                else:
                    raise Unsupported(f'cannot import {a.name} from {base}')
            elif self.repo.has_module(base + '.' + a.name) and base.split('.')[0] == 'AEIC':
                val = ModuleRef(self.repo.module(base + '.' + a.name))
            else:
                val = Ext(base + '.' + a.name)
            self.store_name(nm, val, fr)

    def s_TypeAlias(self, st, fr):
        self.store_name(st.name.id, None, fr)

    # -- definitions ---------------------------------------------------------------------------
    def s_FunctionDef(self, st, fr):
        cls = fr.cls_body
        is_mod = getattr(fr, 'is_module', False)
        closure = None if (is_mod or cls is not None and fr.closure is None) else fr
        if cls is not None:
            closure = fr.closure
        fi = FuncInfo(fr.module, st, cls=cls, closure=closure,
                      qualname=None if (cls is not None or is_mod) else (fr.func.qualname + '.<locals>.' + st.name if fr.func else st.name))
        val = self.apply_decorators(st, fi, fr)
        self.store_name(st.name, val, fr)

    def apply_decorators(self, st, fi, fr):
        from .values import ClassMethodVal, PropertyVal, StaticMethodVal
        val = fi
        for d in reversed(st.decorator_list):
            name = _decname(d)
            if name == 'property':
                val = PropertyVal(val)
            elif name in ('cached_property', 'functools.cached_property'):
                val = PropertyVal(val, cached=True)
            elif name == 'classmethod':
                val = ClassMethodVal(val if isinstance(val, FuncInfo) else val)
            elif name == 'staticmethod':
                val = StaticMethodVal(val)
            elif name in ('abstractmethod', 'abc.abstractmethod', 'override', 'overload'):
                pass
            elif name.endswith('.setter'):
                prop = self.load_name(name.split('.')[0], fr)
                val = PropertyVal(prop.fget, fset=val, cached=prop.cached)
            elif name in ('cache', 'functools.cache', 'lru_cache', 'functools.lru_cache'):
                fi.cached = True
            elif name in ('model_validator', 'field_validator', 'pydantic.model_validator'):
                kw = {}
                if isinstance(d, ast.Call):
                    kw = {k.arg: self.eval(k.value, fr) for k in d.keywords}
                    kw['args'] = [self.eval(a, fr) for a in d.args]
                fi.validator = (name, kw)
                if fr.cls_body is not None:
                    fr.cls_body.keywords.setdefault('__validators__', []).append(fi)
                if isinstance(val, ClassMethodVal):
                    pass
            else:
                dv = self.eval(d, fr)
                val = self.call(dv, [val], {})
        return val

    def s_ClassDef(self, st, fr):
        qual = (fr.cls_body.qualname + '.' if fr.cls_body is not None else '') + st.name
        if fr.func is not None and fr.cls_body is None:
            qual = fr.func.qualname + '.<locals>.' + st.name
        ci = ClassInfo(fr.module, st, qual)
        ci.bases = [self.eval(b, fr) for b in st.bases]
        ci.bases = [self.subscripted_base(b) for b in ci.bases]
        ci.keywords.update({k.arg: self.eval(k.value, fr) for k in st.keywords})
        self.classify(ci)
        # bind early so that methods can refer to the class being defined via closures
        outer = None if getattr(fr, 'is_module', False) else fr
        if getattr(st, 'type_params', None):
            # PEP 695 type parameters live in a scope that encloses the class body (and is visible to functions
            # nested in it)
            outer = Frame(fr.module, {tp.name: Ext('typing.TypeVar:' + tp.name) for tp in st.type_params}, closure=outer, func=fr.func)
        ci.outer_frame = outer
        body_fr = Frame(fr.module, ci.attrs, closure=outer, func=fr.func, cls_body=ci)
        if ci.enum_kind:
            body_fr.enum_auto = 0
        if fr.cls_body is not None or not getattr(fr, 'is_module', False):
            pass
        self.store_name(st.name, ci, fr)   # forward reference for self-mentions in bodies
        for s in st.body:
            self.exec_stmt(s, body_fr)
        if ci.enum_kind:
            self.finish_enum(ci)
        val = ci
        for d in reversed(st.decorator_list):
            name = _decname(d)
            if name in ('dataclass', 'dataclasses.dataclass'):
                kw = {}
                if isinstance(d, ast.Call):
                    kw = {k.arg: self.eval(k.value, fr) for k in d.keywords}
                ci.dataclass = kw
            elif name in ('runtime_checkable', 'typing.runtime_checkable', 'total_ordering'):
                pass
            else:
                raise Unsupported(f'class decorator {name}')
        self.store_name(st.name, val, fr)

    def subscripted_base(self, b):
        return b

    def classify(self, ci: ClassInfo):
        for b in ci.bases:
            if isinstance(b, Ext):
                n = b.name
                if n in ('enum.Enum',):
                    ci.enum_kind = ci.enum_kind or 'plain'
                elif n in ('enum.IntEnum', 'enum.IntFlag'):
                    ci.enum_kind = 'int'
                elif n == 'enum.StrEnum':
                    ci.enum_kind = 'str'
            elif isinstance(b, ClassInfo):
                if b.enum_kind:
                    ci.enum_kind = b.enum_kind
                if b.is_exception is not None:
                    ci.is_exception = ExcClass(ci.qualname, [b.is_exception], ci)
            elif isinstance(b, ExcClass):
                ci.is_exception = ExcClass(ci.qualname, [b], ci)

    def finish_enum(self, ci: ClassInfo):
        from .values import ClassMethodVal, PropertyVal, StaticMethodVal
        idx = 0
        for name, v in list(ci.attrs.items()):
            if name.startswith('_') or isinstance(v, (FuncInfo, PropertyVal, ClassMethodVal, StaticMethodVal, ClassInfo)):
                continue
            if isinstance(v, _Auto):
                v = v.resolve(ci, name, idx)
            m = EnumMember(ci, name, v, idx)
            ci.attrs[name] = m
            ci.members.append(m)
            idx += 1

    # -- control flow --------------------------------------------------------------------------
    def s_If(self, st, fr):
        c = self.eval(st.test, fr)
        if self.truth(c):
            self.exec_block(st.body, fr)
        else:
            self.exec_block(st.orelse, fr)

    def s_While(self, st, fr):
        key = self.loop_key(st, fr)
        if key in self.loop_invariants:
            return self.loop_invariants[key](self, st, fr)
        n = 0
        while True:
            c = self.eval(st.test, fr)
            if not self.truth(c):
                break
            n += 1
            if n > self.hooks.get('max_unroll', 64):
                raise Unsupported(f'while loop at {fr.module.path}:{st.lineno} needs an invariant (unrolled {n}x)')
            try:
                self.exec_block(st.body, fr)
            except _Break:
                return
            except _Continue:
                continue
        self.exec_block(st.orelse, fr)

    def loop_key(self, st, fr):
        """(function fq, ordinal of the loop among the function's loops)."""
        f = fr.func
        if f is None:
            return (fr.module.name, st.lineno)
        loops = [n for n in ast.walk(f.node) if isinstance(n, (ast.For, ast.While))]
        loops.sort(key=lambda n: (n.lineno, n.col_offset))
        return (f.fq, loops.index(st) if st in loops else -1)

    def s_For(self, st, fr):
        key = self.loop_key(st, fr)
        if key in self.loop_invariants:
            return self.loop_invariants[key](self, st, fr)
        it = self.eval(st.iter, fr)
        items = self.iterate(it, loop=(st, fr))
        for item in items:
            self.assign(st.target, item, fr)
            try:
                self.exec_block(st.body, fr)
            except _Break:
                return
            except _Continue:
                continue
        self.exec_block(st.orelse, fr)

    def s_With(self, st, fr):
        mgrs = []
        for item in st.items:
            cm = self.eval(item.context_expr, fr)
            val = self.cm_enter(cm)
            mgrs.append(cm)
            if item.optional_vars is not None:
                self.assign(item.optional_vars, val, fr)
        try:
            self.exec_block(st.body, fr)
        except PyExc as e:
            suppressed = False
            for cm in reversed(mgrs):
                if self.truth(self.cm_exit(cm, e.inst)):
                    suppressed = True
            if not suppressed:
                raise
            return
        except (_Return, _Break, _Continue):
            for cm in reversed(mgrs):
                self.cm_exit(cm, None)
            raise
        for cm in reversed(mgrs):
            self.cm_exit(cm, None)

    def cm_enter(self, cm):
        if isinstance(cm, Model):
            if hasattr(cm, 'py_enter'):
                return cm.py_enter(self)
            raise Unsupported(f'with on {type(cm).__name__}')
        if isinstance(cm, Obj):
            m, _ = cm.cls.lookup('__enter__')
            if m is None:
                self.raise_('TypeError', 'object does not support the context manager protocol')
            from .values import BoundMethod
            return self.call(BoundMethod(cm, m), [], {})
        raise Unsupported(f'with on {type(cm).__name__}')

    def cm_exit(self, cm, exc):
        if isinstance(cm, Model):
            return cm.py_exit(self, exc) if hasattr(cm, 'py_exit') else False
        m, _ = cm.cls.lookup('__exit__')
        from .values import BoundMethod
        if exc is None:
            return self.call(BoundMethod(cm, m), [None, None, None], {})
        return self.call(BoundMethod(cm, m), [exc.cls, exc, None], {})

    def s_Try(self, st, fr):
        def run_final():
            if st.finalbody:
                self.exec_block(st.finalbody, fr)
        try:
            try:
                self.exec_block(st.body, fr)
            except PyExc as e:
                handler = self.match_handler(st.handlers, e.inst, fr)
                if handler is None:
                    raise
                saved = fr.cur_exc
                fr.cur_exc = e.inst
                try:
                    if handler.name:
                        fr.locals[handler.name] = self.exc_value(e.inst)
                    self.exec_block(handler.body, fr)
                finally:
                    fr.cur_exc = saved
                    if handler.name:
                        fr.locals.pop(handler.name, None)
            else:
                self.exec_block(st.orelse, fr)
        except BaseException as pending:
            if isinstance(pending, (PyExc, _Return, _Break, _Continue)):
                # the finally body runs; an exception raised inside it replaces the pending one
                run_final()
            raise
        run_final()

    def exc_value(self, inst):
        return inst.attrs.get('__obj__', inst)

    def match_handler(self, handlers, inst, fr):
        for h in handlers:
            if h.type is None:
                return h
            t = self.eval(h.type, fr)
            ts = t if isinstance(t, tuple) else (t,)
            for c in ts:
                ec = c
                if isinstance(c, ClassInfo):
                    ec = c.is_exception
                if isinstance(ec, Ext):
                    ec = self.models.get('exc:' + ec.name)
                if isinstance(ec, ExcClass) and inst.cls.issub(ec):
                    return h
        return None

    # -- match ---------------------------------------------------------------------------------
    def s_Match(self, st, fr):
        subj = self.eval(st.subject, fr)
        for case in st.cases:
            binds = {}
            c = self.match_pattern(case.pattern, subj, binds, fr)
            if not self.truth(c):
                continue
            for k, v in binds.items():
                self.store_name(k, v, fr)
            if case.guard is not None and not self.truth(self.eval(case.guard, fr)):
                continue
            self.exec_block(case.body, fr)
            return

    def match_pattern(self, p, v, binds, fr):
        """returns python bool or z3 Bool: does pattern match."""
        if isinstance(p, ast.MatchValue):
            return self.compare('==', v, self.eval(p.value, fr))
        if isinstance(p, ast.MatchSingleton):
            return self.is_(v, p.value)
        if isinstance(p, ast.MatchAs):
            r = True
            if p.pattern is not None:
                r = self.match_pattern(p.pattern, v, binds, fr)
            if p.name is not None:
                binds[p.name] = v
            return r
        if isinstance(p, ast.MatchOr):
            r = False
            for alt in p.patterns:
                r = self.or_(r, self.match_pattern(alt, v, binds, fr))
                if r is True:
                    return True
            return r
        if isinstance(p, ast.MatchSequence):
            if not isinstance(v, (tuple, list)):
                return False
            if any(isinstance(e, ast.MatchStar) for e in p.patterns):
                raise Unsupported('star pattern')
            if len(v) != len(p.patterns):
                return False
            r = True
            for sp, sv in zip(p.patterns, v):
                r = self.and_(r, self.match_pattern(sp, sv, binds, fr))
                if r is False:
                    return False
            return r
        if isinstance(p, ast.MatchClass):
            cls = self.eval(p.cls, fr)
            r = self.isinstance_(v, cls)
            if not r:
                return False
            if p.patterns:
                raise Unsupported('positional class pattern')
            res = True
            for an, ap in zip(p.kwd_attrs, p.kwd_patterns):
                res = self.and_(res, self.match_pattern(ap, self.getattr(v, an), binds, fr))
            return res
        raise Unsupported(f'pattern {type(p).__name__}')


class ModuleRef:
    def __init__(self, mod):
        self.mod = mod

    def __repr__(self):
        return f'<modref {self.mod.name}>'


class _Auto:
    """enum.auto()"""

    def resolve(self, ci, name, idx):
        if ci.enum_kind == 'str':
            return name.lower()
        return idx + 1


def _decname(d):
    if isinstance(d, ast.Call):
        d = d.func
    if isinstance(d, ast.Name):
        return d.id
    if isinstance(d, ast.Attribute):
        return _decname(d.value) + '.' + d.attr
    return '?'
