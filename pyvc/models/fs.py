"""pathlib.Path over a ghost file system (assumed model, see DESIGN 1.7)."""
from __future__ import annotations

from ..source import Unsupported
from ..values import FStr, Model


class GhostFS:
    """exists / is_dir facts decided by the contract (concrete sets or symbolic oracle)."""

    def __init__(self):
        self.files = set()
        self.dirs = set()
        self.oracle = None     # callable(kind, pathstr) -> bool|z3 Bool, for symbolic existence

    def exists(self, p):
        if self.oracle is not None:
            return self.oracle('exists', p)
        return p in self.files or p in self.dirs

    def is_dir(self, p):
        if self.oracle is not None:
            return self.oracle('is_dir', p)
        return p in self.dirs

    def is_file(self, p):
        if self.oracle is not None:
            return self.oracle('is_file', p)
        return p in self.files


class PathVal(Model):
    type_names = ('pathlib.Path', 'os.PathLike', 'pathlib.PurePath')

    def __init__(self, s, resolved=False):
        self.s = s       # str or FStr
        self.resolved = resolved

    @staticmethod
    def of(s):
        return PathVal(s)

    def _key(self):
        return self.s if isinstance(self.s, str) else repr(self.s)

    def __eq__(self, o):
        return isinstance(o, PathVal) and self._key() == o._key()

    def __hash__(self):
        return hash(('Path', self._key()))

    def __repr__(self):
        return f'Path({self._key()!r})'

    def py_str(self, I):
        return self.s

    def py_cmp(self, I, op, o):
        if op in ('==', '!='):
            r = isinstance(o, PathVal) and self._key() == o._key()
            return r if op == '==' else not r
        return NotImplemented

    def py_binop(self, I, op, other, reflected):
        if op == 'Div':
            o = other.s if isinstance(other, PathVal) else other
            if reflected:
                a, b = o, self.s
            else:
                a, b = self.s, o
            if isinstance(a, str) and isinstance(b, str):
                if b.startswith('/'):
                    return PathVal(b)
                return PathVal(a.rstrip('/') + '/' + b)
            pa = a.parts if isinstance(a, FStr) else [a]
            pb = b.parts if isinstance(b, FStr) else [b]
            return PathVal(FStr(pa + ['/'] + pb))
        return NotImplemented

    def py_getattr(self, I, name):
        from ..values import Builtin
        fs = I.hooks.get('fs')
        if name == 'parent':
            if isinstance(self.s, str):
                import posixpath
                return PathVal(posixpath.dirname(self.s.rstrip('/')) or ('/' if self.s.startswith('/') else '.'))
            return PathVal(FStr(['dirname('] + self.s.parts + [')']))
        if name == 'name':
            if isinstance(self.s, str):
                import posixpath
                return posixpath.basename(self.s.rstrip('/'))
            return FStr(['basename('] + self.s.parts + [')'])
        if name == 'suffix':
            if isinstance(self.s, str):
                import posixpath
                return posixpath.splitext(self.s)[1]
            raise Unsupported('suffix of symbolic path')
        if name == 'resolve':
            return Builtin('Path.resolve', lambda strict=False: PathVal(self.s, resolved=True))
        if name == 'is_absolute':
            return Builtin('Path.is_absolute', lambda: isinstance(self.s, str) and self.s.startswith('/'))
        if name in ('exists', 'is_dir', 'is_file'):
            if fs is None:
                raise Unsupported('file-system query without a ghost file system')
            return Builtin('Path.' + name, lambda: getattr(fs, name)(self._key()))
        if name == '__fspath__':
            return Builtin('fspath', lambda: self.s)
        if name == 'stat':
            # os.stat_result of the ghost file: size / modification time are whatever the file has now - one symbolic
            # integer per path and per generation of the file (the contract bumps hooks['fs_generation'][path] when it rewrites it)
            def stat(**kw):
                import z3
                gen = I.hooks.setdefault('fs_generation', {}).get(self._key(), 0)
                tag = f'{self._key()}#{gen}'
                return StatResult({f: z3.Int(f'stat_{f}({tag})') for f in ('st_mtime_ns', 'st_size', 'st_ino', 'st_mtime', 'st_ctime_ns')})
            return Builtin('Path.stat', stat)
        raise Unsupported(f'Path.{name}')


class StatResult(Model):
    def __init__(self, fields):
        self.fields = fields

    def py_getattr(self, I, name):
        if name in self.fields:
            return self.fields[name]
        raise Unsupported('os.stat_result.' + name)
