"""Symbolic sequences: 1-D numpy arrays and Python lists of symbolic length, as lambda-arrays.

``SArr(length, fn)``: ``length`` is an int or z3 Int; ``fn(k)`` gives the element at (z3 Int or
int) position k.  Element-wise numpy is composition of the element functions; no array is ever
unrolled to a bound.  2-D arrays are unsupported.
"""
from __future__ import annotations

from fractions import Fraction

import z3

from ..source import Unsupported
from ..values import Model, is_num, is_sym, to_real, to_z3

R = z3.RealSort()
Z = z3.IntSort()


class SArr(Model):
    type_names = ()

    def __init__(self, length, fn, kind='ndarray', scalar_like=False, dtype=None):
        self.length = length
        self.fn = fn
        self.kind = kind           # ndarray | list | range
        self.scalar_like = scalar_like
        self.dtype = dtype

    # -- construction ------------------------------------------------------------------------
    @staticmethod
    def from_list(items, kind='ndarray'):
        items = list(items)

        def fn(k):
            if isinstance(k, int):
                return items[k]
            k2 = z3.simplify(k)
            if z3.is_int_value(k2):
                return items[k2.as_long()]
            if not items:
                raise Unsupported('element of empty sequence')
            r = items[-1]
            for i in range(len(items) - 2, -1, -1):
                r = _ite(k == i, items[i], r)
            return r
        return SArr(len(items), fn, kind=kind)

    @staticmethod
    def symbolic(ctx, name, length, sort=R, kind='ndarray', where=None):
        """A symbolic array.  `where(v)` is a per-element precondition: it is instantiated for every
        index term at which an element is read (instantiation by use, no quantifier in the path condition)."""
        f = z3.Function(name, Z, sort)
        ctx.named['array:' + name] = (f, length)

        def fn(k):
            kz = to_z3(k)
            v = f(kz)
            if where is not None:
                ctx.axiom(z3.Implies(z3.And(kz >= 0, kz < to_z3(length)), where(v)))
            return v
        return SArr(length, fn, kind=kind, dtype=('int' if sort == Z else None))

    def snapshot(self):
        """The array's content *now* (later in-place updates of the original are not seen)."""
        return SArr(self.length, self.fn, kind=self.kind, scalar_like=self.scalar_like, dtype=self.dtype)

    def as_kind(self, kind):
        return SArr(self.length, self.fn, kind=kind, dtype=self.dtype)

    def at(self, k):
        # memoised per index term: element functions are pure (and may be expensive: each
        # evaluation can ask the solver about definedness)
        memo = self.__dict__.setdefault('_memo', {})
        key = (id(self.fn), k if isinstance(k, int) else ('z', k.get_id()))
        if key not in memo:
            memo[key] = (self.fn(k), k)      # keep k alive so that its id is not reused
        return memo[key][0]

    def map(self, f):
        g = self.fn
        return SArr(self.length, lambda k: f(g(k)), kind=self.kind)

    def same_len(self, other):
        if isinstance(self.length, int) and isinstance(other.length, int):
            return self.length == other.length
        return z3.eq(z3.simplify(to_z3(self.length)), z3.simplify(to_z3(other.length)))

    def concat(self, other):
        a, b = self, other
        n = a.length
        return SArr(_add(a.length, b.length),
                    lambda k: _ite(to_z3(k) < to_z3(n), a.at(k), b.at(to_z3(k) - to_z3(n)))
                    if not (isinstance(k, int) and isinstance(n, int)) else (a.at(k) if k < n else b.at(k - n)),
                    kind=a.kind)

    # -- python protocol -----------------------------------------------------------------------
    def py_len(self, I):
        return self.length

    def norm_index(self, I, idx):
        """python index (negative allowed) -> position, with IndexError fork."""
        n = self.length
        if isinstance(idx, int) and isinstance(n, int):
            if idx < -n or idx >= n:
                I.raise_('IndexError', 'index out of range')
            return idx + n if idx < 0 else idx
        zi, zn = to_z3(idx), to_z3(n)
        if I.ctx.branch(z3.Or(zi >= zn, zi < -zn)):
            I.raise_('IndexError', 'index out of range')
        if isinstance(idx, int):
            return idx if idx >= 0 else z3.simplify(zn + idx)
        return z3.If(zi < 0, zi + zn, zi)

    def py_getitem(self, I, idx):
        if isinstance(idx, slice):
            return self.slice(I, idx)
        if isinstance(idx, SArr):
            return self.mask_or_fancy(I, idx)
        if isinstance(idx, tuple):
            raise Unsupported('multi-dimensional index')
        if isinstance(idx, z3.BoolRef) or isinstance(idx, bool):
            raise Unsupported('boolean scalar index')
        from ..values import EnumMember
        if isinstance(idx, EnumMember):
            idx = idx.value
        return self.at(self.norm_index(I, idx))

    def slice(self, I, sl):
        if sl.step == -1 and sl.start is None and sl.stop is None:
            g, n = self.fn, self.length
            return SArr(n, lambda k: g(_sub(_sub(n, 1), k)), kind=self.kind)
        if sl.step not in (None, 1):
            raise Unsupported('slice with step')
        n = self.length
        lo = _clamp_index(sl.start, n, 0)
        hi = _clamp_index(sl.stop, n, n)
        if isinstance(lo, int) and isinstance(hi, int):
            ln = max(0, hi - lo)
        else:
            zl, zh = to_z3(lo), to_z3(hi)
            ln = z3.If(zh > zl, zh - zl, 0)
        g = self.fn
        child = SArr(ln, lambda k: g(_add(k, lo)), kind=self.kind)
        # remember what this is a window of (for prefix-sum reasoning): (element function, offset)
        par = getattr(self, 'parent', None)
        child.parent = (par[0], _add(par[1], lo)) if par is not None else (g, lo)
        return child

    def mask_or_fancy(self, I, idx):
        # a[mask]: a view of the elements where mask holds (its length is data dependent, so it
        # stays attached to its mask: element-wise results can only be assigned back through the
        # same mask, which is how the verified code uses it)
        if not isinstance(idx, MaskedView):
            probe = idx.at(0) if isinstance(idx.length, int) and idx.length > 0 else (idx.at(z3.Int('fancy_probe')) if not isinstance(idx.length, int) else None)
            if probe is not None and not isinstance(probe, bool) and not z3.is_bool(probe) and (isinstance(probe, int) or (z3.is_expr(probe) and probe.sort() == Z)):
                # integer index array: gather (numpy fancy indexing); negative indices wrap as in numpy
                base, n = self.snapshot(), self.length

                def g(k):
                    i = to_z3(idx.at(k))
                    return base.at(z3.If(i < 0, i + to_z3(n), i))
                return SArr(idx.length, g, kind='ndarray')
            if isinstance(idx.length, int) and idx.length == 0:
                return SArr(0, lambda k: Fraction(0), kind='ndarray')
        return MaskedView(self, idx)

    def py_setitem(self, I, idx, val):
        old = self.fn
        n = self.length
        if getattr(self, 'parent', None) is not None and self.kind == 'ndarray':
            # a basic slice of an ndarray is a *view*: writing through it also changes the array it was taken from.  The value
            # layer treats slices as copies, so such a write is outside the modelled subset (never silently mis-modelled)
            raise Unsupported('in-place write through a slice (numpy view) of another array: aliasing between the view and its base is not modelled')
        if self.dtype == 'int':
            # assignment into an integer array truncates towards zero
            def trunc(x):
                if isinstance(x, int) or (isinstance(x, z3.ArithRef) and x.is_int()):
                    return x
                xr = to_real(x)
                return z3.If(xr >= 0, z3.ToInt(xr), -z3.ToInt(-xr))
            if isinstance(val, MaskedView):
                val = val.map(trunc)
            elif isinstance(val, SArr):
                src = val
                val = SArr(src.length, lambda k: trunc(src.at(k)), kind=src.kind)
            elif is_num(val):
                val = trunc(val)
            else:
                raise Unsupported('assignment of a non-number into an integer array')
        if isinstance(idx, slice):
            if idx.step not in (None, 1):
                raise Unsupported('slice with step')
            lo = _clamp_index(idx.start, n, 0)
            hi = _clamp_index(idx.stop, n, n)
            if isinstance(val, SArr):
                v = val
                self.fn = lambda k: _ite(z3.And(to_z3(k) >= to_z3(lo), to_z3(k) < to_z3(hi)), v.at(_sub(k, lo)), old(k))
            else:
                self.fn = lambda k: _ite(z3.And(to_z3(k) >= to_z3(lo), to_z3(k) < to_z3(hi)), val, old(k))
            return
        if isinstance(idx, SArr):       # boolean mask assignment  a[mask] = v
            m = idx
            if isinstance(val, MaskedView):
                if val.mask is not m and not val.same_mask(m):
                    raise Unsupported('mask assignment from a view taken through a different mask')
                v = val

                def fn(k):
                    c = _as_bool(m.at(k))
                    if isinstance(c, bool):
                        return v.at(k) if c else old(k)
                    # the masked element is only evaluated where the mask holds (lazily, under
                    # that assumption): this is what keeps log10 of a masked-out zero from counting
                    ok, x = I.try_pure(lambda: v.at(k), assuming=c)
                    if not ok:
                        raise Unsupported('masked element expression is not total under its mask')
                    return _ite(c, x, old(k))
                self.fn = fn
                return
            if isinstance(val, SArr):
                raise Unsupported('mask assignment from an array')
            self.fn = lambda k: _ite(_as_bool(m.at(k)), val, old(k))
            return
        pos = self.norm_index(I, idx)
        if isinstance(pos, int):
            self.fn = lambda k: (val if k == pos else old(k)) if isinstance(k, int) else _ite(to_z3(k) == pos, val, old(k))
        else:
            self.fn = lambda k: _ite(to_z3(k) == pos, val, old(k))

    def py_iter(self, I):
        return I.iterate(self)

    def py_binop(self, I, op, other, reflected):
        return elementwise(I, op, other, self) if reflected else elementwise(I, op, self, other)

    def py_getattr(self, I, name):
        from ..values import Builtin
        if name == 'shape':
            return (self.length,)
        if name == 'size':
            return self.length
        if name == 'ndim':
            return 1
        if name == 'dtype':
            return self.dtype
        if name == 'copy':
            g = self.fn
            return Builtin('ndarray.copy', lambda: SArr(self.length, g, kind=self.kind, dtype=self.dtype))
        if name == 'sum':
            return Builtin('ndarray.sum', lambda: array_sum(I, self))
        if name == 'all':
            return Builtin('ndarray.all', lambda: array_all(I, self))
        if name == 'any':
            return Builtin('ndarray.any', lambda: array_any(I, self))
        if name in ('max', 'min'):
            def mx(**kw):
                hook = I.hooks.get('array_' + name)
                if hook is not None:
                    r = hook(self)
                    if r is not None:
                        return r
                if isinstance(self.length, int):
                    return I.builtins[name].fn([self.at(i) for i in range(self.length)])
                raise Unsupported(f'ndarray.{name} of a symbolic-length array (no bound supplied by the contract)')
            return Builtin('ndarray.' + name, mx)
        if name == 'astype':
            return Builtin('ndarray.astype', lambda t, **k: self)
        if name == 'tolist':
            return Builtin('ndarray.tolist', lambda: self.as_kind('list'))
        if name == 'nbytes':
            return I.binop('Mult', self.length, 8)
        if name == 'append' and self.kind == 'list':
            def append(v):
                n = self.length
                old = self.fn
                self.length = _add(n, 1)
                self.fn = lambda k: _ite(to_z3(k) == to_z3(n), v, old(k))
            return Builtin('list.append', append, pure=False)
        if name == 'fill':
            def fill(v):
                self.fn = lambda k: v
            return Builtin('ndarray.fill', fill, pure=False)
        if name == 'reshape' and self.kind == 'ndarray':
            def reshape(*shape):
                if len(shape) == 1 and isinstance(shape[0], tuple):
                    shape = shape[0]
                if len(shape) != 2:
                    raise Unsupported('reshape to other than two dimensions')
                a, b = shape
                if not I.ctx.entails(to_z3(a) * to_z3(b) == to_z3(self.length)):
                    I.raise_('ValueError', 'cannot reshape array into the requested shape')
                g = self.snapshot()
                return Grid2(a, b, lambda i, j: to_real(g.at(i * to_z3(b) + j)))       # row-major (C order)
            return Builtin('ndarray.reshape', reshape)
        raise Unsupported(f'ndarray.{name}')


class Grid2(Model):
    """A 2-D float array G[i, j] (numpy) as a function of two indices."""
    type_names = ('numpy.ndarray',)

    def __init__(self, ni, nj, fn):
        self.ni, self.nj, self.fn = ni, nj, fn

    def py_setitem(self, I, idx, val):
        if not (isinstance(idx, tuple) and len(idx) == 2):
            raise Unsupported('grid assignment that is not G[i, j] = v')
        i0, j0 = to_z3(idx[0]), to_z3(idx[1])
        if I.ctx.branch(z3.Or(i0 < 0, i0 >= to_z3(self.ni), j0 < 0, j0 >= to_z3(self.nj))):
            I.raise_('IndexError', 'index out of bounds for the grid')
        old = self.fn
        v = to_real(val)
        self.fn = lambda i, j: z3.If(z3.And(i == i0, j == j0), v, old(i, j))

    def py_getattr(self, I, name):
        if name == 'T':
            f = self.fn
            return Grid2(self.nj, self.ni, lambda i, j: f(j, i))
        if name == 'shape':
            return (self.ni, self.nj)
        raise Unsupported('2-D ndarray.' + name)

    def at(self, i, j):
        return self.fn(to_z3(i), to_z3(j))


class MaskedView(SArr):
    """a[mask] -- elements of `base` at the positions where `mask` holds (position-wise access)."""

    def __init__(self, base, mask, fn=None):
        self.base, self.mask = base, mask
        super().__init__(base.length, fn or base.fn, kind='ndarray')

    def same_mask(self, m):
        if self.mask is m:
            return True
        # two masks computed separately from the same expression (a[~c] = f(b[~c])): the same mask if their elements are
        # the same term at a generic position
        try:
            if isinstance(m, SArr) and self.mask.same_len(m):
                k = z3.Int('mask_probe_position')
                a, b = _as_bool(self.mask.at(k)), _as_bool(m.at(k))
                if isinstance(a, bool) or isinstance(b, bool):
                    return a is b
                return z3.eq(z3.simplify(a), z3.simplify(b))
        except Exception:   # noqa
            pass
        return False

    def map(self, f):
        g = self.fn
        return MaskedView(self.base, self.mask, lambda k: f(g(k)))

    def py_binop(self, I, op, other, reflected):
        g = self.fn
        if isinstance(other, MaskedView):
            if other.mask is not self.mask and not self.same_mask(other.mask):
                raise Unsupported('operation on views through different masks')
            o = other.fn
            if reflected:
                return MaskedView(self.base, self.mask, lambda k: I.binop(op, o(k), g(k)))
            return MaskedView(self.base, self.mask, lambda k: I.binop(op, g(k), o(k)))
        if isinstance(other, SArr):
            raise Unsupported('masked view combined with a full array')
        if reflected:
            return MaskedView(self.base, self.mask, lambda k: I.binop(op, other, g(k)))
        return MaskedView(self.base, self.mask, lambda k: I.binop(op, g(k), other))

    def py_len(self, I):
        raise Unsupported('length of a masked view')


class MaybeInf:
    """np.inf where `cond` holds, else `val` (what np.where(c, np.inf, x) produces); only supported as a divisor:
    a / inf = 0."""

    def __init__(self, cond, val):
        self.cond, self.val = cond, val


def _ite(c, a, b):
    if isinstance(c, bool):
        return a if c else b
    c2 = z3.simplify(c)
    if z3.is_true(c2):
        return a
    if z3.is_false(c2):
        return b
    if a is b:
        return a
    if isinstance(a, (bool, z3.BoolRef)) and isinstance(b, (bool, z3.BoolRef)):
        return z3.If(c2, to_z3(a), to_z3(b))
    if is_num(a) and is_num(b):
        za, zb = to_z3(a), to_z3(b)
        if za.sort() != zb.sort():
            za, zb = to_real(za), to_real(zb)
        return z3.If(c2, za, zb)
    if a is None and b is None:
        return None
    from . import INF
    if a is INF and b is not INF:
        return MaybeInf(c2, b)
    if b is INF and a is not INF:
        return MaybeInf(z3.Not(c2), a)
    from ..values import EnumMember, SymEnum, NPStr
    ea, eb = _enum_ord(a), _enum_ord(b)
    if ea is not None and eb is not None and ea[0] is eb[0]:
        return SymEnum(ea[0], z3.If(c2, ea[1], eb[1]))
    raise Unsupported(f'conditional element of non-scalar type ({type(a).__name__}/{type(b).__name__})')


def _enum_ord(v):
    from ..values import EnumMember, SymEnum
    if isinstance(v, EnumMember):
        return v.cls, z3.IntVal(v.index)
    if isinstance(v, SymEnum):
        return v.cls, v.ord
    from ..values import NPStr
    if isinstance(v, NPStr) and v.member is not None:
        # numpy strings made from members of one string enum: a conditional element is represented like np.select's
        return v.member.cls, z3.IntVal(v.member.index)
    return None


def _as_bool(v):
    if isinstance(v, (bool, z3.BoolRef)):
        return v
    if is_sym(v):
        return v != 0
    return bool(v)


def _add(a, b):
    if isinstance(a, int) and isinstance(b, int):
        return a + b
    return z3.simplify(to_z3(a) + to_z3(b))


def _sub(a, b):
    if isinstance(a, int) and isinstance(b, int):
        return a - b
    return z3.simplify(to_z3(a) - to_z3(b))


def _clamp_index(i, n, default):
    """slice bound semantics: negative counts from the end, clamped to [0, n]."""
    if i is None:
        return default
    if isinstance(i, int) and isinstance(n, int):
        if i < 0:
            i += n
        return min(max(i, 0), n)
    zi, zn = to_z3(i), to_z3(n)
    j = z3.If(zi < 0, zi + zn, zi)
    return z3.simplify(z3.If(j < 0, 0, z3.If(j > zn, zn, j)))


def broadcast_len(I, a, b):
    if not isinstance(a, SArr):
        return b.length
    if not isinstance(b, SArr):
        return a.length
    if a.same_len(b):
        return a.length
    la, lb = a.length, b.length
    if isinstance(la, int) and la == 1:
        return lb
    if isinstance(lb, int) and lb == 1:
        return la
    if isinstance(la, int) and isinstance(lb, int):
        I.raise_('ValueError', f'operands could not be broadcast together with shapes ({la},) ({lb},)')
    # symbolic lengths: equal lengths are a proof obligation of the caller's contract
    if I.ctx.entails(to_z3(la) == to_z3(lb)):
        return la
    if I.ctx.branch(to_z3(la) != to_z3(lb)):
        I.raise_('ValueError', 'operands could not be broadcast together')
    return la


def _elem(x, k):
    if isinstance(x, SArr):
        if isinstance(x.length, int) and x.length == 1:
            return x.at(0)
        return x.at(k)
    return x


def _snap(x):
    return x.snapshot() if isinstance(x, SArr) and not isinstance(x, MaskedView) else x


def elementwise(I, op, a, b):
    a, b = _snap(a), _snap(b)
    if isinstance(a, MaskedView):
        return a.py_binop(I, op, b, False)
    if isinstance(b, MaskedView):
        return b.py_binop(I, op, a, True)
    n = broadcast_len(I, a, b)
    # definedness of division is checked for a generic index (forall k): fork on exists-bad
    if op in ('Div', 'FloorDiv', 'Mod'):
        k = I.ctx.fresh('k', Z)
        I.ctx.assume(z3.And(k >= 0, k < to_z3(n)))
        d = _elem(b, k)
        if isinstance(d, MaybeInf):
            I.ctx.assume(z3.Not(d.cond))
            d = d.val
        cur = I.hooks.get('cur_func')
        if is_sym(d) and cur in I.hooks.get('assume_defined', {}):
            # the contract assumes this function's array divisions are defined on its input range
            I.ctx.notes.append(f'array division in {cur} assumed defined: ' + I.hooks['assume_defined'][cur])
        elif is_sym(d):
            if I.ctx.branch(to_z3(d) == 0):
                I.raise_('NonFiniteResult', 'array division by zero')
            else:
                # no element is zero: make it available for every index
                I.hooks.setdefault('nonzero_arrays', []).append(b)
        elif d == 0:
            I.raise_('NonFiniteResult', 'array division by zero')

        def fn(k2):
            x, y = _elem(a, k2), _elem(b, k2)
            if isinstance(y, MaybeInf) and op == 'Div':
                return z3.If(y.cond, z3.RealVal(0), to_real(x) / to_real(y.val))
            if is_sym(x) or is_sym(y):
                if op == 'Div':
                    return to_real(x) / to_real(y)
                I.ctx.pure_depth += 1
                try:
                    return I.sym_binop(op, x, y)
                finally:
                    I.ctx.pure_depth -= 1
            return I.concrete_binop(op, x, y)
        return SArr(n, fn)

    if op == 'Pow':
        # definedness of a real power is checked once, for a generic index; elements are then
        # computed without further case splits
        k = I.ctx.fresh('k', Z)
        I.ctx.assume(z3.And(k >= 0, k < to_z3(n)))
        I.binop('Pow', _elem(a, k), _elem(b, k))
        from . import mathfn

        def fn(k2):
            mathfn.UNCHECKED[0] += 1
            try:
                return I.binop(op, _elem(a, k2), _elem(b, k2))
            finally:
                mathfn.UNCHECKED[0] -= 1
        return SArr(n, fn)

    def fn(k2):
        return I.binop(op, _elem(a, k2), _elem(b, k2))
    kind = 'ndarray'
    return SArr(n, fn, kind=kind)


def elementwise_cmp(I, op, a, b):
    a, b = _snap(a), _snap(b)
    n = broadcast_len(I, a, b)
    return SArr(n, lambda k: I.compare(op, _elem(a, k), _elem(b, k)))


# ---- reductions ---------------------------------------------------------------------------------
# Sum(a, lo, hi) is an uninterpreted "sum of f over [lo, hi)" with the recursive unfolding given as
# instances; the lemma library (sumlib) is proved by induction on every run.

_SUM_CACHE = {}


def array_sum(I, arr: SArr):
    from . import sumlib
    return sumlib.sum_of(I, arr, 0, arr.length)


def _generic_element(I, arr):
    """True / False if the Boolean array's element at a fresh generic index is entailed true / false under the
    path condition (element preconditions are instantiated by reading it); None otherwise."""
    k = I.ctx.fresh('k', Z)
    n = to_z3(arr.length)
    I.ctx.solver.push()
    I.ctx.light.push()
    saved = len(I.ctx.pc)
    try:
        I.ctx.assume(z3.And(k >= 0, k < n))
        c = _as_bool(arr.at(k))
        if isinstance(c, bool):
            return c
        if I.ctx.entails(c):
            return True
        if I.ctx.entails(z3.Not(c)):
            return False
        return None
    finally:
        del I.ctx.pc[saved:]
        I.ctx.solver.pop()
        I.ctx.light.pop()


def array_all(I, arr: SArr):
    if getattr(arr, 'const_value', None) is True:
        return True
    n = arr.length
    if isinstance(n, int):
        r = True
        for i in range(n):
            r = I.and_(r, _as_bool(arr.at(i)))
        return r
    g = _generic_element(I, arr)
    if g is True:
        return True          # holds for a generic index, hence for all
    k = z3.Int('k!all%d' % I.ctx.fresh_counter)
    I.ctx.fresh_counter += 1
    return z3.ForAll([k], z3.Implies(z3.And(k >= 0, k < to_z3(n)), to_z3(_as_bool(arr.at(k)))))


def array_any(I, arr: SArr):
    if getattr(arr, 'const_value', None) is False:
        return False
    n = arr.length
    if isinstance(n, int):
        r = False
        for i in range(n):
            r = I.or_(r, _as_bool(arr.at(i)))
        return r
    g = _generic_element(I, arr)
    if g is False:
        return False         # fails for a generic index, hence for every index
    k = z3.Int('k!any%d' % I.ctx.fresh_counter)
    I.ctx.fresh_counter += 1
    return z3.Exists([k], z3.And(k >= 0, k < to_z3(n), to_z3(_as_bool(arr.at(k)))))
