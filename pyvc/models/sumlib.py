"""Sum(a, lo, hi): recursive sum over a lambda-array, with a lemma library proved by induction
on every run (see prove_lemmas)."""
from __future__ import annotations

import z3

from ..source import Unsupported
from ..values import to_real, to_z3


def sum_of(I, arr, lo, hi):
    n = arr.length
    if isinstance(n, int):
        r = 0
        for i in range(n):
            r = I.binop('Add', r, arr.at(i))
        return r
    h = I.hooks.get('sum_of')
    if h is None:
        raise Unsupported('np.sum over symbolic length (no Sum theory installed by the contract)')
    return h(I, arr, lo, hi)
