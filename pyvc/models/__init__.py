"""Library models (assumed contracts of external functions; every one used is listed in the
evidence as part of the trusted base)."""
from __future__ import annotations

from fractions import Fraction

import z3

from ..rt import MISSING
from ..source import Unsupported
from ..values import (BUILTIN_EXCS, Builtin, EnumMember, Ext, FStr, Model, NPStr, Obj, is_num,
                      is_sym, to_real, to_z3)
from . import mathfn
from .arrays import SArr, array_all, array_any, array_sum, elementwise
from .fs import PathVal

USED = set()


def default_models():
    m = {}

    def reg(name, fn=None):
        def deco(f):
            def wrapped(I, *a, **k):
                USED.add(name)
                return f(I, *a, **k)
            m[name] = wrapped
            return f
        if fn is not None:
            return deco(fn)
        return deco

    # ---- enum / dataclasses / typing / abc -------------------------------------------------------
    from ..stmts import _Auto
    from ..builtins_ import FieldSpec
    reg('enum.auto', lambda I: _Auto())
    reg('dataclasses.field', lambda I, **k: FieldSpec(**k))
    reg('pydantic.Field', lambda I, *a, **k: FieldSpec(*(a[:1]), **k))
    reg('pydantic.PrivateAttr', lambda I, *a, **k: FieldSpec(*(a[:1]), **k))
    reg('typing.cast', lambda I, t, v: v)
    reg('typing.TypeVar', lambda I, *a, **k: None)
    reg('pydantic.ConfigDict', lambda I, **k: dict(k))
    reg('functools.cache', lambda I, f: f)
    reg('functools.wraps', lambda I, f: Builtin('wraps', lambda g: g))

    # ---- collections.abc.Mapping mixin methods (defined by the ABC in terms of __getitem__ / __iter__ / __len__)
    def _map_keys(I, o):
        return list(I.iterate(o))

    def _map_items(I, o):
        return [(k, I.getitem(o, k)) for k in I.iterate(o)]

    def _map_eq(I, o, other):
        from ..rt import NotImplementedVal
        if isinstance(other, dict):
            od = list(other.items())
        elif isinstance(other, Obj) and any(b.name == 'collections.abc.Mapping' for b in other.cls.ext_bases()):
            od = _map_items(I, other)
        else:
            return NotImplementedVal
        mine = _map_items(I, o)
        if len(mine) != len(od):
            return False
        r = True
        for k, v in mine:
            match = [v2 for k2, v2 in od if I.truth(I.compare('==', k, k2))]
            if not match:
                return False
            r = I.and_(r, I.compare('==', v, match[0]))
        return r
    for _b in ('collections.abc.Mapping', 'typing.Mapping'):
        reg(f'method:{_b}.keys', lambda I, o: _map_keys(I, o))
        reg(f'method:{_b}.items', lambda I, o: _map_items(I, o))
        reg(f'method:{_b}.values', lambda I, o: [v for k, v in _map_items(I, o)])
        reg(f'method:{_b}.get', lambda I, o, k, d=None: I.getitem(o, k) if I.truth(I.contains(o, k)) else d)
        reg(f'method:{_b}.__eq__', _map_eq)
        reg(f'method:{_b}.__ne__', lambda I, o, other: I.not_(_map_eq(I, o, other)))

    def _dc_fields(I, o):
        cls = o.cls if isinstance(o, Obj) else o
        out = []
        for n in cls.all_fields():
            fo = Obj(cls)
            fo.attrs = {'name': n}
            out.append(FieldName(n))
        return out
    reg('dataclasses.fields', _dc_fields)

    def _dc_replace(I, o, **k):
        new = Obj(o.cls)
        new.attrs = dict(o.attrs)
        new.attrs.update(k)
        return new
    reg('dataclasses.replace', _dc_replace)

    def _asdict(I, o):
        return {n: o.attrs[n] for n in o.cls.all_fields()}
    reg('dataclasses.asdict', _asdict)

    # ---- warnings / logging / gc: no-ops (dropped, reported) ---------------------------------------
    reg('warnings.warn', lambda I, *a, **k: I.hooks.setdefault('warnings', []).append(a))
    reg('gc.collect', lambda I, *a: 0)
    reg('copy.copy', lambda I, v: _shallow(I, v))
    reg('copy.deepcopy', lambda I, v: _deep(I, v))

    # ---- math / numpy scalar & element-wise functions ----------------------------------------------
    m['const:math.pi'] = lambda I: _pi(I)
    m['const:numpy.pi'] = lambda I: _pi(I)
    m['const:numpy.nan'] = lambda I: (_ for _ in ()).throw(Unsupported('numpy.nan'))
    m['const:numpy.inf'] = lambda I: INF
    m['const:math.inf'] = lambda I: INF

    def lift(fn):
        def f(I, x, *rest, **kw):
            if isinstance(x, SArr):
                # definedness once, for a generic index (under the mask for a masked view); the
                # element function is then evaluated without further case splits
                from .arrays import MaskedView, _as_bool
                k = I.ctx.fresh('k', z3.IntSort())
                I.ctx.assume(z3.And(k >= 0, k < to_z3(x.length)))
                if isinstance(x, MaskedView):
                    mk = _as_bool(x.mask.at(k))
                    if not isinstance(mk, bool):
                        ok, _ = I.try_pure(lambda: fn(I, x.at(k), *rest), assuming=mk)
                        if not ok:
                            I.raise_('NonFiniteResult', 'function applied outside its domain under the mask')
                    elif mk:
                        fn(I, x.at(k), *rest)
                else:
                    fn(I, x.at(k), *rest)

                def elem(e):
                    mathfn.UNCHECKED[0] += 1
                    try:
                        return fn(I, e, *rest)
                    finally:
                        mathfn.UNCHECKED[0] -= 1
                return x.map(elem)
            if isinstance(x, list):
                return SArr.from_list(x).map(lambda e: fn(I, e, *rest))
            return fn(I, x, *rest)
        return f

    def _deg2rad(I, x):
        return I.binop('Div', I.binop('Mult', to_real(x), _pi(I)), 180)

    def _rad2deg(I, x):
        return I.binop('Div', I.binop('Mult', to_real(x), 180), _pi(I))
    for mod in ('numpy', 'math'):
        reg(mod + '.cos', lift(lambda I, x: mathfn.cos(I, x)))
        reg(mod + '.sin', lift(lambda I, x: mathfn.sin(I, x)))
        reg(mod + '.exp', lift(lambda I, x: mathfn.exp(I, x)))
        reg(mod + '.sqrt', lift(lambda I, x: mathfn.sqrt(I, x) if is_sym(x) else _csqrt(I, x)))
        reg(mod + '.log', lift(lambda I, x: mathfn.log(I, x)))
        reg(mod + '.log10', lift(lambda I, x: mathfn.log(I, x, base='10')))
    reg('numpy.deg2rad', lift(_deg2rad))
    reg('numpy.radians', lift(_deg2rad))
    reg('math.radians', lift(_deg2rad))
    reg('numpy.rad2deg', lift(_rad2deg))
    reg('numpy.degrees', lift(_rad2deg))
    reg('math.degrees', lift(_rad2deg))
    reg('numpy.abs', lift(lambda I, x: I.builtins['abs'].fn(x)))
    def _sign(I, x):
        if is_sym(x):
            xr = to_real(x)
            return z3.If(xr > 0, z3.RealVal(1), z3.If(xr < 0, z3.RealVal(-1), z3.RealVal(0)))
        return Fraction((x > 0) - (x < 0))
    reg('numpy.sign', lift(_sign))
    reg('numpy.absolute', lift(lambda I, x: I.builtins['abs'].fn(x)))
    reg('math.fabs', lift(lambda I, x: I.builtins['abs'].fn(x)))
    reg('numpy.float64', lambda I, x=0: I.builtins['float'].fn(x))
    reg('numpy.float32', lambda I, x=0: I.builtins['float'].fn(x))
    reg('numpy.int64', lambda I, x=0: I.builtins['int'].fn(x))
    reg('numpy.int32', lambda I, x=0: I.builtins['int'].fn(x))
    def const_like(v):
        def f(I, x):
            if isinstance(x, SArr):
                a = SArr(x.length, lambda k: v)
                a.const_value = v
                return a
            return v
        return f
    reg('numpy.isnan', const_like(False))      # reals are never NaN (undefined operations fork instead)
    reg('numpy.isfinite', const_like(True))
    reg('numpy.isinf', const_like(False))
    reg('math.isnan', lambda I, x: False)
    reg('math.isfinite', lambda I, x: True)

    def _hypot(I, a, b):
        def h(x, y):
            s = I.binop('Add', I.binop('Mult', x, x), I.binop('Mult', y, y))
            return mathfn.sqrt(I, s) if is_sym(s) else _csqrt(I, s)
        if isinstance(a, SArr) or isinstance(b, SArr):
            from .arrays import broadcast_len, _elem
            n = broadcast_len(I, a, b)
            return SArr(n, lambda k: h(_elem(a, k), _elem(b, k)))
        return h(a, b)
    reg('numpy.hypot', _hypot)
    reg('math.hypot', _hypot)

    def _minimum(which):
        def f(I, a, b):
            def one(x, y):
                return I.builtins[which].fn(x, y)
            if isinstance(a, SArr) or isinstance(b, SArr):
                from .arrays import broadcast_len, _elem
                n = broadcast_len(I, a, b)
                return SArr(n, lambda k: one(_elem(a, k), _elem(b, k)))
            return one(a, b)
        return f
    def _clip(I, a, lo, hi):
        return _minimum('min')(I, _minimum('max')(I, a, lo), hi)
    reg('numpy.clip', _clip)

    def _divide(I, a, b, out=None, where=None):
        """np.divide(a, b, out=o, where=w): a/b where w holds, o elsewhere."""
        from .arrays import _elem, _ite, _as_bool, broadcast_len, _snap
        if where is None:
            return I.binop('Div', a, b)
        if isinstance(out, SArr) and out.dtype == 'int':
            I.raise_('TypeError', "Cannot cast ufunc 'divide' output from dtype('float64') to dtype('int64') with casting rule 'same_kind'")
        a, b, out, where = _snap(a), _snap(b), _snap(out), _snap(where)
        n = broadcast_len(I, a, b)
        k = I.ctx.fresh('k', z3.IntSort())
        I.ctx.assume(z3.And(k >= 0, k < to_z3(n)))
        wk = _as_bool(_elem(where, k))
        ok, _ = I.try_pure(lambda: I.binop('Div', _elem(a, k), _elem(b, k)), assuming=wk) if not isinstance(wk, bool) else (True, None)
        if not ok:
            I.raise_('NonFiniteResult', 'np.divide: division undefined where the mask holds')

        def fn(kk):
            w = _as_bool(_elem(where, kk))
            x, y = _elem(a, kk), _elem(b, kk)
            q = to_real(x) / to_real(y)
            return _ite(w, q, _elem(out, kk))
        return SArr(n, fn)
    reg('numpy.divide', _divide)

    def _diff(I, a, n=1, axis=-1, **kw):
        """np.diff(a): r[k] = a[k+1] - a[k], one element fewer (none for an empty or one-element array)."""
        if n != 1 or kw:
            raise Unsupported('np.diff with n/prepend/append')
        a = _array(I, a) if not isinstance(a, SArr) else a
        ln = to_z3(a.length) if not isinstance(a.length, int) else a.length
        m = max(ln - 1, 0) if isinstance(ln, int) else z3.If(ln >= 1, ln - 1, 0)
        return SArr(m, lambda k: I.binop('Sub', a.at(k + 1), a.at(k)))
    reg('numpy.diff', _diff)

    def _digitize(I, x, bins, right=False):
        """np.digitize(x, bins, right) for a bin list of concrete length: for non-decreasing bins the number of bins below x
        (right: strictly below), for decreasing bins the number of bins above x (right: at or above); bins that are neither
        are refused with ValueError, as numpy does."""
        bl = [to_real(b) for b in I.iterate(bins)]
        inc = z3.And(*[bl[i] <= bl[i + 1] for i in range(len(bl) - 1)]) if len(bl) > 1 else z3.BoolVal(True)
        dec = z3.And(*[bl[i] >= bl[i + 1] for i in range(len(bl) - 1)]) if len(bl) > 1 else z3.BoolVal(True)
        if I.truth(z3.simplify(inc)):
            cnt = (lambda v: z3.Sum([z3.If(b < v, 1, 0) for b in bl])) if right else (lambda v: z3.Sum([z3.If(b <= v, 1, 0) for b in bl]))
        elif I.truth(z3.simplify(dec)):
            cnt = (lambda v: z3.Sum([z3.If(b >= v, 1, 0) for b in bl])) if right else (lambda v: z3.Sum([z3.If(b > v, 1, 0) for b in bl]))
        else:
            I.raise_('ValueError', 'bins must be monotonically increasing or decreasing')
        if isinstance(x, SArr):
            return SArr(x.length, lambda k: cnt(to_real(x.at(k))))
        return cnt(to_real(x))
    reg('numpy.digitize', _digitize)

    def _np_copy(I, a, **kw):
        if isinstance(a, SArr):
            return I.call(I.getattr(a, 'copy'), [], {})
        return _array(I, a)
    reg('numpy.copy', _np_copy)

    def _array_equal(I, a, b, **kw):
        if a is b:
            return True
        if a is None or b is None:
            return False        # np.array_equal(x, None): shapes differ
        if isinstance(a, SArr) and isinstance(b, SArr) and a.fn is b.fn and \
                (a.length is b.length or (not is_sym(a.length) and not is_sym(b.length) and a.length == b.length) or
                 (is_sym(a.length) and is_sym(b.length) and z3.eq(to_z3(a.length), to_z3(b.length)))):
            return True         # an unmodified copy: the same element function over the same length
        if isinstance(a, SArr) and isinstance(b, SArr) and isinstance(a.length, int) and isinstance(b.length, int):
            if a.length != b.length:
                return False
            r = True
            for k in range(a.length):
                r = I.and_(r, I.compare('==', a.at(k), b.at(k)))
            return r
        if isinstance(a, SArr) and isinstance(b, SArr):
            # two arrays of symbolic length: the answer is a Boolean that implies equal lengths and equal elements (stated for one
            # generic index, an instance of the universal fact); its negation implies nothing that is used
            I.hooks['array_equal_count'] = I.hooks.get('array_equal_count', 0) + 1
            eq = I.ctx.fresh(f'arrays_equal_{I.hooks["array_equal_count"]}', z3.BoolSort())
            k = I.ctx.fresh('k', z3.IntSort())
            la, lb = to_z3(a.length), to_z3(b.length)
            try:
                elem = to_z3(a.at(k)) == to_z3(b.at(k))
            except Exception:   # noqa
                elem = z3.BoolVal(True)
            I.ctx.axiom(z3.Implies(eq, z3.And(la == lb, z3.Implies(z3.And(k >= 0, k < la), elem))))
            return eq
        raise Unsupported('np.array_equal of two different symbolic-length arrays')
    reg('numpy.array_equal', _array_equal)

    def _cumtrapz(I, y, x=None, dx=1, axis=-1, initial=None):
        """scipy.integrate.cumulative_trapezoid(y, dx=dx): r[j] = sum_{i<=j} dx*(y[i]+y[i+1])/2, length n-1 (assumed
        contract).  For a symbolic length the result is a prefix function C with C(j+1) = C(j) + dx*(y[j+1]+y[j+2])/2,
        instantiated wherever an element is read."""
        if x is not None or initial is not None:
            raise Unsupported('cumulative_trapezoid with x= / initial=')
        y = y.snapshot()
        n = y.length
        # dx may be one spacing or an array of n - 1 spacings (broadcast element-wise against the n - 1 trapezoids)
        dxa = dx.snapshot() if isinstance(dx, SArr) else None
        dx_at = (lambda j: dxa.at(j)) if dxa is not None else (lambda j: dx)
        if isinstance(n, int):
            out, acc = [], 0
            for j in range(n - 1):
                acc = I.binop('Add', acc, I.binop('Div', I.binop('Mult', dx_at(j), I.binop('Add', y.at(j), y.at(j + 1))), 2))
                out.append(acc)
            return SArr.from_list(out)
        I.hooks['cumtrapz_count'] = I.hooks.get('cumtrapz_count', 0) + 1
        C = z3.Function(f'cumtrapz_{I.hooks["cumtrapz_count"]}', z3.IntSort(), z3.RealSort())

        def step(j):
            return to_real(dx_at(j)) * (to_real(y.at(j)) + to_real(y.at(j + 1))) / 2
        I.ctx.axiom(C(0) == step(z3.IntVal(0)))

        def fn(k):
            kz = to_z3(k)
            I.ctx.axiom(z3.Implies(kz >= 1, C(kz) == C(kz - 1) + step(kz)))
            I.ctx.axiom(z3.Implies(kz >= 0, C(kz + 1) == C(kz) + step(kz + 1)))
            return C(kz)
        r = SArr(z3.simplify(to_z3(n) - 1), fn)
        r.cumtrapz = (C, step)
        return r
    reg('scipy.integrate.cumulative_trapezoid', _cumtrapz)
    reg('numpy.minimum', _minimum('min'))
    reg('numpy.maximum', _minimum('max'))

    def _where(I, c, a, b):
        from .arrays import _elem, _ite, _as_bool
        if not isinstance(c, SArr):
            t = I.symbolic_truth(c)
            if isinstance(t, bool):
                return a if t else b
            r = I.merge_values(t, a, b)
            if r is None:
                raise Unsupported('np.where on non-mergeable values')
            return r
        from .arrays import _snap
        c, a, b = _snap(c), _snap(a), _snap(b)
        return SArr(c.length, lambda k: _ite(_as_bool(c.at(k)), _elem(a, k), _elem(b, k)))
    reg('numpy.where', _where)

    def _select(I, condlist, choicelist, default=0):
        from .arrays import _elem, _ite, _as_bool, broadcast_len
        from ..values import SymEnum
        n = None
        for c in condlist:
            if isinstance(c, SArr):
                n = c.length if n is None else n
        if n is None:
            raise Unsupported('np.select on scalars')

        def conv(v):
            # numpy stores StrEnum members as numpy.str_ values
            if isinstance(v, EnumMember) and v.kind == 'str':
                return SymEnum(v.cls, z3.IntVal(v.index), np_str=True)
            return v

        def fn(k):
            r = conv(_elem(default, k))
            for c, ch in reversed(list(zip(condlist, choicelist))):
                r = _ite(_as_bool(_elem(c, k)), conv(_elem(ch, k)), r)
                if isinstance(r, SymEnum):
                    r.np_str = True
            return r
        return SArr(n, fn)
    reg('numpy.select', _select)

    def _isin(I, a, values, **kw):
        from ..values import SymEnum
        vals = I.iterate(values)

        def one(e):
            if isinstance(e, SymEnum):
                ok = [m.index for m in e.cls.members if any(I.compare('==', m.value, v) is True or I.compare('==', m, v) is True for v in vals)]
                return z3.Or(*[e.ord == i for i in ok]) if ok else False
            r = False
            for v in vals:
                r = I.or_(r, I.compare('==', e, v))
            return r
        if isinstance(a, SArr):
            return a.map(one)
        return one(a)
    reg('numpy.isin', _isin)

    def _polyfit(I, x, y, deg):
        """np.polyfit(x, y, 1): closed-form least squares (assumed contract, DESIGN 1.7)."""
        if deg != 1:
            raise Unsupported('polyfit degree != 1')
        xs, ys = I.iterate(x), I.iterate(y)
        n = len(xs)
        sx = sy = sxx = sxy = 0
        for a, b in zip(xs, ys):
            sx = I.binop('Add', sx, a)
            sy = I.binop('Add', sy, b)
            sxx = I.binop('Add', sxx, I.binop('Mult', a, a))
            sxy = I.binop('Add', sxy, I.binop('Mult', a, b))
        den = I.binop('Sub', I.binop('Mult', n, sxx), I.binop('Mult', sx, sx))
        slope = I.binop('Div', I.binop('Sub', I.binop('Mult', n, sxy), I.binop('Mult', sx, sy)), den)
        icpt = I.binop('Div', I.binop('Sub', sy, I.binop('Mult', slope, sx)), n)
        return (slope, icpt)
    reg('numpy.polyfit', _polyfit)

    def _interp(I, x, xp, fp, left=None, right=None):
        """np.interp: piecewise linear, exact at nodes, clamped (or left/right) outside; increasing xp."""
        from .arrays import _ite
        if isinstance(xp, SArr) and isinstance(fp, SArr) and is_sym(xp.length) and not isinstance(x, SArr):
            # table axis of symbolic length: the same contract with the cell named by a fresh index k (xp increasing is the
            # caller's precondition, as for the concrete branch): below xp[0] -> left / fp[0], above xp[n-1] -> right / fp[n-1],
            # otherwise xp[k] <= x <= xp[k+1] and the value is the chord of that cell at x
            n = to_z3(xp.length)
            if I.ctx.branch(n != to_z3(fp.length)) or I.ctx.branch(n < 1):
                I.raise_('ValueError', 'fp and xp are not of the same length')
            v = to_real(x)
            r = I.ctx.fresh('np_interp', z3.RealSort())
            k = I.ctx.fresh('np_interp_cell', z3.IntSort())
            x0, x1, f0, f1 = to_real(xp.at(k)), to_real(xp.at(k + 1)), to_real(fp.at(k)), to_real(fp.at(k + 1))
            first, last = to_real(xp.at(0)), to_real(xp.at(n - 1))
            lo = to_real(fp.at(0)) if left is None else to_real(left)
            hi = to_real(fp.at(n - 1)) if right is None else to_real(right)
            I.ctx.axiom(z3.If(v < first, r == lo, z3.If(v > last, r == hi, z3.If(v == last, r == to_real(fp.at(n - 1)),
                        z3.And(k >= 0, k < n - 1, x0 <= v, v < x1, r * (x1 - x0) == f0 * (x1 - x0) + (f1 - f0) * (v - x0))))))
            return r
        xs, fs = I.iterate(xp), I.iterate(fp)
        if len(xs) != len(fs) or not xs:
            I.raise_('ValueError', 'fp and xp are not of the same length')

        def one(v):
            v = to_real(v) if is_sym(v) else v
            lo = fs[0] if left is None else left
            hi = fs[-1] if right is None else right
            r = hi if right is not None else fs[-1]
            # x >= xp[-1] -> fp[-1] (right only strictly beyond)
            res = _ite(I.compare('>', v, xs[-1]), hi, fs[-1])
            for i in range(len(xs) - 2, -1, -1):
                x0, x1, f0, f1 = xs[i], xs[i + 1], fs[i], fs[i + 1]
                same = I.compare('==', x0, x1)
                if same is True:
                    seg = f1
                else:
                    seg = I.binop('Add', f0, I.binop('Div', I.binop('Mult', I.binop('Sub', f1, f0), I.binop('Sub', v, x0)),
                                                      I.binop('Sub', x1, x0)))
                res = _ite(I.compare('<', v, x1), seg, res)
            res = _ite(I.compare('<', v, xs[0]), lo, res)
            # np.interp lies between the smallest and the largest of the values it can return (node values, left, right):
            # registered for the bound lemmas (pyvc.signs); part of the assumed np.interp contract, tried by pyvc.conformance
            if is_sym(res):
                try:
                    vals = [to_real(f) if is_sym(f) else to_real(f) for f in ([lo] + list(fs) + [hi])]
                    mn, mx = vals[0], vals[0]
                    for f in vals[1:]:
                        mn = z3.If(f < mn, f, mn)
                        mx = z3.If(f > mx, f, mx)
                    if not hasattr(I.ctx, 'term_bounds'):
                        I.ctx.term_bounds = {}
                    bounds = (z3.simplify(mn), z3.simplify(mx))
                    simp = z3.simplify(to_z3(res))       # branch conditions are simplified before they are decided: the same value, another term
                    I.ctx.term_bounds[to_z3(res).get_id()] = bounds
                    I.ctx.term_bounds[simp.get_id()] = bounds
                    I.ctx._term_bounds_keep = getattr(I.ctx, '_term_bounds_keep', []) + [res, simp]      # keep the terms alive: ids are reused otherwise
                except Exception as e:   # noqa
                    import os
                    if os.environ.get('VERIF_DEBUG_SIGNS'):
                        import sys
                        print('INTERP-BOUNDS-FAILED', type(e).__name__, e, file=sys.stderr)
            elif __import__('os').environ.get('VERIF_DEBUG_SIGNS'):
                import sys
                print('INTERP-RESULT-NOT-SYMBOLIC', type(res), file=sys.stderr)
            return res
        if isinstance(x, SArr):
            return x.map(one)
        return one(x)
    reg('numpy.interp', _interp)

    def _array(I, x, dtype=None, **kw):
        if isinstance(x, SArr):
            return x.as_kind('ndarray')
        if isinstance(x, (list, tuple)):
            items = [NPStr(e) if isinstance(e, EnumMember) and e.kind == 'str' else e for e in x]
            return SArr.from_list(items)
        if isinstance(x, Obj):
            ar, _ = x.cls.lookup('__array__')
            if ar is not None:
                from ..values import BoundMethod
                return I.call(BoundMethod(x, ar), [], {})
        if is_num(x):
            return SArr(1, lambda k: x, scalar_like=True)
        raise Unsupported(f'np.array of {type(x).__name__}')
    reg('numpy.array', _array)
    reg('numpy.asarray', lambda I, x, dtype=None, **kw: x if isinstance(x, SArr) and x.kind == 'ndarray' else _array(I, x))
    reg('numpy.atleast_1d', _array)

    def _full(I, n, v, dtype=None, **kw):
        if isinstance(n, tuple):
            if len(n) != 1:
                raise Unsupported('2-D array')
            n = n[0]
        # numpy takes the element type from the fill value unless told otherwise: an integer fill value makes an integer
        # array, and whatever is assigned into it later is truncated to whole numbers
        is_int = (isinstance(v, int) and not isinstance(v, bool)) or (isinstance(v, z3.ArithRef) and v.is_int())
        want = getattr(dtype, 'name', None) or (dtype if isinstance(dtype, str) else None)
        if dtype is not None and want not in ('float', 'numpy.float64', 'float64', 'int', 'numpy.int64', 'int64'):
            raise Unsupported(f'np.full dtype {dtype!r}')
        if (dtype is None and is_int) or want in ('int', 'numpy.int64', 'int64'):
            return SArr(n, lambda k: v, dtype='int')
        return SArr(n, (lambda k: to_real(v)) if is_int else (lambda k: v))
    reg('numpy.full', _full)
    reg('numpy.zeros', lambda I, n, **kw: _full(I, n, Fraction(0)))
    reg('numpy.ones', lambda I, n, **kw: _full(I, n, Fraction(1)))
    reg('numpy.empty', lambda I, n, **kw: _full(I, n, Fraction(0)))
    reg('numpy.zeros_like', lambda I, a, dtype=None, **kw: SArr(I.len_(a), lambda k: Fraction(0), dtype=(getattr(a, 'dtype', None) if dtype is None else None)))
    reg('numpy.ones_like', lambda I, a, **kw: SArr(I.len_(a), lambda k: Fraction(1)))
    def _full_like(I, a, v, dtype=None, **kw):
        # the result has the element type of `a` (unless dtype= says otherwise): the fill value of an integer array is truncated
        if dtype is None and getattr(a, 'dtype', None) == 'int':
            if isinstance(v, Fraction):
                v = int(v)                      # truncates towards zero, as numpy does
            elif is_sym(v) and not to_z3(v).is_int():
                vr = to_real(v)
                v = z3.If(vr >= 0, z3.ToInt(vr), -z3.ToInt(-vr))
            return SArr(I.len_(a), lambda k: v, dtype='int')
        return SArr(I.len_(a), lambda k: v)
    reg('numpy.full_like', _full_like)
    reg('numpy.empty_like', lambda I, a, dtype=None, **kw: SArr(I.len_(a), lambda k: Fraction(0), dtype=(getattr(a, 'dtype', None) if dtype is None else None)))
    reg('numpy.min', lambda I, a, **kw: I.builtins['min'].fn(a))
    reg('numpy.max', lambda I, a, **kw: I.builtins['max'].fn(a))
    reg('numpy.sum', lambda I, a, **kw: array_sum(I, a) if isinstance(a, SArr) else I.builtins['sum'].fn(a))
    def _np_all(I, a):
        if isinstance(a, SArr):
            return array_all(I, a)
        if isinstance(a, (list, tuple)):
            return I.builtins['all'].fn(a)
        return I.symbolic_truth(a)          # 0-d: the truth value of the scalar

    def _np_any(I, a):
        if isinstance(a, SArr):
            return array_any(I, a)
        if isinstance(a, (list, tuple)):
            return I.builtins['any'].fn(a)
        return I.symbolic_truth(a)
    reg('numpy.all', _np_all)
    reg('numpy.any', _np_any)
    class Dtype(Model):
        def __init__(self, t):
            self.t = t

        def py_getattr(self, I, name):
            if name == 'shape':
                return ()
            if name == 'itemsize':
                return 8
            if name == 'type':
                return self.t
            if name == 'kind':
                return 'f'
            raise Unsupported('dtype.' + name)
    reg('numpy.dtype', lambda I, t: Dtype(t))
    reg('numpy.size', lambda I, a: I.len_(a) if isinstance(a, (SArr, list, tuple)) else 1)
    reg('numpy.shape', lambda I, a: (I.len_(a),) if isinstance(a, (SArr, list)) else ())
    reg('numpy.ndim', lambda I, a: 1 if isinstance(a, (SArr, list)) else 0)

    def _isclose(I, a, b, rtol=Fraction('1e-5'), atol=Fraction('1e-8')):
        def one(x, y):
            ab = I.builtins['abs'].fn
            return I.compare('<=', ab(I.binop('Sub', x, y)), I.binop('Add', atol, I.binop('Mult', rtol, ab(y))))
        if isinstance(a, SArr) or isinstance(b, SArr):
            from .arrays import broadcast_len, _elem
            n = broadcast_len(I, a, b)
            return SArr(n, lambda k: one(_elem(a, k), _elem(b, k)))
        return one(a, b)
    reg('numpy.isclose', _isclose)

    # ---- itertools / bisect ----------------------------------------------------------------------
    def _accumulate(I, it, func=None, initial=None):
        items = I.iterate(it)
        out = []
        acc = initial
        if initial is not None:
            out.append(initial)
        for x in items:
            if acc is None:
                acc = x
            else:
                acc = I.call(func, [acc, x], {}) if func is not None else I.binop('Add', acc, x)
            out.append(acc)
        return out
    reg('itertools.accumulate', _accumulate)
    reg('itertools.chain', lambda I, *its: [x for it in its for x in I.iterate(it)])
    reg('itertools.product', lambda I, *its: list(__import__('itertools').product(*[I.iterate(x) for x in its])))

    def _bisect_left(I, seq, x, lo=0, hi=None, key=None):
        """bisect_left on a sorted sequence: the number of elements < x (assumed contract:
        the result i satisfies all(e < x for e in a[:i]) and all(e >= x for e in a[i:]));
        for a concrete-length sequence it is computed by the counting definition, which equals
        the library result whenever the sequence is sorted."""
        if isinstance(seq, SArr) and not isinstance(seq.length, int):
            h = I.models.get('bisect_left:symbolic')
            if h is None:
                raise Unsupported('bisect_left on a symbolic-length sequence')
            return h(I, seq, x)
        items = I.iterate(seq)
        cnt = 0
        for e in items:
            c = I.compare('<', e, x)
            if isinstance(c, bool):
                cnt = I.binop('Add', cnt, 1 if c else 0)
            else:
                cnt = I.binop('Add', cnt, z3.If(c, 1, 0))
        return cnt
    reg('bisect.bisect_left', _bisect_left)

    def _sorted(I, items, key=None, reverse=False):
        """sorted() on a concrete-length list with symbolic keys: stable insertion sort, forking on
        each comparison (the result is the ordered permutation on every path)."""
        keyed = [(I.call(key, [x], {}) if key is not None else x, x) for x in items]
        out = []
        for kx, x in keyed:
            pos = len(out)
            while pos > 0:
                c = I.compare('<', kx, out[pos - 1][0]) if not reverse else I.compare('>', kx, out[pos - 1][0])
                if I.truth(c):
                    pos -= 1
                else:
                    break
            out.insert(pos, (kx, x))
        return [x for _, x in out]
    m['builtins.sorted'] = _sorted

    # ---- threading --------------------------------------------------------------------------------
    reg('threading.get_ident', lambda I: I.hooks['thread_ident'](I))
    reg('threading.Lock', lambda I: Lock())
    reg('threading.RLock', lambda I: Lock())

    # ---- pathlib -----------------------------------------------------------------------------------
    def _path(I, *parts):
        if not parts:
            return PathVal('.')
        p = parts[0]
        r = p if isinstance(p, PathVal) else PathVal(p.value if isinstance(p, EnumMember) else p)
        for q in parts[1:]:
            r = r.py_binop(I, 'Div', q, False)
        return r
    reg('pathlib.Path', _path)
    m['types:known'] = {'pathlib.Path', 'numpy.ndarray', 'pandas.Timestamp', 'datetime.datetime'}
    return m


class Lock(Model):
    """threading.Lock: a `with lock:` block is one indivisible group of atomic actions."""
    type_names = ('threading.Lock',)
    count = 0

    def __init__(self):
        Lock.count += 1
        self.lid = Lock.count

    def py_enter(self, I):
        # mutual exclusion holds among the holders of *one* lock object: a contract that cannot show that every thread gets
        # the same object here switches the grouping off (hooks['lock_not_shared']) - the block's actions then interleave
        if I.hooks.get('lock_not_shared'):
            self.grouping = False
            return self
        self.grouping = True
        I.hooks['atomic_depth'] = I.hooks.get('atomic_depth', 0) + 1
        if I.hooks['atomic_depth'] == 1:
            I.hooks['group_counter'] = I.hooks.get('group_counter', 0) + 1
        return self

    def py_exit(self, I, exc):
        if getattr(self, 'grouping', True):
            I.hooks['atomic_depth'] -= 1
        return False

    def py_getattr(self, I, name):
        if name == 'acquire':
            return Builtin('acquire', lambda *a, **k: (self.py_enter(I), True)[1], pure=False)
        if name == 'release':
            return Builtin('release', lambda: self.py_exit(I, None), pure=False)
        raise Unsupported('Lock.' + name)


class FieldName(Model):
    def __init__(self, n):
        self.name = n

    def py_getattr(self, I, name):
        if name == 'name':
            return self.name
        raise Unsupported('dataclass Field.' + name)


class _Inf:
    def __repr__(self):
        return 'inf'


INF = _Inf()


def _pi(I):
    if not I.hooks.get('pi_assumed'):
        I.hooks['pi_assumed'] = True
        I.ctx.assume(mathfn.PI_AXIOM)
    return mathfn.PI


def _csqrt(I, x):
    if x < 0:
        I.raise_('ValueError', 'math domain error')
    from math import isqrt
    fx = Fraction(x)
    n, d = fx.numerator, fx.denominator
    if isqrt(n) ** 2 == n and isqrt(d) ** 2 == d:
        return Fraction(isqrt(n), isqrt(d))
    return mathfn.sqrt(I, to_real(fx))


def _shallow(I, v):
    if isinstance(v, list):
        return list(v)
    if isinstance(v, dict):
        return dict(v)
    if isinstance(v, set):
        return set(v)
    if isinstance(v, Obj):
        n = Obj(v.cls)
        n.attrs = dict(v.attrs)
        return n
    if isinstance(v, SArr):
        return SArr(v.length, v.fn, kind=v.kind)
    return v


def _deep(I, v, memo=None):
    memo = memo if memo is not None else {}
    if id(v) in memo:
        return memo[id(v)]
    if isinstance(v, list):
        r = []
        memo[id(v)] = r
        r.extend(_deep(I, x, memo) for x in v)
        return r
    if isinstance(v, dict):
        r = {}
        memo[id(v)] = r
        for k, x in v.items():
            r[k] = _deep(I, x, memo)
        return r
    if isinstance(v, tuple):
        return tuple(_deep(I, x, memo) for x in v)
    if isinstance(v, set):
        return set(v)
    if isinstance(v, Obj):
        n = Obj(v.cls)
        memo[id(v)] = n
        n.attrs = {k: _deep(I, x, memo) for k, x in v.attrs.items()}
        return n
    if isinstance(v, SArr):
        return SArr(v.length, v.fn, kind=v.kind)
    return v
