"""Arithmetic helpers and transcendental functions.

Transcendentals are uninterpreted functions over the reals; the facts the proofs may use are
added per call as axiom *instances* (never as quantified axioms), and are listed in the evidence
as the trusted mathematical base.  Floats are reals (machine arithmetic treated as mathematical).
"""
from __future__ import annotations

from fractions import Fraction

import z3

from ..values import is_sym, to_real, to_z3

R = z3.RealSort()
F_EXP = z3.Function('exp_', R, R)
F_LOG = z3.Function('ln', R, R)
F_LOG10 = z3.Function('log10', R, R)
F_POW = z3.Function('pow_', R, R, R)
F_SQRT = z3.Function('sqrt_', R, R)
F_SIN = z3.Function('sin_', R, R)
F_COS = z3.Function('cos_', R, R)
PI = z3.Real('pi')
PI_AXIOM = z3.And(PI > z3.RealVal('3.14159265358979'), PI < z3.RealVal('3.14159265358980'))

AXIOMS_USED = set()
UNCHECKED = [0]     # >0 while element functions are evaluated whose definedness was checked for a generic index


def floordiv_int(a, b):
    # SMT-LIB div: a = b*q + r with 0 <= r < |b|; python floors
    return z3.If(b > 0, a / b, z3.If((a % b) == 0, a / b, (a / b) - 1))


def mod_int(a, b):
    # python: result has the sign of b
    m = a % b          # z3: 0 <= m < |b|
    return z3.If(z3.Or(b > 0, m == 0), m, m + b)


def _note(name):
    AXIOMS_USED.add(name)


def exp(I, x):
    x = to_real(x)
    r = F_EXP(x)
    I.ctx.axiom(r > 0)
    _note('exp(x) > 0')
    x0 = z3.simplify(x)
    if z3.is_rational_value(x0) and x0.numerator_as_long() == 0:
        I.ctx.axiom(r == 1)
    return r


def log(I, x, base='e'):
    x = to_real(x)
    if not UNCHECKED[0] and I.ctx.branch(x <= 0):
        I.raise_('NonFiniteResult', 'log of a non-positive number')
    f = F_LOG if base == 'e' else F_LOG10
    r = f(x)
    return r


def sqrt(I, x):
    x = to_real(x)
    if not UNCHECKED[0] and I.ctx.branch(x < 0):
        I.raise_('NonFiniteResult', 'sqrt of a negative number')
    r = F_SQRT(x)
    I.ctx.axiom(z3.Implies(x >= 0, z3.And(r >= 0, r * r == x)))
    _note('sqrt(x) >= 0 and sqrt(x)^2 = x for x >= 0')
    return r


def sin(I, x):
    return _sincos(I, x)[0]


def cos(I, x):
    return _sincos(I, x)[1]


def _sincos(I, x):
    x = to_real(x)
    s, c = F_SIN(x), F_COS(x)
    I.ctx.axiom(s * s + c * c == 1)
    _note('sin^2 + cos^2 = 1')
    return s, c


def power(I, a, b):
    """a ** b with symbolic operands."""
    b0 = z3.simplify(to_z3(b)) if is_sym(b) else b
    if is_sym(b0) and (z3.is_int_value(b0) or (z3.is_rational_value(b0) and b0.denominator_as_long() == 1)):
        b0 = b0.as_long() if z3.is_int_value(b0) else b0.numerator_as_long()
    if is_sym(b0) and z3.is_rational_value(b0):
        b0 = Fraction(b0.numerator_as_long(), b0.denominator_as_long())
    if isinstance(b0, Fraction) and b0.denominator == 1:
        b0 = b0.numerator
    if isinstance(b0, int) and not isinstance(b0, bool):
        az = to_z3(a)
        if b0 >= 0:
            if b0 > 8:
                return _pow_uf(I, a, b0)
            r = z3.IntVal(1) if az.is_int() else z3.RealVal(1)
            for _ in range(b0):
                r = r * az
            return r
        I.require_nonzero(az, 'negative power')
        r = z3.RealVal(1)
        for _ in range(-b0):
            r = r * to_real(az)
        return 1 / r
    if isinstance(b0, Fraction) and b0 == Fraction(1, 2):
        return sqrt(I, a)
    return _pow_uf(I, a, b0)


def _pow_uf(I, a, b):
    a, b = to_real(a), to_real(b)
    # real power of a negative base is nan in numpy / complex in python: undefined for us
    if not UNCHECKED[0] and I.ctx.branch(a < 0):
        I.raise_('NonFiniteResult', 'real power of a negative base')
    r = F_POW(a, b)
    I.ctx.axiom(z3.Implies(a > 0, r > 0))
    I.ctx.axiom(z3.Implies(z3.And(a == 0, b > 0), r == 0))
    I.ctx.axiom(z3.Implies(b == 0, r == 1))
    I.ctx.axiom(z3.Implies(b == 1, r == a))
    _note('pow(a,b) > 0 for a > 0; pow(0,b)=0 for b>0; pow(a,0)=1; pow(a,1)=a')
    I.ctx.axiom(z3.Implies(z3.And(a >= 1, b >= 0), r >= 1))
    I.ctx.axiom(z3.Implies(z3.And(a > 0, a <= 1, b >= 0), r <= 1))
    _note('pow(a,b) >= 1 for a >= 1, b >= 0; pow(a,b) <= 1 for 0 < a <= 1, b >= 0')
    return r


def log_facts(I, x, base='e'):
    """Instances available on request: log is defined on positives; 10**log10(x) = x is stated via
    pow in the contracts that need it."""
    return None
