"""pyproj.Geod (WGS-84) by assumed contract (DESIGN 1.7 / C15).  Argument order (lon, lat).

inv(p, q) = (az12, az21, d) with d >= 0, d(p,q) = d(q,p);  fwd(p, az12(p,q), d(p,q)) = q;
fwd(p, az, 0) = p.  'Is the WGS-84 geodesic' is this contract; what is proved is that AEIC's
code composes it correctly (indices, offsets, argument order)."""
from __future__ import annotations

import z3

from ..source import Unsupported
from ..values import Model, to_real
from .arrays import SArr

R = z3.RealSort()
AZ12 = z3.Function('geod_az12', R, R, R, R, R)
AZ21 = z3.Function('geod_az21', R, R, R, R, R)
DIST = z3.Function('geod_dist', R, R, R, R, R)
FLON = z3.Function('geod_fwd_lon', R, R, R, R, R)
FLAT = z3.Function('geod_fwd_lat', R, R, R, R, R)
FBAZ = z3.Function('geod_fwd_backaz', R, R, R, R, R)


def inv_axioms(I, a, b, c, d):
    I.ctx.assume(DIST(a, b, c, d) >= 0)
    I.ctx.assume(DIST(a, b, c, d) == DIST(c, d, a, b))
    I.ctx.assume(z3.And(FLON(a, b, AZ12(a, b, c, d), DIST(a, b, c, d)) == c,
                        FLAT(a, b, AZ12(a, b, c, d), DIST(a, b, c, d)) == d))


class Geod(Model):
    type_names = ('pyproj.Geod',)

    def py_getattr(self, I, name):
        from ..values import Builtin
        if name == 'inv':
            return Builtin('Geod.inv', lambda *a, **k: self.inv(I, *a))
        if name == 'fwd':
            return Builtin('Geod.fwd', lambda *a, **k: self.fwd(I, *a))
        raise Unsupported('Geod.' + name)

    def inv(self, I, lon1, lat1, lon2, lat2):
        seqs = [x for x in (lon1, lat1, lon2, lat2) if isinstance(x, (list, SArr))]
        if seqs:
            if all(isinstance(x, list) for x in (lon1, lat1, lon2, lat2)):
                n = len(lon1)
                if not (len(lat1) == len(lon2) == len(lat2) == n):
                    I.raise_('ValueError', 'Array lengths are not the same.')
                res = [self.inv(I, lon1[i], lat1[i], lon2[i], lat2[i]) for i in range(n)]
                return ([r[0] for r in res], [r[1] for r in res], [r[2] for r in res])
            raise Unsupported('vectorised Geod.inv on symbolic-length sequences')
        a, b, c, d = (to_real(x) for x in (lon1, lat1, lon2, lat2))
        inv_axioms(I, a, b, c, d)
        return (AZ12(a, b, c, d), AZ21(a, b, c, d), DIST(a, b, c, d))

    def fwd(self, I, lon, lat, az, dist):
        a, b, c, d = (to_real(x) for x in (lon, lat, az, dist))
        I.ctx.assume(z3.Implies(d == 0, z3.And(FLON(a, b, c, d) == a, FLAT(a, b, c, d) == b)))
        return (FLON(a, b, c, d), FLAT(a, b, c, d), FBAZ(a, b, c, d))


def install(I):
    I.models['pyproj.Geod'] = lambda I_, **k: Geod()
