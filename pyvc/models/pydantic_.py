"""pydantic.BaseModel (assumed contract, DESIGN 1.7): model_validate = mode='before' validators
(key normalisation; abstracted), field validation (may raise ValidationError), construction,
then mode='after' validators in definition order, aborting on the first exception.
frozen=True in model_config makes attribute assignment raise; object.__setattr__ bypasses it."""
from __future__ import annotations

import ast

from ..rt import MISSING, ClassInfo
from ..source import Unsupported
from ..values import BUILTIN_EXCS, BoundMethod, Builtin, ExcClass, Ext, Obj

if 'ValidationError' not in BUILTIN_EXCS:
    BUILTIN_EXCS['ValidationError'] = ExcClass('ValidationError', [BUILTIN_EXCS['ValueError']])


def is_model_class(c):
    return isinstance(c, ClassInfo) and any(b.name == 'pydantic.BaseModel' for b in c.ext_bases())


def frozen(cls: ClassInfo):
    for c in cls.mro():
        mc = c.attrs.get('model_config')
        if isinstance(mc, dict) and 'frozen' in mc:
            return mc['frozen'] is True
    return False


def install(I):
    def model_validate(I_, cls):
        return Builtin('model_validate', lambda data, **k: validate(I_, cls, data), pure=False)
    I.models['classattr:pydantic.BaseModel.model_validate'] = model_validate
    I.models['classattr:pydantic.BaseModel.model_fields'] = lambda I_, cls: {n: None for n in cls.all_fields()}
    I.models['new-sub:pydantic.BaseModel'] = lambda I_, cls, **kw: validate(I_, cls, kw)

    def setattr_check(I_, obj, name, val):
        if is_model_class(obj.cls) and frozen(obj.cls) and not obj.attrs.get('__constructing__'):
            I_.raise_('ValidationError', f'Instance is frozen: {name}')
        return False
    I.hooks['raw_setattr'] = _chain(I.hooks.get('raw_setattr'), None)
    I.hooks['setattr_check'] = setattr_check


def _chain(a, b):
    return a or b


def validate(I, cls: ClassInfo, data):
    if not isinstance(data, dict):
        I.raise_('ValidationError', 'input should be a dictionary')
    obj = Obj(cls)
    obj.attrs['__constructing__'] = True
    fields = cls.all_fields()
    for name, owner in fields.items():
        ann = owner.annotations[name]
        if I.is_classvar(ann):
            continue
        if name in data:
            v = data[name]
            sub = _field_model(I, owner, ann)
            if sub is not None and isinstance(v, dict):
                v = validate(I, sub, v)
        elif name in owner.ann_defaults:
            v = I.dataclass_default(owner, name)
        else:
            I.raise_('ValidationError', f'field required: {name}')
        obj.attrs[name] = v
    # field validation may reject the values (nondeterministic: decided by the harness oracle)
    oracle = I.hooks.get('pydantic_invalid')
    if oracle is not None and oracle(I, cls, data):
        I.raise_('ValidationError', f'invalid value for a field of {cls.name}')
    del obj.attrs['__constructing__']
    # mode='after' validators, in definition order, base classes first
    for c in reversed(cls.mro()):
        for fi in c.keywords.get('__validators__', []):
            kind, kw = fi.validator
            if kind.endswith('model_validator') and kw.get('mode') == 'after':
                r = I.call(BoundMethod(obj, fi), [], {})
                if isinstance(r, Obj):
                    obj = r
    return obj


def _field_model(I, owner, ann):
    src = ann.value if isinstance(ann, ast.Constant) and isinstance(ann.value, str) else ast.unparse(ann)
    name = src.split('|')[0].strip()
    if not name.isidentifier():
        return None
    try:
        v = I.module_get(owner.module, name, None)
    except Exception:   # noqa
        return None
    return v if is_model_class(v) else None
