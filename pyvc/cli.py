"""./check <property> [--tier quick|thorough] [--replay path]

exit 0: every obligation discharged (or matched by a listed known finding)
exit 1: an obligation refuted -> 'VIOLATION property=<id> replay=<path>'
exit 2: undecided (solver unknown / unsupported construct / function not found)
exit 3: checker crash
"""
from __future__ import annotations

import argparse
import hashlib
import importlib
import json
import os
import subprocess
import sys
import time
from pathlib import Path

VERIF = Path(__file__).resolve().parent.parent


def load_known_findings():
    out = []
    p = VERIF / 'KNOWN_FINDINGS.txt'
    if not p.exists():
        return out
    for line in p.read_text().splitlines():
        line = line.strip()
        if not line.startswith('finding:'):
            continue
        rest = line[len('finding:'):].strip()
        kv = {}
        words = rest.split()
        text = []
        for w in words:
            if '=' in w and not text and w.split('=', 1)[0] in ('property', 'obligation', 'characterised-by', 'witness'):
                k, v = w.split('=', 1)
                kv[k] = v
            else:
                text.append(w)
        kv['text'] = ' '.join(text)
        out.append(kv)
    return out


LAST_NATIVE_PAYLOAD = {}


def run_native(module, fn, payload, timeout=600):
    """Run a replay function natively (real AEIC package) in a subprocess of the overlay venv."""
    LAST_NATIVE_PAYLOAD[(module, fn)] = payload
    env = dict(os.environ)
    src = os.environ.get('AEIC_SRC', '/repo/src')
    env['PYTHONPATH'] = f'{src}:{VERIF}'
    env.setdefault('AEIC_PATH', str(Path(src).parent / 'tests' / 'data'))
    code = ('import json,sys,importlib; m=importlib.import_module(sys.argv[1]); '
            'r=getattr(m,sys.argv[2])(json.loads(sys.stdin.read())); print("@@RESULT@@"+json.dumps(r))')
    try:
        p = subprocess.run([sys.executable, '-c', code, module, fn], input=json.dumps(payload),
                           capture_output=True, text=True, timeout=timeout, env=env, cwd=str(VERIF))
    except subprocess.TimeoutExpired:
        return dict(reproduced=False, error='replay timed out')
    for line in p.stdout.splitlines():
        if line.startswith('@@RESULT@@'):
            return json.loads(line[len('@@RESULT@@'):])
    return dict(reproduced=False, error='replay crashed', stderr=p.stderr[-2000:], stdout=p.stdout[-1000:])


def main(argv=None):
    sys.setrecursionlimit(50000)
    import faulthandler
    import signal
    faulthandler.register(signal.SIGUSR1, all_threads=True)      # kill -USR1 <pid>: where is it?
    import threading
    threading.stack_size(512 * 1024 * 1024)
    ap = argparse.ArgumentParser()
    ap.add_argument('prop')
    ap.add_argument('--tier', default=os.environ.get('VERIF_TIER', 'quick'))
    ap.add_argument('--replay')
    ap.add_argument('--unit', help='run only this unit (debug; no evidence written)')
    ap.add_argument('-v', action='store_true')
    args = ap.parse_args(argv)
    prop = args.prop
    seed = int(os.environ.get('VERIF_SEED', '0') or 0)
    t0 = time.time()

    if args.replay:
        rp = json.loads(Path(args.replay).read_text())
        if not rp.get('replay_fn'):
            print('no native replay recorded for this obligation:', rp.get('obligation'))
            print(json.dumps(rp.get('solver_output'), indent=1)[:3000])
            return 1
        mod, fn = rp['replay_fn'].split(':')
        r = run_native(mod, fn, rp['model'])
        print(json.dumps(r, indent=1))
        return 1 if r.get('reproduced') else 0

    try:
        from . import verify
        from .source import Repo
        cm = importlib.import_module(f'contracts.{prop}')
    except Exception:
        import traceback
        traceback.print_exc()
        return 3
    units = verify.UNITS.get(prop, [])
    if args.unit:
        units = [u for u in units if u.name == args.unit]
    if not units:
        print(f'UNDECIDED property={prop}: no proof units (zero obligations is an error, not a pass)')
        return 2
    timeout_ms = 10000 if args.tier == 'quick' else 60000
    from . import core as _core
    _core.CROSSCHECK['per_clause'] = int(os.environ.get('VERIF_CROSSCHECK', '0' if args.tier == 'quick' else '2'))
    repo = Repo()
    results = _run_units(units, timeout_ms, seed)
    for r in results:
        u = r.unit
        if args.v:
            print(f'  unit {u.name}: {r.status} paths={r.paths} live={r.live_paths} '
                  f'clauses={ {k: c.status for k, c in r.clauses.items()} } wall={r.wall:.1f}s')
            for s in r.unsupported[:3]:
                print('     unsupported:', s)
            if r.crash:
                print(r.crash)

    bounded = []
    if hasattr(cm, 'bounded_checks') and not args.unit:
        bounded = cm.bounded_checks(args.tier, seed)

    # thorough tier: the assumed library contracts are tried against the installed libraries (bounded, sampled; pyvc/conformance.py)
    conformance = None
    if args.tier == 'thorough' and not args.unit and os.environ.get('VERIF_CONFORMANCE', '1') != '0':
        conformance = run_conformance(seed)
    global _CONFORMANCE
    _CONFORMANCE = conformance

    known = [k for k in load_known_findings() if k.get('property') == prop]
    by_name = {r.unit.name: r for r in results}
    violations, undecided, crashes, known_hits = [], [], [], []
    replay_dir = Path(os.environ.get('VERIF_REPLAY_DIR', str(VERIF / 'replays'))) / prop
    if replay_dir.exists() and not args.unit:
        import shutil
        shutil.rmtree(replay_dir, ignore_errors=True)     # replay files belong to one run
    obligations = 0
    discharged = 0
    for r in results:
        if r.status == 'crash':
            crashes.append(r)
            continue
        if r.unsupported or r.status == 'vacuous':
            why = '; '.join(sorted(set(r.unsupported))[:3]) or 'vacuous: no live path / no obligation'
            # a unit the engine cannot decide on this tree (a construct it has no model for, state it does not know of) is
            # undecided - unless the unit's native replay exhibits a failing input for the property on this very tree: that is
            # a violation found by running the real code, whatever the state of the proof
            if r.unit.replay is not None and not any(c.status == 'refuted' for c in r.clauses.values()):
                key = ('undecided-native', r.unit.replay)
                if key not in _NATIVE_CACHE:
                    mod, fn = r.unit.replay.split(':')
                    _NATIVE_CACHE[key] = run_native(mod, fn, dict(model={}, clause='unit-not-decided', note=why))
                rr = _NATIVE_CACHE[key]
                if rr.get('reproduced'):
                    c = verify.ClauseResult('unit-not-decided-and-the-native-replay-fails')
                    c.refuted.append(dict(model={}, note=f'unit undecided ({why}); native replay: {rr.get("observed")}', formula='(no formula: ' + why + ')',
                                          path=[], pc=[], native=rr, pre_reproduced=True))
                    obligations += 1
                    violations.append((r, c.name, c))
                    continue
            undecided.append((r, why))
        for cname, c in r.clauses.items():
            obligations += 1
            ob = f'{r.unit.name}/{cname}'
            if c.status == 'proved':
                discharged += 1
            elif c.status == 'unknown':
                undecided.append((r, f'{ob}: solver returned unknown'))
            elif c.status == 'refuted' and '/invariant-' in cname:
                # a loop invariant that does not go through is a failed proof, not a violation -- unless the
                # unit's native replay exhibits a failing input for the property on this very tree
                if r.unit.replay is not None:
                    key = ('inv-native', r.unit.name)
                    if key not in _NATIVE_CACHE:
                        mod, fn = r.unit.replay.split(':')
                        _NATIVE_CACHE[key] = run_native(mod, fn, dict(model={}, clause=cname, note='loop invariant not inductive'))
                    rr = _NATIVE_CACHE[key]
                    if rr.get('reproduced'):
                        for cand in c.refuted[:1]:
                            cand['native'] = rr
                            cand['pre_reproduced'] = True
                        violations.append((r, cname, c))
                        continue
                undecided.append((r, f'{ob}: candidate loop invariant not inductive'))
            elif c.status == 'refuted':
                k = next((k for k in known if k.get('obligation') == ob), None)
                if k is not None:
                    ok, why = confirm_known(k, by_name, r, c, cm)
                    if ok:
                        known_hits.append((k, ob))
                        continue
                    print(f'  known finding for {ob} not confirmed: {why}')
                violations.append((r, cname, c))
    bounded_errors = [b for b in bounded if b.get('error') or not b.get('cases')]
    for b in bounded:
        if b.get('violations'):
            for v in b['violations']:
                k = next((k for k in known if k.get('obligation') == v['obligation']
                          and k.get('witness') == v.get('witness')), None)
                if k is not None:
                    known_hits.append((k, v['obligation']))
                else:
                    violations.append((None, v['obligation'], v))

    exit_code = 0
    for k, ob in known_hits:
        print(f'KNOWN-FINDING: property={prop} obligation={ob} {k.get("text", "")}')
    if violations:
        replay_dir.mkdir(parents=True, exist_ok=True)
    for r, cname, c in violations:
        exit_code = 1
        if r is None:      # bounded stand-in violation (already a native failing input)
            ob = cname
            rf = c.get('replay_fn') or ''
            # replaying = running the same bounded family again with the same seed and bound (the failing case is kept as text)
            payload = dict(property=prop, obligation=ob, kind='bounded stand-in', failing_input=c.get('input'),
                           model=LAST_NATIVE_PAYLOAD.get(tuple(rf.split(':')), c.get('input')) if ':' in rf else c.get('input'),
                           observed=c.get('observed'), replay_fn=c.get('replay_fn'))
            path = replay_dir / (_safe(ob) + '-' + _h(payload) + '.json')
            path.write_text(json.dumps(payload, indent=1, default=str))
            print(f'VIOLATION property={prop} replay={path}')
            continue
        ob = f'{r.unit.name}/{cname}'
        reproduced = None
        chosen = None
        for cand in c.refuted[:4]:
            if r.unit.replay is None:
                break
            if cand.get('pre_reproduced'):
                reproduced, chosen = cand['native'], cand
                break
            mod, fn = r.unit.replay.split(':')
            payload = dict(model=verify.jsonable(cand['model']), clause=cname, note=cand.get('note'))
            rr = run_native(mod, fn, payload)
            cand['native'] = rr
            if rr.get('reproduced'):
                reproduced, chosen = rr, cand
                break
        if chosen is None:
            chosen = c.refuted[0]
        payload = dict(property=prop, obligation=ob, functions=r.unit.func,
                       model=dict(model=verify.jsonable(chosen['model']), clause=cname, note=chosen.get('note')),
                       solver_output=dict(status='sat', formula=chosen['formula'], path_condition_tail=chosen['pc'],
                                          note=chosen.get('note'), path=chosen.get('path')),
                       native=chosen.get('native'), replay_fn=r.unit.replay,
                       reproduced=bool(reproduced))
        path = replay_dir / (_safe(ob) + '-' + _h(payload['solver_output']) + '.json')
        path.write_text(json.dumps(payload, indent=1, default=str))
        tail = '' if reproduced else ' no-failing-input-found'
        print(f'VIOLATION property={prop} replay={path}{tail}')
    if not violations:
        if crashes or bounded_errors:
            exit_code = 3
            for r in crashes:
                print(f'CRASH unit={r.unit.name}\n{r.crash}')
            for b in bounded_errors:
                print(f"CRASH bounded check '{b.get('name', '?')[:80]}': {b.get('error') or 'zero cases executed'}")
        elif undecided:
            exit_code = 2
            for r, why in undecided:
                print(f'UNDECIDED property={prop} unit={r.unit.name}: {why}')
        elif conformance is not None and not all(c.get('ok') for c in conformance):
            # an assumed library contract that the installed library contradicts: what was discharged rests on a wrong model
            exit_code = 2
            for c in conformance:
                if not c.get('ok'):
                    print(f"UNDECIDED property={prop}: the assumed contract of {c.get('models')} disagrees with the installed library: "
                          f"{(c.get('disagreements') or [c.get('error')])[0]}")

    if not args.unit:
        write_evidence(prop, args.tier, seed, results, bounded, obligations, discharged, known_hits,
                       violations, undecided, time.time() - t0, cm)
    print(f'{prop}: obligations={obligations} discharged={discharged} known-findings={len(known_hits)} '
          f'violations={len(violations)} undecided={len(undecided)} wall={time.time() - t0:.1f}s exit={exit_code}')
    return exit_code


_NATIVE_CACHE = {}
_CONFORMANCE = None


def run_conformance(seed):
    env = dict(os.environ, PYTHONPATH=str(VERIF))
    try:
        p = subprocess.run([sys.executable, '-m', 'pyvc.conformance', str(seed)], capture_output=True, text=True, timeout=900, env=env, cwd=str(VERIF))
    except subprocess.TimeoutExpired:
        return [dict(check='conformance', ok=False, error='timed out', models=[])]
    for line in p.stdout.splitlines():
        if line.startswith('@@CONFORMANCE@@'):
            return json.loads(line[len('@@CONFORMANCE@@'):])
    return [dict(check='conformance', ok=False, error='crashed: ' + p.stderr[-500:], models=[])]


def _one(args):
    i, prop, timeout_ms, seed = args
    from . import verify
    from .source import Repo
    u = verify.UNITS[prop][i]
    r = verify.run_unit(u, Repo(), timeout_ms=timeout_ms, seed=seed)
    r.unit = None          # re-attached by the parent
    return i, r


def _run_units(units, timeout_ms, seed):
    """Units are independent: run them in forked worker processes (all cores)."""
    from . import verify
    if not units:
        return []
    prop = units[0].prop
    allu = verify.UNITS[prop]
    idx = [allu.index(u) for u in units]
    jobs = int(os.environ.get('VERIF_JOBS', '0') or 0) or min(len(units), os.cpu_count() or 1)
    out = {}
    if jobs <= 1 or len(units) == 1:
        for i in idx:
            out[i] = _one((i, prop, timeout_ms, seed))[1]
    else:
        import multiprocessing as mp
        ctx = mp.get_context('fork')
        with ctx.Pool(jobs) as pool:
            for i, r in pool.imap_unordered(_one, [(i, prop, timeout_ms, seed) for i in idx]):
                out[i] = r
    res = []
    for i in idx:
        out[i].unit = allu[i]
        res.append(out[i])
    return res


def confirm_known(k, by_name, r, c, cm):
    """A listed finding only counts if (1) its characterising contract -- a second unit that
    pins down the defective behaviour exactly -- is fully proved on this tree and (2) the
    stored witness still reproduces natively.  Anything else is a new violation."""
    ch = k.get('characterised-by')
    if ch:
        cr = by_name.get(ch)
        if cr is None:
            return False, f'characterising unit {ch} missing'
        if cr.status != 'proved':
            return False, f'characterising unit {ch} is {cr.status}'
    wit = k.get('witness')
    if wit:
        table = getattr(cm, 'WITNESSES', {})
        w = table.get(wit)
        if w is None:
            return False, f'witness {wit} not defined by the contract module'
        rr = run_native(w['replay_fn'].split(':')[0], w['replay_fn'].split(':')[1], w['payload'])
        if not rr.get('reproduced'):
            return False, f'witness {wit} no longer reproduces: {rr}'
    return True, ''


def _safe(s):
    return ''.join(ch if ch.isalnum() or ch in '._-' else '_' for ch in s)[:80]


def _h(o):
    return hashlib.sha1(json.dumps(o, sort_keys=True, default=str).encode()).hexdigest()[:10]


def write_evidence(prop, tier, seed, results, bounded, obligations, discharged, known_hits, violations,
                   undecided, wall, cm):
    from . import models as models_pkg
    from .models import mathfn
    level = getattr(cm, 'LEVEL', 'proof')
    funcs = {}
    inlined = {}
    trusted = []
    assumed = []
    samples = []
    cross = {}
    by_backend = {}
    solver_s = 0.0
    models_used = set()
    units = []
    for r in results:
        for f in r.unit.func:
            funcs[f] = True
        for f, where in r.functions.items():
            inlined[f] = where
        for t in r.trusted:
            if t not in trusted:
                trusted.append(t)
        for a in r.assumed:
            if a not in assumed:
                assumed.append(a)
        samples += r.samples[:2]
        for k_, v_ in getattr(r, 'cross', {}).items():
            cross[k_] = cross.get(k_, 0) + v_
        solver_s += r.solver_seconds
        models_used |= r.models_used
        for c in r.clauses.values():
            for b in c.backends:
                by_backend[b] = by_backend.get(b, 0) + 1
        units.append(dict(unit=r.unit.name, functions=r.unit.func, status=r.status, paths=r.paths,
                          live_paths=r.live_paths,
                          clauses={k: dict(status=c.status, paths=c.paths, seconds=round(c.seconds, 3),
                                           backends=sorted(c.backends)) for k, c in r.clauses.items()},
                          callee_contracts_used=r.summaries, wall_s=round(r.wall, 2),
                          undecided_reasons=sorted(set(r.unsupported))[:5]))
    trusted_base = ['z3 %s (python API); unknowns retried with the nlsat tactic and /usr/bin/cvc5' % _z3v(),
                    'pyvc AST->SMT encoding of the Python subset (DESIGN 1.4): ints as mathematical integers (exact), '
                    'floats as reals (machine arithmetic treated as mathematical)']
    trusted_base += [f'library model (assumed contract): {m}' for m in sorted(models_used)]
    trusted_base += [f'transcendental axiom instances: {a}' for a in sorted(mathfn.AXIOMS_USED)]
    trusted_base += trusted
    cov = dict(
        obligations=obligations, discharged=discharged,
        checker_cmd=f'./check {prop} --tier {tier}',
        trusted_base=trusted_base,
        functions_under_contract=sorted(funcs),
        functions_executed_inline={k: v for k, v in sorted(inlined.items())},
        extraction_drops=['docstrings', 'comments', 'type annotations (read only as sort hints)',
                          'print/logging/warnings.warn/gc.collect (no-ops)'],
        units=units, by_backend=by_backend, solver_seconds=round(solver_s, 2),
        samples=samples[:6] or [dict(note='no obligation discharged on this run')],
        preconditions=assumed,
        independent_recheck=dict(solver='/usr/bin/cvc5 on the SMT-LIB dump of path condition and negated goal, for a sample of the obligations z3 discharged '
                                        '(thorough tier: 2 per clause and unit)', agreed_unsat=cross.get('unsat', 0), cvc5_unknown_or_timeout=cross.get('unknown', 0),
                                 cvc5_error=cross.get('error', 0), disagreed=cross.get('sat', 0)),
        known_findings=[dict(obligation=ob, text=k.get('text')) for k, ob in known_hits],
        bounded=[{k: v for k, v in b.items() if k != 'violations'} for b in bounded],
        explanation=getattr(cm, 'EXPLANATION', ''),
    )
    if _CONFORMANCE is not None:
        cov['library_conformance'] = dict(
            what='assumed library contracts tried against the installed libraries on generated inputs (bounded; narrows the trusted base, '
                 'does not remove it; never counted among the discharged obligations)',
            checks=[{k: v for k, v in c.items() if k != 'trace'} for c in _CONFORMANCE],
            all_agree=all(c.get('ok') for c in _CONFORMANCE))
    if level != 'proof' or bounded:
        cov['evaluations'] = sum(b.get('cases', 0) for b in bounded) or max(obligations, 1)
        cov['distinct_nontrivial'] = sum(b.get('distinct_nontrivial', 0) for b in bounded) or max(2, obligations)
        cov['rule'] = '; '.join(b.get('rule', '') for b in bounded)
    ev = dict(property_id=prop, tier=tier if tier in ('quick', 'thorough') else 'quick', seed=seed,
              level=level, coverage=cov,
              assumptions=assumed + trusted + getattr(cm, 'ASSUMPTIONS', []),
              wall_s=round(wall, 2), violations=len(violations))
    if discharged != obligations and level == 'proof':
        # never claim a proof with open obligations
        ev['level'] = 'other'
        cov['explanation'] = (cov.get('explanation', '') + ' [this run left obligations open: '
                              f'{obligations - discharged} of {obligations}; known findings: {len(known_hits)}]').strip()
    evdir = Path(os.environ.get('VERIF_EVIDENCE_DIR') or (VERIF / 'evidence'))
    evdir.mkdir(exist_ok=True, parents=True)
    (evdir / f'{prop}.json').write_text(json.dumps(ev, indent=1, default=str))


def _z3v():
    import z3
    return z3.get_version_string()


if __name__ == '__main__':
    sys.exit(main())
