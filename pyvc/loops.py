"""Loops over a symbolic number of iterations: inductive invariants (never unrolled to a bound).

``invariant_while(name, inv, havoc)`` returns a handler for ``Interp.loop_invariants``:
  1. the invariant is proved on entry,
  2. everything the loop may modify is havocked (``havoc``), the invariant is assumed,
  3. one arbitrary iteration is executed from that state and the invariant is proved again
     (that path then ends), and
  4. execution continues after the loop from the havocked state with invariant and exit condition.
Termination is not proved.
"""
from __future__ import annotations

import os

from .rt import _Break, _Continue


def _prove(ctx, clause, formula):
    r = ctx.prove(clause, formula)
    if os.environ.get('VERIF_DEBUG_INV') and getattr(r, 'status', None) != 'proved':
        import z3
        for c in (formula.children() if z3.is_and(formula) else [formula]):
            q = ctx._check(z3.Not(c))
            if q != z3.unsat:
                print('   [inv-debug]', clause, '->', q, ':', str(c)[:300])
    return r


class LoopDone(Exception):
    """End of the 'arbitrary iteration' path of an invariant loop."""


def invariant_while(name, inv, havoc):
    def handler(I, st, fr):
        ctx = I.ctx
        _prove(ctx, name + '/invariant-holds-on-entry', inv(I, fr))
        havoc(I, fr)
        ctx.assume(inv(I, fr))
        c = I.eval(st.test, fr)
        if I.truth(c):
            try:
                I.exec_block(st.body, fr)
            except _Break:
                return
            except _Continue:
                pass
            _prove(ctx, name + '/invariant-preserved-by-an-arbitrary-iteration', inv(I, fr))
            raise LoopDone()
        I.exec_block(st.orelse, fr)
    return handler


def invariant_for_range(name, inv, havoc):
    """for <target> in range(n) with symbolic n.  ``inv(I, fr, i)`` is the invariant before
    iteration i (0 <= i <= n); havoc(I, fr) havocs the modified state."""
    import z3

    def handler(I, st, fr):
        ctx = I.ctx
        it = I.eval(st.iter, fr)
        from .models.arrays import SArr
        if not (isinstance(it, SArr) and not isinstance(it.length, int)):
            # concrete range / sequence: plain unrolling is exact
            for item in I.iterate(it):
                I.assign(st.target, item, fr)
                try:
                    I.exec_block(st.body, fr)
                except _Break:
                    return
                except _Continue:
                    continue
            I.exec_block(st.orelse, fr)
            return
        n = it.length
        _prove(ctx, name + '/invariant-holds-on-entry', inv(I, fr, z3.IntVal(0)))
        havoc(I, fr)
        i = ctx.fresh('i', z3.IntSort())
        if I.ctx.choose(2, lambda k: True) == 0:
            # arbitrary iteration i
            ctx.assume(z3.And(i >= 0, i < n))
            ctx.assume(inv(I, fr, i))
            I.assign(st.target, it.at(i), fr)
            try:
                I.exec_block(st.body, fr)
            except _Break:
                return
            except _Continue:
                pass
            _prove(ctx, name + '/invariant-preserved-by-an-arbitrary-iteration', inv(I, fr, i + 1))
            raise LoopDone()
        # after the loop (no break): invariant at i = n
        ctx.assume(inv(I, fr, n))
        I.exec_block(st.orelse, fr)
    return handler


def invariant_for_range_peeled(name, inv, havoc):
    """As invariant_for_range, but iteration 0 is executed from the actual entry state (exact) and the
    invariant ``inv(I, fr, i)`` is stated for 1 <= i <= n.  Useful when the first iteration initialises
    state (fields that are unset on entry and set in every iteration)."""
    import z3

    def handler(I, st, fr):
        ctx = I.ctx
        it = I.eval(st.iter, fr)
        from .models.arrays import SArr
        if not (isinstance(it, SArr) and it.kind == 'range'):
            raise_unsupported('peeled invariant needs a symbolic range')
        n = it.length
        if not I.truth(z3.IntVal(0) < n if not isinstance(n, int) else 0 < n):
            I.exec_block(st.orelse, fr)
            return
        I.assign(st.target, it.at(0), fr)
        try:
            I.exec_block(st.body, fr)
        except _Break:
            return
        except _Continue:
            pass
        _prove(ctx, name + '/invariant-holds-after-the-first-iteration', inv(I, fr, z3.IntVal(1)))
        havoc(I, fr)
        i = ctx.fresh('i', z3.IntSort())
        if I.ctx.choose(2, lambda k: True) == 0:
            ctx.assume(z3.And(i >= 1, i < n))
            ctx.assume(inv(I, fr, i))
            I.assign(st.target, it.at(i), fr)
            try:
                I.exec_block(st.body, fr)
            except _Break:
                return
            except _Continue:
                pass
            _prove(ctx, name + '/invariant-preserved-by-an-arbitrary-iteration', inv(I, fr, i + 1))
            raise LoopDone()
        ctx.assume(inv(I, fr, n))
        I.exec_block(st.orelse, fr)
    return handler


def raise_unsupported(msg):
    from .source import Unsupported
    raise Unsupported(msg)
