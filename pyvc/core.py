"""Path exploration, solver access and obligation bookkeeping.

Paths are explored by *re-execution with a decision trace*: a proof unit is run from the start;
every symbolic branch consults the trace; after a path ends the last decision with an untried
alternative is flipped and the unit is re-run.  No mutable state is copied between paths, and
every path starts from a fresh ``World`` (module globals / class attributes are per path).
"""
from __future__ import annotations

import os
import time

import z3

from .source import Unsupported


class Impure(Exception):
    """Raised inside speculative (merge) evaluation when a fork / side effect is needed."""


class PathLimit(Exception):
    pass


class Decision:
    __slots__ = ('choice', 'n', 'forced', 'alts')

    def __init__(self, choice, n, forced):
        self.choice = choice
        self.n = n
        self.forced = forced
        self.alts = None


class ObligationResult:
    def __init__(self, name, status, model=None, formula=None, where=None, seconds=0.0,
                 backend='z3', path=None, note=None):
        self.name = name
        self.status = status       # proved | refuted | unknown
        self.model = model
        self.formula = formula
        self.where = where
        self.seconds = seconds
        self.backend = backend
        self.path = path
        self.note = note


class PathCtx:
    """Solver + path condition + decision trace of one path."""

    def __init__(self, trace, timeout_ms=10000, seed=0):
        self.trace = trace
        self.pos = 0
        self.solver = z3.Solver()
        self.solver.set('timeout', timeout_ms)
        self.solver.set('random_seed', seed % (2 ** 31))
        self.timeout_ms = timeout_ms
        self.pc = []
        self.results: list[ObligationResult] = []
        self.memo_state_reads = []      # (memoised function, module.name) pairs: reads of rebindable module state inside a memoised function
        self.memoised_entered = set()
        self.fresh_counter = 0
        self.pure_depth = 0
        self.solver_seconds = 0.0
        self.named = {}            # name -> z3 const (inputs, for model read-back)
        self.notes = []
        self.functions_entered = {}
        self.summaries_used = {}
        self.assumed = []
        self._deferred = []
        # a second, 'light' solver holding only the small quantifier-free conjuncts of the path condition:
        # most branch conditions (signs, ranges, enum ordinals) are settled by those alone, without dragging
        # the large nonlinear terms into every query
        self.light = z3.Solver()
        self.light.set('timeout', 150)
        self._light_marks = []

    # -- symbols ---------------------------------------------------------------------------
    def fresh(self, base, sort):
        self.fresh_counter += 1
        return z3.Const(f'{base}!{self.fresh_counter}', sort)

    def const(self, name, sort):
        c = z3.Const(name, sort)
        self.named[name] = c
        return c

    def real(self, name):
        return self.const(name, z3.RealSort())

    def int(self, name):
        return self.const(name, z3.IntSort())

    def bool(self, name):
        return self.const(name, z3.BoolSort())

    # -- path condition -----------------------------------------------------------------------
    def assume(self, cond):
        if cond is True:
            return
        if cond is False:
            cond = z3.BoolVal(False)
        self.pc.append(cond)
        self.solver.add(cond)
        try:
            if not z3.is_quantifier(cond) and _small(cond):
                self.light.add(cond)
        except z3.Z3Exception:
            pass

    def axiom(self, fact):
        """A universally valid fact (an instance of a library axiom): survives speculative
        evaluation, whose own assumptions are discarded."""
        if self.pure_depth:
            self._deferred.append(fact)
        self.assume(fact)

    def light_decides(self, cond):
        """True / False if the small facts alone settle cond, else None."""
        try:
            if not _small(cond, 9):
                return None
            self.light.push()
            self.light.add(z3.Not(cond))
            r = self.light.check()
            self.light.pop()
            if r == z3.unsat:
                return True
            self.light.push()
            self.light.add(cond)
            r = self.light.check()
            self.light.pop()
            if r == z3.unsat:
                return False
        except z3.Z3Exception:
            pass
        return None

    def past_deadline(self):
        d = DEADLINE[0]
        return d is not None and time.time() > d

    def _check(self, *extra):
        if self.past_deadline():
            return z3.unknown          # the unit's wall-clock budget is used up: nothing further is decided (never a verdict)
        t0 = time.time()
        self.solver.push()
        try:
            for e in extra:
                self.solver.add(e)
            r = self.solver.check()
        finally:
            self.solver.pop()
            self.solver_seconds += time.time() - t0
        return r

    def sign_decides(self, cond):
        """True / False if sign lemmas (pyvc.signs) settle the comparison, else None."""
        if not SIGN_LEMMAS[0]:
            return None
        from .signs import sign_decides
        return sign_decides(self, cond)

    def feasible(self, cond):
        """Is pc /\\ cond satisfiable?  unknown counts as feasible (conservative)."""
        q = self.light_decides(cond) if z3.is_expr(cond) else None
        if q is None and z3.is_expr(cond):
            q = self.sign_decides(cond)
        if q is not None:
            return q
        return self._check(cond) != z3.unsat

    def entails(self, cond):
        q = self.light_decides(cond) if z3.is_expr(cond) else None
        if q is None and z3.is_expr(cond):
            q = self.sign_decides(cond)
        if q is not None:
            return q
        return self._check(z3.Not(cond)) == z3.unsat

    # -- branching ---------------------------------------------------------------------------
    def choose(self, n, feas):
        """n-way choice; feas(i) -> bool tells whether alternative i is feasible (evaluated
        lazily, only when a new decision is created)."""
        if self.pure_depth:
            raise Impure('fork needed')
        if self.pos < len(self.trace):
            d = self.trace[self.pos]
            self.pos += 1
            return d.choice
        alts = [i for i in range(n) if feas(i)]
        if not alts:
            # infeasible path: pc is unsat (or solver confused); abandon
            raise InfeasiblePath()
        d = Decision(alts[0], n, forced=(len(alts) == 1))
        d.alts = alts
        self.trace.append(d)
        self.pos += 1
        return d.choice

    def branch(self, cond):
        """Python truth value of a z3 Bool under the current path; forks when undetermined."""
        if isinstance(cond, bool):
            return cond
        cond = z3.simplify(cond)
        if z3.is_true(cond):
            return True
        if z3.is_false(cond):
            return False
        quick = self.light_decides(cond)
        if quick is not None and not (self.pos < len(self.trace)):
            if not self.pure_depth:
                # record as a forced decision so that replays of this path stay aligned
                d = Decision(0 if quick else 1, 2, True)
                d.alts = [d.choice]
                self.trace.append(d)
                self.pos += 1
                self.assume(cond if quick else z3.Not(cond))
            return quick
        if self.pure_depth:
            if self.entails(cond):
                return True
            if self.entails(z3.Not(cond)):
                return False
            raise Impure('fork needed')
        c = self.choose(2, lambda i: self.feasible(cond if i == 0 else z3.Not(cond)))
        if c == 0:
            self.assume(cond)
            return True
        self.assume(z3.Not(cond))
        return False

    # -- obligations -------------------------------------------------------------------------
    def prove(self, name, goal, where=None, note=None):
        """Check pc => goal.  Records the result; returns status."""
        t0 = time.time()
        if isinstance(goal, bool):
            goal = z3.BoolVal(goal)
        status, model = 'unknown', None
        if self.past_deadline():
            res = ObligationResult(name, 'unknown', None, goal, where, 0.0, 'none (unit wall-clock budget used up)',
                                   path=[d.choice for d in self.trace[: self.pos]], note=note)
            res.cross = None
            self.results.append(res)
            return res
        self.solver.push()
        try:
            # first attempt: the path's incremental solver with a short budget; nonlinear queries
            # that it leaves open go to fresh one-shot solvers (nlsat, default, cvc5) below
            self.solver.set('timeout', min(self.timeout_ms, 3000))
            self.solver.add(z3.Not(goal))
            r = self.solver.check()
            if r == z3.unsat:
                status = 'proved'
            elif r == z3.sat:
                status = 'refuted'
                model = self.solver.model()
        finally:
            self.solver.pop()
            self.solver.set('timeout', self.timeout_ms)
        backend = 'z3'
        if status == 'unknown' and self.sign_decides(goal) is True:
            status, backend = 'proved', 'z3-sign-lemmas'
        if status == 'unknown':
            # resolve if-then-else terms whose condition is settled by the simple facts of the path condition,
            # then rewrite; a goal that rewrites to true needs no search at all
            try:
                g2 = z3.simplify(resolve_ites(goal, self.pc, light=self.light))
                if z3.is_true(g2):
                    status, backend = 'proved', 'z3-rewrite'
            except z3.Z3Exception:
                pass
        # a clause that has already been left open on earlier paths of this unit cannot end up proved: later paths get
        # the base budget only (they can still refute it with a model), not the long retries
        open_before = GAVE_UP.get(name, 0)
        if status == 'unknown' and open_before < 4:
            status, model, backend = second_opinion(self.pc, goal, self.timeout_ms)
        if status == 'unknown' and open_before < 2:
            # last resort before giving up: the same back ends with four times the budget (a loaded machine must not
            # turn a discharged obligation into an undecided one)
            status, model, backend = second_opinion(self.pc, goal, min(4 * self.timeout_ms, 120000))
            backend = backend + '-retry' if status != 'unknown' else backend
        if status == 'unknown':
            GAVE_UP[name] = open_before + 1
        cross = None
        if status == 'proved' and backend == 'z3' and CROSSCHECK['per_clause'] > 0:
            # thorough tier: an independent solver re-checks a sample of the obligations z3 discharged
            seen = CROSSCHECK['seen']
            if seen.get(name, 0) < CROSSCHECK['per_clause']:
                seen[name] = seen.get(name, 0) + 1
                cross = cvc5_check(self.pc, goal, 15000)
                if cross == 'sat':
                    status, backend = 'unknown', 'z3-vs-cvc5-disagree'
                    note = (note or '') + ' [z3 says unsat, cvc5 says sat: treated as undecided]'
        dt = time.time() - t0
        self.solver_seconds += dt
        res = ObligationResult(name, status, model, goal, where, dt, backend,
                               path=[d.choice for d in self.trace[: self.pos]], note=note)
        res.cross = cross
        self.results.append(res)
        return res


CROSSCHECK = dict(per_clause=0, seen={})
DEADLINE = [None]        # wall-clock time after which the current unit stops asking the heavy back ends
SIGN_LEMMAS = [os.environ.get('VERIF_SIGN_LEMMAS', '1') != '0']
GAVE_UP = {}        # clause name -> number of paths of the current unit on which it stayed undecided


def cvc5_check(pc, goal, timeout_ms):
    """pc /\\ not goal on /usr/bin/cvc5 (SMT-LIB dump of the z3 assertions): 'unsat' | 'sat' | 'unknown' | 'error'."""
    import os
    import subprocess
    import tempfile
    try:
        s = z3.Solver()
        for c in pc:
            s.add(c)
        s.add(z3.Not(goal))
        smt = '(set-logic ALL)\n' + s.to_smt2()
        fd, fn = tempfile.mkstemp(suffix='.smt2', dir=os.environ.get('VERIF_SCRATCH'))
        os.write(fd, smt.encode())
        os.close(fd)
        try:
            out = subprocess.run(['/usr/bin/cvc5', f'--tlimit={timeout_ms}', fn], capture_output=True, text=True, timeout=timeout_ms / 1000 + 5)
            ans = out.stdout.strip().splitlines()[0] if out.stdout.strip() else ''
        finally:
            os.unlink(fn)
        return ans if ans in ('unsat', 'sat', 'unknown') else ('unknown' if 'timeout' in (out.stdout + out.stderr).lower() or 'interrupted' in (out.stdout + out.stderr).lower() else 'error')
    except Exception:   # noqa
        return 'error'


class InfeasiblePath(Exception):
    pass


def prove_from(ctx, name, goal, facts, note=None, timeout_ms=None):
    """Check  /\\ facts => goal  in a fresh solver (facts are stated preconditions, axiom instances or
    clauses already proved on this path -- never the whole path condition)."""
    t0 = time.time()
    s = z3.Solver()
    s.set('timeout', timeout_ms or ctx.timeout_ms)
    for f in facts:
        s.add(f)
    s.add(z3.Not(goal))
    r = s.check()
    status, model, backend = 'unknown', None, 'z3-oneshot'
    if r == z3.unsat:
        status = 'proved'
    elif r == z3.sat:
        status, model = 'refuted', s.model()
    else:
        status, model, backend = second_opinion(list(facts), goal, timeout_ms or ctx.timeout_ms)
    dt = time.time() - t0
    ctx.solver_seconds += dt
    res = ObligationResult(name, status, model, goal, None, dt, backend,
                           path=[d.choice for d in ctx.trace[: ctx.pos]], note=note)
    ctx.results.append(res)
    return res


def _small(e, depth=7):
    """Cheap proxy for 'a small term' (C-side depth computation, no Python traversal)."""
    try:
        return z3.Z3_get_depth(e.ctx.ref(), e.as_ast()) <= depth
    except Exception:   # noqa
        return False


def _size(e, limit=400):
    seen, stack, n = set(), [e], 0
    while stack:
        x = stack.pop()
        if x.get_id() in seen:
            continue
        seen.add(x.get_id())
        n += 1
        if n > limit:
            return n
        stack.extend(x.children())
    return n


def resolve_ites(term, pc, per_cond_ms=300, light=None):
    """Replace If(c, a, b) by a / b where the *small* conjuncts of the path condition settle c."""
    conds = {}
    seen, stack = set(), [term]
    while stack:
        x = stack.pop()
        if x.get_id() in seen:
            continue
        seen.add(x.get_id())
        if z3.is_app_of(x, z3.Z3_OP_ITE):
            c = x.arg(0)
            conds[c.get_id()] = c
        stack.extend(x.children())
    if not conds:
        return term
    if light is None:
        light = z3.Solver()
        light.set('timeout', per_cond_ms)
        for p in pc:
            if not z3.is_quantifier(p) and _size(p, 120) <= 120:
                light.add(p)
    subs = []
    # innermost conditions first is not needed: substitution is simultaneous on settled conditions
    for c in conds.values():
        if _size(c, 200) > 200:
            continue
        light.push()
        light.add(z3.Not(c))
        r = light.check()
        light.pop()
        if r == z3.unsat:
            subs.append((c, z3.BoolVal(True)))
            continue
        light.push()
        light.add(c)
        r = light.check()
        light.pop()
        if r == z3.unsat:
            subs.append((c, z3.BoolVal(False)))
    if not subs:
        return term
    return z3.substitute(term, *subs)


def second_opinion(pc, goal, timeout_ms):
    """Other back ends for queries z3's default tactic leaves unknown: z3 with the nlsat /
    qfnra tactic, then /usr/bin/cvc5 on an SMT-LIB dump."""
    import subprocess
    import tempfile
    import os
    try:
        s = z3.Tactic('qfnra-nlsat').solver()
        s.set('timeout', timeout_ms)
        for c in pc:
            s.add(c)
        s.add(z3.Not(goal))
        r = s.check()
        if r == z3.unsat:
            return 'proved', None, 'z3-nlsat'
        if r == z3.sat:
            return 'refuted', s.model(), 'z3-nlsat'
    except z3.Z3Exception:
        pass
    try:
        s = z3.Solver()
        s.set('timeout', timeout_ms)
        for c in pc:
            s.add(c)
        s.add(z3.Not(goal))
        r = s.check()
        if r == z3.unsat:
            return 'proved', None, 'z3-oneshot'
        if r == z3.sat:
            return 'refuted', s.model(), 'z3-oneshot'
    except z3.Z3Exception:
        pass
    try:
        s = z3.Solver()
        for c in pc:
            s.add(c)
        s.add(z3.Not(goal))
        smt = '(set-logic ALL)\n' + s.to_smt2()
        fd, fn = tempfile.mkstemp(suffix='.smt2', dir=os.environ.get('VERIF_SCRATCH'))
        os.write(fd, smt.encode())
        os.close(fd)
        try:
            out = subprocess.run(['/usr/bin/cvc5', f'--tlimit={timeout_ms}', fn],
                                 capture_output=True, text=True, timeout=timeout_ms / 1000 + 5)
            ans = out.stdout.strip().splitlines()[0] if out.stdout.strip() else ''
        finally:
            os.unlink(fn)
        if ans == 'unsat':
            return 'proved', None, 'cvc5'
        # a cvc5 'sat' carries no model we can replay here; keep it undecided rather than
        # turning an unconfirmed answer into a violation
    except Exception:
        pass
    return 'unknown', None, 'z3+nlsat+cvc5'


def explore(unit_fn, make_ctx, max_paths=4000):
    """Run ``unit_fn(ctx)`` over all feasible paths.  Returns list of PathCtx."""
    trace = []
    done = []
    while True:
        ctx = make_ctx(trace)
        try:
            unit_fn(ctx)
            ctx.outcome = 'ok'
        except InfeasiblePath:
            ctx.outcome = 'infeasible'
        done.append(ctx)
        if DEADLINE[0] is not None and time.time() > DEADLINE[0]:
            e = PathLimit('the unit used up its wall-clock budget')
            e.done = done
            raise e
        if len(done) > max_paths:
            e = PathLimit(f'more than {max_paths} paths')
            e.done = done        # what was explored is still sound: a clause refuted on a feasible path stays refuted
            raise e
        # flip the last non-exhausted decision
        trace = trace[: ctx.pos] if ctx.pos <= len(trace) else trace
        while trace:
            d = trace[-1]
            alts = getattr(d, 'alts', None)
            if alts is None:
                trace.pop()
                continue
            i = alts.index(d.choice)
            if i + 1 < len(alts):
                nd = Decision(alts[i + 1], d.n, d.forced)
                nd.alts = alts
                trace[-1] = nd
                break
            trace.pop()
        else:
            break
        # decisions before the flipped one are replayed as-is
    return done
