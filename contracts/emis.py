"""Shared set-up for the emissions properties (C01, C11): symbolic emissions configuration, symbolic
performance / trajectory data, contracts of the EI kernels (proved under C12) and prefix sums.
"""
from __future__ import annotations

import z3

from pyvc.models.arrays import SArr
from pyvc.source import Unsupported
from pyvc.values import Builtin, EnumMember, Model, Obj, PyExc, SymEnum, to_real, to_z3

E = 'AEIC.emissions'
CFG = 'AEIC.config.emissions'
Z, R = z3.IntSort(), z3.RealSort()
SPECIES = ['CO2', 'H2O', 'HC', 'CO', 'NOx', 'NO', 'NO2', 'HONO', 'PMnvol', 'PMnvolGMD', 'PMvol', 'OCic', 'SOx', 'SO2', 'SO4', 'PMnvolN']


def sym_enum(h, cls, name):
    o = h.int('opt_' + name)
    h.ctx.assume(z3.And(o >= 0, o < len(cls.members)))
    return SymEnum(cls, o)


def setup_config(h, fixed=None):
    """Install an active configuration whose twelve documented emissions options are symbolic:
    methods are symbolic enum members, switches symbolic Booleans.  Code that inspects an option forks
    there and only there."""
    I = h.I
    fixed = fixed or {}
    g = lambda n: I.lookup_fq(f'{CFG}:{n}')     # noqa
    NOx, PMv, PMn, CDM = g('EINOxMethod'), g('PMvolMethod'), g('PMnvolMethod'), g('ClimbDescentMode')

    def en(cls, name):
        if name in fixed:
            return next(m for m in cls.members if m.name == fixed[name])
        return sym_enum(h, cls, name)

    def sw(name):
        return fixed[name] if name in fixed else h.bool('opt_' + name)
    ec = h.new(f'{CFG}:EmissionsConfig', fuel='conventional_jetA',
               climb_descent_mode=en(CDM, 'climb_descent_mode'), co2_enabled=sw('co2_enabled'), h2o_enabled=sw('h2o_enabled'),
               sox_enabled=sw('sox_enabled'), nox_method=en(NOx, 'nox_method'), hc_method=en(NOx, 'hc_method'),
               co_method=en(NOx, 'co_method'), pmvol_method=en(PMv, 'pmvol_method'), pmnvol_method=en(PMn, 'pmnvol_method'),
               apu_enabled=sw('apu_enabled'), gse_enabled=sw('gse_enabled'), lifecycle_enabled=sw('lifecycle_enabled'))
    cfg = h.new('AEIC.config.core:Config', emissions=ec)
    mod = I.get_module('AEIC.config.core')
    I.module_get(mod, 'Config')
    I.module_globals(mod)['_config'] = cfg
    return ec


def species_enum(h):
    S = h.I.lookup_fq('AEIC.types.species:Species')
    return S, {m.name: m for m in S.members}


def thrust_modes(h):
    TM = h.I.lookup_fq('AEIC.performance.types:ThrustMode')
    return TM, list(TM.members)


def tmv(h, name, cond=lambda v: v >= 0, mutable=False):
    I = h.I
    TMV = I.lookup_fq('AEIC.performance.types:ThrustModeValues')
    TM, modes = thrust_modes(h)
    vals = {}
    for m in modes:
        v = h.real(f'{name}_{m.name}')
        if cond is not None:
            h.ctx.assume(cond(v))
        vals[m] = v
    return I.call(TMV, [dict(vals)], dict(mutable=mutable)), vals


class Sums:
    """np.sum over symbolic-length arrays: prefix-sum functions PS_a (PS(0) = 0, PS(m+1) = PS(m) + a(m)).
    A slice a[s:e] of an array sums to PS_a(e) - PS_a(s).  The recursive definition is available as
    instances (unfold); inductive lemmas are proved by base + step obligations."""

    def __init__(self, h):
        self.h = h
        self.memo = {}
        h.I.hooks['sum_of'] = self.sum_of
        h.trust('np.sum of an array = its prefix-sum function (PS(0)=0, PS(m+1)=PS(m)+a(m)); a slice sums to a difference of prefix sums')

    def ps(self, fn):
        key = id(fn)
        if key not in self.memo:
            f = z3.Function(f'prefix_sum_{len(self.memo)}', Z, R)
            self.memo[key] = (f, fn)
            self.h.ctx.assume(f(0) == 0)
        return self.memo[key][0]

    def base_of(self, arr):
        par = getattr(arr, 'parent', None)
        if par is not None:
            fn, off = par
            return fn, off
        return arr.fn, 0

    def sum_of(self, I, arr, lo, hi):
        fn, off = self.base_of(arr)
        f = self.ps(fn)
        o = to_z3(off)
        n = to_z3(arr.length)
        return f(z3.simplify(o + n)) - f(o)

    def unfold(self, fn, m):
        """The defining equation of the prefix sum of fn at m (an axiom instance)."""
        f = self.ps(fn)
        m = to_z3(m)
        self.h.ctx.assume(z3.Implies(m >= 0, f(m + 1) == f(m) + to_real(fn(m))))


def kernel_contracts(h, n):
    """Contracts of the EI kernels as proved under C12: arrays of the trajectory's length with
    non-negative elements, NO + NO2 + HONO = NOx point-wise."""
    I = h.I
    h.trust('EI kernels by their C12 contracts: BFFM2_EINOx, EI_HCCO, EI_PMvol_*, PMnvol_MEEM, scope11_profile, '
            'get_SLS_equivalent_fuel_flow, AtmosphericState return arrays of the trajectory length with non-negative elements; '
            'NO+NO2+HONO = NOx point-wise')
    cnt = [0]

    def fresh_arr(tag, like=None):
        cnt[0] += 1
        ln = n if like is None else I.len_(like)
        return SArr.symbolic(h.ctx, f'{tag}_{cnt[0]}', ln, where=lambda v: v >= 0)

    class Atmos(Model):
        def __init__(self):
            self.temperature, self.pressure, self.mach = fresh_arr('T'), fresh_arr('P'), fresh_arr('M')

        def py_getattr(self, I_, name):
            return getattr(self, name)
    I.models['new:AEIC.emissions.types:AtmosphericState'] = lambda I_, cls, *a, **k: Atmos()
    h.summary(f'{E}.utils:get_SLS_equivalent_fuel_flow', lambda I_, fi, a, k: fresh_arr('sls_ff'))

    def nox(I_, fi, a, k):
        NOx = fresh_arr('NOxEI')
        pn, pn2 = fresh_arr('noProp'), fresh_arr('no2Prop')
        ph = SArr(n, lambda kk: 1 - to_real(pn.at(kk)) - to_real(pn2.at(kk)))

        def frac(p):
            def f(kk):
                h.ctx.axiom(z3.Implies(z3.And(to_z3(kk) >= 0, to_z3(kk) < n),
                                       z3.And(to_real(pn.at(kk)) + to_real(pn2.at(kk)) <= 1)))
                return to_real(NOx.at(kk)) * to_real(p.at(kk))
            return SArr(n, f)
        R_ = I_.lookup_fq(f'{E}.ei.nox:BFFM2EINOxResult')
        o = Obj(R_)
        o.attrs.update(NOxEI=NOx, NOEI=frac(pn), NO2EI=frac(pn2), HONOEI=frac(ph), noProp=pn, no2Prop=pn2, honoProp=ph)
        return o
    h.summary(f'{E}.ei.nox:BFFM2_EINOx', nox)
    h.summary(f'{E}.ei.hcco:EI_HCCO', lambda I_, fi, a, k: fresh_arr('hcco'))
    h.summary(f'{E}.ei.pmvol:EI_PMvol_FuelFlow', lambda I_, fi, a, k: (fresh_arr('pmvol', a[0]), fresh_arr('ocic', a[0])))
    h.summary(f'{E}.ei.pmvol:EI_PMvol_FOA3', lambda I_, fi, a, k: (fresh_arr('pmvol', a[0]), fresh_arr('ocic', a[0])))
    h.summary(f'{E}.ei.pmnvol:PMnvol_MEEM', lambda I_, fi, a, k: (fresh_arr('gmd'), fresh_arr('pmnvol'), fresh_arr('pmnvolN')))

    def scope11(I_, fi, a, k):
        P = I_.lookup_fq(f'{E}.utils:Scope11Profile')
        mass, _ = tmv(h, f'scope11_mass_{cnt[0]}')
        cnt[0] += 1
        return I_.call(P, [mass, None], {})
    h.summary(f'{E}.utils:scope11_profile', scope11)
    return fresh_arr


class PM(Model):
    """Performance model data as seen by the emissions code."""

    def __init__(self, **kw):
        self.__dict__.update(kw)

    def py_getattr(self, I, name):
        if name in self.__dict__:
            return self.__dict__[name]
        raise Unsupported('performance model.' + name)


class Traj(Model):
    type_names = ('Trajectory',)

    def __init__(self, n, **kw):
        self.n = n
        self.__dict__.update(kw)

    def py_len(self, I):
        return self.n

    def py_getattr(self, I, name):
        if name in self.__dict__:
            return self.__dict__[name]
        raise Unsupported('trajectory.' + name)


def make_fuel(h):
    co2, h2o = h.real('fuel_EI_CO2'), h.real('fuel_EI_H2O')
    S, y = h.real('fuel_sulfur_ppm'), h.real('fuel_sulfate_yield')
    h.assume(z3.And(co2 > 0, h2o >= 0, S >= 0, y >= 0, y <= 1), 'fuel: EI_CO2 > 0, EI_H2O >= 0, sulfur >= 0, sulfate yield in [0,1]')
    lc = h.real('fuel_lifecycle_CO2')
    en = h.real('fuel_energy_MJ_per_kg')
    h.assume(z3.And(lc >= 0, en > 0))
    return h.new('AEIC.types.fuel:Fuel', name='f', EI_CO2=co2, EI_H2O=h2o, fuel_sulfur_content_nom=S, sulfate_yield_nom=y,
                 lifecycle_CO2=lc, energy_MJ_per_kg=en, non_volatile_carbon_fraction=h.real('fuel_nvcf'))


def make_lto(h):
    ff, _ = tmv(h, 'lto_ff', cond=lambda v: v > 0)
    nox, _ = tmv(h, 'lto_EI_NOx')
    hc, _ = tmv(h, 'lto_EI_HC')
    co, _ = tmv(h, 'lto_EI_CO')
    pct, _ = tmv(h, 'lto_thrust_pct', cond=lambda v: z3.And(v >= 0, v <= 100))
    return h.new('AEIC.performance.types:LTOPerformance', source='EDB', ICAO_UID='x', rated_thrust=h.real('rated'),
                 thrust_pct=pct, fuel_flow=ff, EI_NOx=nox, EI_HC=hc, EI_CO=co)


def make_traj(h, n):
    fm = SArr.symbolic(h.ctx, 'fuel_mass', n)
    nc, nd = h.int('n_climb'), h.int('n_descent')
    h.assume(z3.And(nc >= 0, nd >= 0, nc + nd <= n), 'phase point counts are non-negative and fit the trajectory')
    return Traj(n, fuel_mass=fm, altitude=SArr.symbolic(h.ctx, 'altitude', n), true_airspeed=SArr.symbolic(h.ctx, 'tas', n),
                fuel_flow=SArr.symbolic(h.ctx, 'fuel_flow', n, where=lambda v: v >= 0), n_climb=nc, n_descent=nd), fm, nc, nd


def sv_data(o):
    return o.attrs['_data'] if isinstance(o, Obj) else None


def internal_error(e: PyExc):
    return e.cls.name in ('KeyError', 'AttributeError', 'TypeError', 'AssertionError', 'IndexError', 'NameError', 'ZeroDivisionError',
                          'StopIteration', 'NonFiniteResult', 'UnboundLocalError')


UNSUPPORTED_VALUES = {'pmnvol_method': ['FOA3']}      # documented option values the trajectory part refuses (not implemented)


def names_method(e: PyExc, ec, h=None):
    """Is the refusal about an option whose value really is unsupported, and does its message name that value?  (Naming the
    value of some other option - a supported one - is not naming the unsupported method.)"""
    parts = e.inst.message_parts()
    text = ''.join(str(p) if isinstance(p, str) else (str(getattr(p, 'value', '')) if isinstance(p, EnumMember) else '') for p in parts)
    for opt, names in UNSUPPORTED_VALUES.items():
        v = ec.attrs.get(opt)
        for nm in names:
            if isinstance(v, EnumMember):
                hit, member = v.name == nm, v
            elif isinstance(v, SymEnum):
                member = next(m for m in v.cls.members if m.name == nm)
                hit = h is not None and h.ctx.entails(v.ord == member.index)
            else:
                continue
            if hit:
                return str(member.value) in text
    return False
