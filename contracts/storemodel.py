"""Shared ghost model for the TrajectoryStore properties (C07-C10).

At the store level a trajectory is an opaque record (its field-by-field round trip is C03's
subject).  A NetCDF file is a ghost sequence of rows with an unlimited trajectory dimension; netCDF4
variables follow Python negative indexing relative to the *current* length and raise IndexError out
of range (observed natively, DESIGN 1.7).  cachetools.LRUCache may evict any other entries on
insertion (through the subclass's own popitem, i.e. the real TrajectoryCache.popitem body).
"""
from __future__ import annotations

import z3

from pyvc.source import Unsupported
from pyvc.values import BUILTIN_EXCS, Builtin, Model, Obj, PyExc, to_z3

TS = 'AEIC.trajectories.store:TrajectoryStore'
Z = z3.IntSort()


class TrajRec(Model):
    """A trajectory as an opaque record: identity tid, schema hash, optional flight id."""
    type_names = ('Trajectory',)

    def __init__(self, tid, schema=0, fid=None, missing_required=False, label='', fieldsets=None):
        self.tid, self.schema, self.fid, self.missing_required, self.label = tid, schema, fid, missing_required, label
        self.fieldsets = set(fieldsets) if fieldsets is not None else {'base'}
        self.extra = {}

    def py_getattr(self, I, name):
        if name == 'flight_id':
            return self.fid
        if name == 'nbytes':
            return 1000
        if name == '_fieldsets':
            return set(self.fieldsets)
        if name == 'species':
            return []
        if name in self.extra:
            return self.extra[name]
        if name in FieldSetStub.FIELDS:
            # the record's value for a field of its field set (None = a required value that was never set)
            if name == 'f_scalar' and self.missing_required:
                return None
            return 'value-of-' + name
        raise Unsupported('Trajectory.' + name + ' (opaque at store level)')

    def py_setattr(self, I, name, val):
        self.extra[name] = val

    def py_hash(self, I):
        return self.schema

    def py_cmp(self, I, op, o):
        if op in ('==', '!='):
            r = (self.tid == o.tid) if isinstance(o, TrajRec) else False
            return r if op == '==' else (z3.Not(r) if z3.is_expr(r) else not r)
        return NotImplemented

    def __repr__(self):
        return f'<traj {self.tid}>'


class GhostFile:
    """Rows of one NetCDF file: row k holds trajectory id rows(k) for 0 <= k < length."""

    def __init__(self, name, length, rows, fids=None, has_index=False):
        self.name, self.length, self.rows, self.fids, self.has_index = name, length, rows, fids, has_index
        self.index_ids = None     # sorted (flight_id, row) table stored in the _index group
        self.index_rows = None
        self.species = None       # names in the file's species dimension (None: the file has no species dimension)

    def write_row(self, k, tid, fid=None):
        old, oldf = self.rows, self.fids
        kz = to_z3(k)
        self.rows = lambda j: z3.If(to_z3(j) == kz, tid, old(j))
        if oldf is not None and fid is not None:
            self.fids = lambda j: z3.If(to_z3(j) == kz, fid, oldf(j))
        self.length = z3.simplify(z3.If(kz >= to_z3(self.length), kz + 1, to_z3(self.length)))

    def effective_row(self, I, idx):
        """netCDF4 indexing: negative counts from the current end; IndexError outside."""
        n = to_z3(self.length)
        i = to_z3(idx)
        if I.ctx.branch(z3.Or(i >= n, i < -n)):
            I.raise_('IndexError', 'index exceeds dimension bounds')
        return z3.If(i < 0, i + n, i)


class NcDim(Model):
    def __init__(self, f):
        self.f = f

    def py_len(self, I):
        return self.f.length


class RowVar(Model):
    """A data variable of a field-set group: var[row] is the row's value of that field."""

    def __init__(self, f, name):
        self.f, self.name = f, name
        self.attrs = {}

    def py_setattr(self, I, name, val):
        self.attrs[name] = val

    def py_getattr(self, I, name):
        if name in self.attrs:
            return self.attrs[name]
        raise Unsupported('Variable.' + name)


class TrajVar(Model):
    def __init__(self, f):
        self.f = f

    def py_setitem(self, I, idx, val):
        return None


class Group(Model):
    def __init__(self, f, fields):
        self.f = f
        self.vars = {n: RowVar(f, n) for n in fields}

    def py_getattr(self, I, name):
        if name == 'variables':
            return self.vars
        if name == 'createVariable':
            def cv(n, *a, **k):
                self.vars[n] = RowVar(self.f, n)
                return self.vars[n]
            return Builtin('createVariable', cv, pure=False)
        raise Unsupported('Group.' + name)


class DatasetStub(Model):
    """netCDF4.Dataset over a ghost file: attributes, dimensions, variables, groups."""

    def __init__(self, f, attrs=None, fields=('f_point', 'f_scalar'), fs_names=('base',), index_group=False):
        self.f = f
        self.attrs = dict(attrs or {})
        self.dims = {'trajectory': NcDim(f)}
        self.vars = {'trajectory': TrajVar(f)}
        self.groups = {n: Group(f, fields) for n in fs_names}
        if index_group:
            self.groups['_index'] = IndexGroup(f)
        if getattr(f, 'species', None) is not None:
            self.dims['species'] = FixedDim(len(f.species))
            self.vars['species'] = SpeciesVar(f.species)
        self.closed = False

    def py_getattr(self, I, name):
        if name == 'close':
            def close():
                self.closed = True
            return Builtin('close', close, pure=False)
        if name == 'sync':
            return Builtin('sync', lambda: None)
        if name == 'dimensions':
            return self.dims
        if name == 'variables':
            return self.vars
        if name == 'groups':
            return self.groups
        if name == 'createDimension':
            def cd(n, size=None):
                self.dims[n] = NcDim(self.f) if n == 'trajectory' else FixedDim(size)
                return self.dims[n]
            return Builtin('createDimension', cd, pure=False)
        if name == 'createVariable':
            def cv(n, typ=None, dims=None, **k):
                self.vars[n] = TrajVar(self.f) if n == 'trajectory' else AnyVar()
                return self.vars[n]
            return Builtin('createVariable', cv, pure=False)
        if name == 'createGroup':
            def cg(n):
                self.groups[n] = IndexGroup(self.f) if n == '_index' else Group(self.f, ())
                return self.groups[n]
            return Builtin('createGroup', cg, pure=False)
        if name == 'createVLType':
            return Builtin('createVLType', lambda t, n: ('vlen', n), pure=False)
        if name in self.attrs:
            return self.attrs[name]
        I.raise_('AttributeError', f"NetCDF: Attribute not found: {name}")

    def py_setattr(self, I, name, val):
        self.attrs[name] = val


class SpeciesVar(Model):
    """The coordinate variable of a file's species dimension: the species names in slot order."""

    def __init__(self, names):
        self.names = list(names)

    def py_len(self, I):
        return len(self.names)

    def py_getitem(self, I, i):
        from pyvc.values import to_z3 as _tz
        iz = z3.simplify(_tz(i)) if not isinstance(i, int) else i
        k = iz if isinstance(iz, int) else iz.as_long()
        if not (-len(self.names) <= k < len(self.names)):
            I.raise_('IndexError', 'index exceeds dimension bounds')
        return self.names[k]


class FixedDim(Model):
    def __init__(self, size):
        self.size = size

    def py_len(self, I):
        return self.size


class AnyVar(Model):
    def __init__(self):
        self.attrs = {}

    def py_setitem(self, I, idx, val):
        return None

    def py_setattr(self, I, name, val):
        self.attrs[name] = val

    def py_getattr(self, I, name):
        if name in ('set_auto_mask', 'set_always_mask'):
            return Builtin(name, lambda *a: None)
        if name in self.attrs:
            return self.attrs[name]
        raise Unsupported('Variable.' + name)


class IndexGroup(Model):
    """The _index group: two parallel int64 variables (flight_id sorted, trajectory_index)."""

    def __init__(self, f):
        self.f = f
        self.vars = {'flight_id': IndexVar(f, 'ids'), 'trajectory_index': IndexVar(f, 'rows')}

    def py_getattr(self, I, name):
        if name == 'variables':
            return self.vars
        if name == 'createVariable':
            return Builtin('createVariable', lambda n, *a, **k: self.vars[n], pure=False)
        raise Unsupported('index group.' + name)


class IndexVar(Model):
    def __init__(self, f, which):
        self.f, self.which = f, which

    def py_getitem(self, I, idx):
        tab = self.f.index_ids if self.which == 'ids' else self.f.index_rows
        if tab is None:
            raise Unsupported('index table read before it was written')
        if isinstance(idx, slice):
            return tab
        return I.getitem(tab, idx)

    def py_setitem(self, I, idx, val):
        if not isinstance(idx, slice):
            raise Unsupported('partial index write')
        if self.which == 'ids':
            self.f.index_ids = val
        else:
            self.f.index_rows = val


class FieldStub(Model):
    def __init__(self, point):
        self.point = point

    def py_getattr(self, I, name):
        if name == 'dimensions':
            return self
        if name == 'required':
            return True
        if name == 'field_type':
            return 'float64'
        if name == 'netcdf':
            return ('trajectory',)
        if name in ('description', 'units'):
            return ''
        if name == 'default':
            return None
        raise Unsupported('FieldMetadata.' + name)

    def py_contains(self, I, item):
        return item.name == 'TRAJECTORY' or (item.name == 'POINT' and self.point)


class FieldSetStub(Model):
    FIELDS = {'f_point': True, 'f_scalar': False}

    def py_getattr(self, I, name):
        if name == 'items':
            return Builtin('items', lambda: [(n, FieldStub(p)) for n, p in self.FIELDS.items()])
        if name == 'values':
            return Builtin('values', lambda: [FieldStub(p) for n, p in self.FIELDS.items()])
        if name == 'fields':
            return {n: FieldStub(p) for n, p in self.FIELDS.items()}
        if name == 'digest':
            return 'digest-of-base'
        if name == 'dimensions':
            return set()
        raise Unsupported('FieldSet.' + name)

    def py_getitem(self, I, k):
        return FieldStub(self.FIELDS[k])


class Cell(Model):
    """What _read_from_nc_var returns for (file, row, field)."""

    def __init__(self, f, row, name, point):
        self.f, self.row, self.name, self.point = f, row, name, point

    def py_len(self, I):
        return 7


def install_store_models(h, I):
    """Summaries for the value layer (proved field by field under C03) and the cache model."""
    h.trust('netCDF4: variables index like Python sequences relative to the current length (negative = from the end), '
            'IndexError out of range; the trajectory dimension is unlimited; data persist across close/open')
    h.trust('cachetools.LRUCache: inserting a new key may evict any other entries, each through self.popitem(); '
            'values never exceed maxsize')
    h.trust('value layer by C03\'s contracts: _read_from_nc_var(var, i) returns row i of the variable, '
            '_write_data(traj, index) stores the trajectory as row index of every field-set group')

    def read_var(I_, fi, a, k):
        _self, var, index, name, field, species = a[:6]
        row = var.f.effective_row(I_, index)
        # ghost: which species list the value layer was told to label this file's slots with
        I_.hooks.setdefault('species_reads', []).append((var.f, species))
        return Cell(var.f, row, name, field.point)
    h.summary(TS + '._read_from_nc_var', read_var)
    I.models['classattr-hook'] = None

    loaded = []

    def new_traj(I_, cls, npoints=None, **kw):
        t = LoadedTraj()
        loaded.append(t)
        return t
    I.models['new:AEIC.trajectories.trajectory:Trajectory'] = new_traj
    from pyvc.rt import ClassInfo
    fscls = I.lookup_fq('AEIC.storage.field_sets:FieldSet')
    h.summary('AEIC.storage.field_sets:FieldSet.from_registry', lambda I_, fi, a, k: FieldSetStub())
    h.summary('AEIC.storage.field_sets:FieldSet.known', lambda I_, fi, a, k: True)
    install_cache_model(I)
    install_fs_models(h, I)
    return loaded


class Md5(Model):
    def __init__(self):
        self.parts = []

    def py_getattr(self, I, name):
        if name == 'update':
            return Builtin('update', lambda b: self.parts.append(b), pure=False)
        if name == 'hexdigest':
            return Builtin('hexdigest', lambda: 'md5(' + ','.join(str(p) for p in self.parts) + ')')
        raise Unsupported('md5.' + name)


def id_hash_of(hashes):
    return 'md5(' + ','.join(str(h.encode('utf-8')) for h in hashes) + ')'


def install_fs_models(h, I):
    """hashlib / pathlib / netCDF4.Dataset over ghost files registered in I.hooks['nc_files']."""
    from pyvc.models.fs import GhostFS
    fs = GhostFS()
    fs.oracle = lambda kind, p: I.hooks.get('path_oracle', lambda k, q: kind != 'is_dir')(kind, p)
    I.hooks['fs'] = fs
    I.models['hashlib.md5'] = lambda I_, *a: Md5()
    I.models['datetime.datetime.now'] = lambda I_, *a, **k: NowStub()
    I.models['datetime.datetime.fromisoformat'] = lambda I_, s_: NowStub()
    I.hooks.setdefault('nc_files', {})

    def dataset(I_, path, mode='r', **k):
        key = path._key() if hasattr(path, '_key') else str(path)
        files = I_.hooks['nc_files']
        if mode == 'w':
            gos = I_.hooks.get('gos')
            if gos is not None:
                gos._tick(f'create-netcdf {key}')
            f = GhostFile(key, 0, lambda j: z3.IntVal(-1))
            ds = DatasetStub(f, fields=(), fs_names=())
            files[key] = ds
            return ds
        if key not in files:
            I_.raise_('FileNotFoundError', key)
        ds = files[key]
        ds.closed = False
        return ds
    I.models['netCDF4.Dataset'] = dataset


class NowStub(Model):
    def py_getattr(self, I, name):
        if name in ('astimezone',):
            return Builtin(name, lambda *a: self)
        if name == 'isoformat':
            return Builtin('isoformat', lambda: '2024-01-01T00:00:00+00:00')
        raise Unsupported('datetime.' + name)


def register_file(I, path, f, index_group=False, fields=('f_point', 'f_scalar'), extra_attrs=None):
    """An existing NetCDF file with consistent global attributes."""
    hashes = ['digest-of-base']
    attrs = dict(fieldset_names=['base'], fieldset_hashes=hashes, id_hash=id_hash_of(hashes))
    attrs.update(extra_attrs or {})
    ds = DatasetStub(f, attrs, fields=fields, index_group=index_group)
    I.hooks['nc_files'][path] = ds
    return ds


class LoadedTraj(Model):
    """Trajectory being assembled by _load_trajectory: records which cells were put into it."""
    type_names = ('Trajectory',)

    def __init__(self):
        self.cells = {}

    def py_setattr(self, I, name, val):
        self.cells[name] = val

    def py_getattr(self, I, name):
        if name == 'add_fields':
            return Builtin('add_fields', lambda fs: None)
        if name == 'nbytes':
            return 1000
        if name == 'flight_id':
            return None
        raise Unsupported('Trajectory.' + name)

    def same_row(self, f, row):
        """Every field of the loaded trajectory comes from row `row` of file f."""
        if not self.cells:
            return z3.BoolVal(False)
        conj = []
        for c in self.cells.values():
            if not isinstance(c, Cell) or c.f is not f:
                return z3.BoolVal(False)
            conj.append(to_z3(c.row) == to_z3(row))
        return z3.And(*conj)

    def tid(self):
        """The identity of the loaded trajectory = content of its (single) source row."""
        cs = list(self.cells.values())
        if not cs or not all(isinstance(c, Cell) for c in cs):
            return None
        c0 = cs[0]
        return c0.f, c0.row


# ---- cachetools.LRUCache --------------------------------------------------------------------------

def install_cache_model(I):
    def init(I_, obj, maxsize=None, getsizeof=None, **k):
        obj.attrs['__entries__'] = []
        return None

    def entries(obj):
        return obj.attrs['__entries__']

    def contains(I_, obj, key):
        r = False
        for k, v in entries(obj):
            r = I_.or_(r, I_.compare('==', k, key))
        return r

    def getitem(I_, obj, key):
        for k, v in entries(obj):
            if I_.truth(I_.compare('==', k, key)):
                return v
        I_.raise_('KeyError', key)

    def setitem(I_, obj, key, val):
        es = entries(obj)
        for i, (k, v) in enumerate(es):
            if I_.truth(I_.compare('==', k, key)):
                es[i] = (k, val)
                return None
        # a value larger than the whole cache is refused by cachetools (ValueError 'value too large') before anything is evicted
        if I_.hooks.get('cache_smaller_than_a_trajectory'):
            I_.raise_('ValueError', 'value too large')
        # a new key: the cache may have to evict (0, 1 or 2 other entries here), each through the
        # class's own popitem -- *before* the new item is stored
        for nth in range(2):
            if not entries(obj):
                break
            if not (nth == 0 and I_.hooks.get('cache_full')) and I_.ctx.choose(2, lambda i: True) == 0:
                break
            I_.call(I_.getattr(obj, 'popitem'), [], {})
        entries(obj).append((key, val))
        return None

    def popitem(I_, obj):
        es = entries(obj)
        if not es:
            I_.raise_('KeyError', 'cache is empty')
        i = I_.ctx.choose(len(es), lambda j: True)
        return es.pop(i)

    def length(I_, obj):
        return len(entries(obj))

    def values(I_, obj):
        return [v for k, v in entries(obj)]

    def iter_(I_, obj):
        from pyvc.builtins_ import PyIterator
        return PyIterator([k for k, v in entries(obj)])
    base = 'cachetools.LRUCache'
    I.models[f'super:{base}.__init__'] = init
    I.models[f'super:{base}.popitem'] = popitem
    I.models[f'method:{base}.__contains__'] = contains
    I.models[f'method:{base}.__getitem__'] = getitem
    I.models[f'method:{base}.__setitem__'] = setitem
    I.models[f'method:{base}.__len__'] = length
    I.models[f'method:{base}.values'] = values
    I.models[f'method:{base}.__iter__'] = iter_
    I.models[f'method:{base}.clear'] = lambda I_, obj: entries(obj).clear()


def make_cache(h, I, in_memory):
    c = I.call(I.lookup_fq('AEIC.trajectories.store:TrajectoryCache'), [1000000], dict(getsizeof=None))
    c.attrs['exception_on_eviction'] = in_memory
    return c


def make_ncfiles(h, I, files, size_index, fields=('f_point', 'f_scalar'), fs_name='base'):
    """A TrajectoryStore.NcFiles record over the given ghost files."""
    NcFiles = I.lookup_fq(TS + '.NcFiles')
    return I.call(NcFiles, [], dict(
        path=[f.name for f in files], fieldsets={fs_name}, dataset=[DatasetStub(f) for f in files],
        traj_dim=[NcDim(f) for f in files], traj_var=[TrajVar(f) for f in files], species=None,
        groups={fs_name: [Group(f, fields) for f in files]}, size_index=size_index))


def make_store(h, I, mode, ncf, cache, next_index, indexable=None, index_group=None, index_stale=False,
               in_memory=False, pending=False):
    FileMode = I.lookup_fq(TS + '.FileMode')
    modes = {m.name: m for m in FileMode.members}
    st = h.new(TS, _partial=True, mode=modes[mode], indexable=indexable, index_group=index_group, index_dataset=None,
               index_stale=index_stale, global_attributes={}, merged_store=False,
               base_file=(None if in_memory else 'store.nc'), override=False, force_fieldset_matches=False,
               associated_files=[], associated_fieldsets=set(), _trajectories=cache,
               _nc_files=([] if ncf is None else [ncf]), _nc=({} if ncf is None else {'base': ncf}),
               _file_creation_pending=pending, _next_index=next_index,
               _write_enabled=(mode in ('CREATE', 'APPEND')))
    # attributes the constructor initialises to a constant and that this model does not know of (a cache added later, a
    # counter): the store object gets them with the constructor's value, as a freshly opened store has them
    import ast as _ast
    undeclared = {}
    init = I.lookup_fq(TS + '.__init__')
    for node in _ast.walk(init.node):
        if isinstance(node, (_ast.Assign, _ast.AnnAssign)) and isinstance(getattr(node, 'value', None), _ast.Constant):
            for tg in (node.targets if isinstance(node, _ast.Assign) else [node.target]):
                if isinstance(tg, _ast.Attribute) and isinstance(tg.value, _ast.Name) and tg.value.id == 'self' and tg.attr not in st.attrs:
                    st.attrs[tg.attr] = node.value.value
                    undeclared[tg.attr] = node.value.value
    known = set(st.attrs)

    def no_undeclared_state(h_):
        # the per-operation units are an induction over the store's *declared* representation (rows, next index, cache,
        # index table, flags); an operation that leaves other state behind on the store object (a memo, a counter) escapes
        # that induction, so the unit is not decided by it (the native replay then decides)
        changed = [k for k, v in undeclared.items() if st.attrs.get(k, '<removed>') is not v and st.attrs.get(k) != v]
        added = [k for k in st.attrs if k not in known and not k.startswith('__')]
        if changed or added:
            raise Unsupported('the operation leaves state on the store object that the store model does not declare: ' +
                              ', '.join(sorted(changed + added)))
    if not hasattr(h.ctx, 'at_end'):
        h.ctx.at_end = []
    h.ctx.at_end.append(no_undeclared_state)
    return st


# ---- ghost operating system (directories, renames, JSON files) --------------------------------------

class GhostOS:
    """os.mkdir / os.rename / open / json over concrete path names.  Every call is a *step*; a
    fault injected at step `fault_at` makes that call raise OSError before having any effect
    (DESIGN C10: each file-system call contributes a 'may raise OSError' path)."""

    def __init__(self, I, fault_at=None):
        self.I = I
        self.dirs = {'.', '/', ''}
        self.json = {}          # path -> data
        self.step = 0
        self.fault_at = fault_at
        self.fault_kind = 'OSError'      # or an interruption that is not an Exception (KeyboardInterrupt)
        self.log = []
        self.on_tick = []
        self.opened = []             # stores opened through TrajectoryStore.open(...) by the function under contract
        self.moved_while_open = []   # files renamed while such a store still held them open

    def _tick(self, what):
        for cb in self.on_tick:
            cb(what)          # the state *before* this step = what a crash at this point leaves behind
        self.step += 1
        self.log.append(what)
        if self.fault_at is not None and self.step == self.fault_at:
            self.I.raise_(self.fault_kind, f'injected failure at step {self.step}: {what}')

    def exists(self, p):
        return p in self.dirs or p in self.json or p in self.I.hooks['nc_files']

    def is_dir(self, p):
        return p in self.dirs

    def is_file(self, p):
        return p in self.json or p in self.I.hooks['nc_files']


def _key(p):
    return p._key() if hasattr(p, '_key') else (p if isinstance(p, str) else str(p))


class JsonFile(Model):
    def __init__(self, gos, path, mode):
        self.gos, self.path, self.mode = gos, path, mode

    def py_enter(self, I):
        return self

    def py_exit(self, I, exc):
        return False


def install_ghost_os(h, I, fault_at=None):
    gos = GhostOS(I, fault_at)
    I.hooks['gos'] = gos
    I.hooks['path_oracle'] = lambda kind, p: getattr(gos, kind)(p)

    def mkdir(I_, p, *a, **k):
        gos._tick(f'mkdir {_key(p)}')
        if gos.exists(_key(p)):
            I_.raise_('FileExistsError', _key(p))
        gos.dirs.add(_key(p))
    I.models['os.mkdir'] = mkdir

    def rename(I_, src, dst):
        s, d = _key(src), _key(dst)
        gos._tick(f'rename {s} -> {d}')
        files = I_.hooks['nc_files']
        if s in files:
            if any((not st.closed) and st.ds is files[s] for st in gos.opened):
                gos.moved_while_open.append(s)
            files[d] = files.pop(s)
            files[d].f.name = d
        elif s in gos.json:
            gos.json[d] = gos.json.pop(s)
        else:
            I_.raise_('FileNotFoundError', s)
    I.models['os.rename'] = rename

    def remove(I_, p):
        key = _key(p)
        gos._tick(f'remove {key}')
        if key in gos.json:
            del gos.json[key]
        elif key in I_.hooks['nc_files']:
            del I_.hooks['nc_files'][key]
        else:
            I_.raise_('FileNotFoundError', key)
    I.models['os.remove'] = remove
    I.models['os.unlink'] = remove

    def rmdir(I_, p):
        key = _key(p)
        gos._tick(f'rmdir {key}')
        if key not in gos.dirs:
            I_.raise_('FileNotFoundError', key)
        if any(q.startswith(key + '/') for q in list(gos.json) + list(I_.hooks['nc_files'])):
            I_.raise_('OSError', 'Directory not empty: ' + key)
        gos.dirs.discard(key)
    I.models['os.rmdir'] = rmdir

    def open_(I_, p, mode='r', **k):
        key = _key(p)
        if 'w' in mode:
            gos._tick(f'open-for-write {key}')
            gos.json[key] = None
        elif key not in gos.json:
            I_.raise_('FileNotFoundError', key)
        return JsonFile(gos, key, mode)
    I.models['builtins.open'] = open_

    def dump(I_, data, fp, **k):
        gos._tick(f'json.dump {fp.path}')
        from pyvc.models import _deep
        gos.json[fp.path] = _deep(I_, data)
    I.models['json.dump'] = dump

    def load(I_, fp):
        d = gos.json.get(fp.path)
        if d is None:
            I_.raise_('ValueError', 'JSONDecodeError: empty or truncated file ' + fp.path)
        return d
    I.models['json.load'] = load
    return gos
