"""C15 -- ground tracks and mission distances are WGS-84 geodesics (composition of the Geod contract).

Functions under contract: GroundTrack.__init__, great_circle, __contains__, __getitem__,
lookup_waypoint, location, _overstep, step, total_distance, Point.__post_init__;
Mission.gc_distance, origin_position, destination_position, _airport_position.
"""
from __future__ import annotations

import z3

from pyvc.models import geod
from pyvc.models.geod import AZ12, DIST, FLAT, FLON
from pyvc.source import Unsupported
from pyvc.values import Obj, PyExc, to_real
from pyvc.verify import unit

LEVEL = 'proof'
EXPLANATION = ('GroundTrack is built by its real constructor from n = 2, 3, 4 symbolic waypoints (n = 2 is the great-circle '
               'case); every query is preceded by an arbitrary earlier query so that hidden per-object state is covered; '
               'the postconditions are the composition laws of the assumed Geod contract. The number of waypoints is '
               'bounded (2..4); coordinates, distances and flags are unbounded.')
GT = 'AEIC.trajectories.ground_track:GroundTrack'
FUNCS = [GT + '.' + m for m in ('__init__', 'great_circle', '__contains__', '__getitem__', 'lookup_waypoint', 'location',
                                '_overstep', 'step', 'total_distance', 'Point.__post_init__')]
MFUNCS = ['AEIC.missions.mission:Mission.gc_distance', 'AEIC.missions.mission:Mission.from_query_result', 'AEIC.missions.mission:Mission.origin_position',
          'AEIC.missions.mission:Mission.destination_position', 'AEIC.missions.mission:Mission._airport_position']


def mod360(x):
    x = to_real(x)
    return x - 360 * z3.ToReal(z3.ToInt(x / 360))


def build_track(h, n, overstep):
    geod.install(h.I)
    h.trust('pyproj.Geod contract: inv(p,q)=(az12,az21,d), d>=0, d(p,q)=d(q,p), fwd(p,az12(p,q),d(p,q))=q, fwd(p,az,0)=p; '
            'argument order (lon, lat)')
    wps = []
    for i in range(n):
        lo, la = h.real(f'lon{i}'), h.real(f'lat{i}')
        wps.append(h.construct('AEIC.types.spatial:Location', lo, la))
    cls = h.cls(GT)
    if n == 2 and overstep is not None:
        gc = h.I.getattr(cls, 'great_circle')
        t = h.I.call(gc, [wps[0], wps[1]], dict(allow_overstep=overstep))
    else:
        t = h.construct(GT, wps, allow_overstep=bool(overstep))
    lon = [w.attrs['longitude'] for w in wps]
    lat = [w.attrs['latitude'] for w in wps]
    d = [DIST(lon[i], lat[i], lon[i + 1], lat[i + 1]) for i in range(n - 1)]
    az = [AZ12(lon[i], lat[i], lon[i + 1], lat[i + 1]) for i in range(n - 1)]
    cum = [z3.RealVal(0)]
    for x in d:
        cum.append(cum[-1] + x)
    return t, lon, lat, d, az, cum


def prior_call(h, t):
    """An arbitrary earlier query on the same object (its outcome is irrelevant)."""
    k = h.choice(3)
    if k == 0:
        return
    s0 = h.real('earlier_distance')
    try:
        if k == 1:
            h.I.call(h.I.getattr(t, 'location'), [s0], {})
        else:
            h.I.call(h.I.getattr(t, 'lookup_waypoint'), [s0], {})
    except PyExc:
        pass


def expect_location(h, res, s, lon, lat, az, cum, n, tag):
    """location(s) for 0 <= s <= total: end points exact, otherwise forward geodesic on the leg
    containing s at offset s - cum[j]."""
    loc = h.I.getattr(res, 'location')
    rlon, rlat = to_real(h.I.getattr(loc, 'longitude')), to_real(h.I.getattr(loc, 'latitude'))
    raz = to_real(h.I.getattr(res, 'azimuth'))
    conds = [z3.Implies(s == 0, z3.And(rlon == lon[0], rlat == lat[0]))]
    conds.append(z3.Implies(z3.And(s >= cum[-1], s > 0), z3.And(rlon == lon[-1], rlat == lat[-1])))
    for j in range(n - 1):
        inleg = z3.And(s > cum[j], s <= cum[j + 1], s < cum[-1])
        off = s - cum[j]
        conds.append(z3.Implies(inleg, z3.And(rlon == FLON(lon[j], lat[j], az[j], off),
                                              rlat == FLAT(lon[j], lat[j], az[j], off))))
    h.ensure(tag + 'on-the-geodesic-at-the-requested-distance', z3.And(*conds))
    h.ensure(tag + 'azimuth-in-0-360', z3.And(raz >= 0, raz < 360))


@unit('C15', 'ground-track.location', FUNCS, replay='contracts.C15:replay_track')
def location_unit(h):
    n = 2 + h.choice(3)
    t, lon, lat, d, az, cum = build_track(h, n, overstep=(h.choice(2) == 1))
    h.ctx.named['n_waypoints'] = z3.IntVal(n)
    tot = to_real(h.I.getattr(t, 'total_distance'))
    h.ensure('total-is-sum-of-leg-geodesic-distances', tot == cum[-1])
    prior_call(h, t)
    s = h.real('distance')
    try:
        res = h.I.call(h.I.getattr(t, 'location'), [s], {})
    except PyExc as e:
        if e.cls.name.endswith('GroundTrack.Exception') or e.cls.name == 'Exception':
            h.ensure('refused-only-out-of-range', z3.Or(s < 0, s > cum[-1]), note=repr(e.inst))
        else:
            h.fail('no-internal-error', repr(e.inst) + ' at ' + str(e.inst.where))
        return
    h.ensure('out-of-range-is-refused', z3.And(s >= 0, s <= cum[-1]))
    expect_location(h, res, s, lon, lat, az, cum, n, '')


@unit('C15', 'ground-track.step', FUNCS, replay='contracts.C15:replay_track')
def step_unit(h):
    n = 2 + h.choice(2)
    ov = h.choice(2) == 1
    t, lon, lat, d, az, cum = build_track(h, n, overstep=ov)
    h.ctx.named['n_waypoints'] = z3.IntVal(n)
    h.ctx.named['allow_overstep'] = z3.BoolVal(ov)
    prior_call(h, t)
    a, b = h.real('from_distance'), h.real('distance_step')
    s = a + b
    try:
        res = h.I.call(h.I.getattr(t, 'step'), [a, b], {})
    except PyExc as e:
        if e.cls.name.endswith('GroundTrack.Exception') or e.cls.name == 'Exception':
            # refusals: negative arguments; out of range without overstep; waypoint crossing without overstep
            crossing = z3.Or(*[z3.And(a < cum[j], s > cum[j]) for j in range(1, n - 1)]) if n > 2 else z3.BoolVal(False)
            legal = z3.Or(a < 0, b < 0, z3.And(not ov, z3.Or(a > cum[-1], s > cum[-1])), z3.And(not ov, crossing))
            h.ensure('refused-only-for-documented-reasons', legal, note=repr(e.inst))
        else:
            h.fail('no-internal-error', repr(e.inst) + ' at ' + str(e.inst.where))
        return
    h.ensure('negative-or-out-of-range-is-refused', z3.And(a >= 0, b >= 0, z3.Or(ov, z3.And(a <= cum[-1], s <= cum[-1]))))
    # inside the track: step(a, b) == location(a + b)
    if h.ctx.branch(z3.And(a <= cum[-1], s <= cum[-1])):
        expect_location(h, res, s, lon, lat, az, cum, n, 'step-equals-location:')
    else:
        loc = h.I.getattr(res, 'location')
        rlon, rlat = to_real(h.I.getattr(loc, 'longitude')), to_real(h.I.getattr(loc, 'latitude'))
        raz = to_real(h.I.getattr(res, 'azimuth'))
        off = s - cum[-2]
        h.ensure('overstep-continues-the-last-geodesic',
                 z3.And(rlon == FLON(lon[-2], lat[-2], az[-1], off), rlat == FLAT(lon[-2], lat[-2], az[-1], off)))
        h.ensure('azimuth-in-0-360', z3.And(raz >= 0, raz < 360))


@unit('C15', 'mission.gc_distance', MFUNCS, replay='contracts.C15:replay_mission')
def gc_distance_unit(h):
    geod.install(h.I)
    h.trust('pyproj.Geod contract (see ground-track units); utils.airports.airport(code) returns the Airport record or None')
    lo1, la1, lo2, la2 = (h.real(x) for x in ('origin_lon', 'origin_lat', 'dest_lon', 'dest_lat'))
    el1, el2 = h.real('origin_elev'), h.real('dest_elev')

    def airport(I, fi, a, k):
        code = a[0]
        if code == 'ORG':
            return h.new('AEIC.utils.airports:Airport', longitude=lo1, latitude=la1, elevation=el1, iata_code='ORG')
        if code == 'DST':
            return h.new('AEIC.utils.airports:Airport', longitude=lo2, latitude=la2, elevation=el2, iata_code='DST')
        return None
    h.summary('AEIC.utils.airports:airport', airport)
    ts = None

    def mk(o, d):
        return h.construct('AEIC.missions.mission:Mission', o, d, ts, ts, 1, 'B738')
    # a mission is the same mission however it was made: directly, or from a mission-database query result (whose own
    # `distance` column is the schedule's figure in kilometres, not a geodesic between AEIC's airport positions)
    via_query = h.choice(2) == 1
    h.ctx.named['made_from_a_query_result'] = z3.BoolVal(via_query)
    if via_query:
        qr = h.new('AEIC.missions.query:QueryResult', departure=ts, arrival=ts, carrier='XX', flight_number='1', origin='ORG',
                   origin_country='US', destination='DST', destination_country='US', service_type='J', aircraft_type='B738',
                   engine_type='x', distance=h.real('schedule_distance_km'), seat_capacity=100, id=h.int('schedule_id'), _partial=True)
        m = h.I.call(h.I.getattr(h.cls('AEIC.missions.mission:Mission'), 'from_query_result'), [qr], {})
    else:
        m = mk('ORG', 'DST')
    g = to_real(h.I.getattr(m, 'gc_distance'))
    h.ensure('equals-geodesic-distance-between-airports', g == DIST(lo1, la1, lo2, la2))
    # equals the length of the ground track between its airports
    op, dp = h.I.getattr(m, 'origin_position'), h.I.getattr(m, 'destination_position')
    t = h.I.call(h.I.getattr(h.cls(GT), 'great_circle'), [h.I.getattr(op, 'location'), h.I.getattr(dp, 'location')], {})
    h.ensure('equals-ground-track-length', g == to_real(h.I.getattr(t, 'total_distance')))
    m2 = mk('DST', 'ORG')
    h.ensure('symmetric', g == to_real(h.I.getattr(m2, 'gc_distance')))
    m3 = mk('XXX', 'DST')
    try:
        h.I.getattr(m3, 'gc_distance')
        h.fail('unknown-airport-refused', 'gc_distance of an unknown airport returned')
    except PyExc as e:
        h.ensure('unknown-airport-refused', h.exc_is(e, 'ValueError'))


# ------------------------------------------------------------------------------------------------
def _f(x, d=0.0):
    try:
        return float(x)
    except (TypeError, ValueError):
        return d


def replay_track(payload):
    """Native: random genuine tracks with the waypoint count of the counter-model; the oracle is an
    independent use of pyproj (fwd from the leg start).  The model's coordinates are values of
    uninterpreted geodesic functions, so genuine inputs are searched near the model's shape
    (same n, same flags, distances at the same fractions of the track)."""
    import math
    import random
    from pyproj import Geod
    from AEIC.trajectories.ground_track import GroundTrack
    from AEIC.types import Location
    m = payload['model']
    n = int(_f(m.get('n_waypoints'), 2))
    ov = bool(m.get('allow_overstep', True))
    G = Geod(ellps='WGS84')
    rnd = random.Random(12345)
    clause = payload.get('clause', '')
    bad = []
    for trial in range(200):
        wps = [Location(rnd.uniform(-179, 179), rnd.uniform(-80, 80)) for _ in range(n)]
        legs = [G.inv(wps[i].longitude, wps[i].latitude, wps[i + 1].longitude, wps[i + 1].latitude) for i in range(n - 1)]
        cum = [0.0]
        for az, _, dd in legs:
            cum.append(cum[-1] + dd)
        for ov_try in ([ov] if 'allow_overstep' in m else [False, True]):
            t = GroundTrack(wps, allow_overstep=ov_try)
            # earlier query somewhere else on the track, then the query under test
            for frac0, frac in ((0.9, 0.2), (0.1, 0.7), (0.5, 0.5), (0.95, 1.3 if ov_try else 0.05)):
                try:
                    t.location(min(frac0, 1.0) * cum[-1])
                except Exception:   # noqa
                    pass
                s = frac * cum[-1]
                try:
                    if 'step' in (payload.get('note') or '') or 'step' in clause or frac > 1:
                        a = 0.6 * min(s, cum[-1])
                        # keep the step inside one leg unless overstepping
                        p = t.step(a, s - a)
                    else:
                        p = t.location(s)
                except GroundTrack.Exception:
                    continue
                except Exception as e:   # noqa
                    bad.append(dict(waypoints=[(w.longitude, w.latitude) for w in wps], s=s, error=repr(e)))
                    continue
                j = max(i for i in range(n - 1) if cum[i] < s or i == 0) if s <= cum[-1] else n - 2
                j = min(j, n - 2)
                elon, elat, _ = G.fwd(wps[j].longitude, wps[j].latitude, legs[j][0], s - cum[j])
                _, _, err = G.inv(p.location.longitude, p.location.latitude, elon, elat)
                if err > 1e-3 or not (0.0 <= p.azimuth <= 360.0):
                    bad.append(dict(waypoints=[(w.longitude, w.latitude) for w in wps], allow_overstep=ov_try,
                                    earlier=frac0 * cum[-1], s=s, off_geodesic_m=err, azimuth=p.azimuth))
        if bad:
            break
    return dict(reproduced=bool(bad), observed=bad[:3], required='point on the leg geodesic at the requested distance')


def replay_mission(payload):
    import os
    root = os.environ.get('AEIC_SRC', '/repo/src').rsplit('/src', 1)[0]
    os.environ['AEIC_PATH'] = root + '/tests/data'
    import pandas as pd
    from AEIC.config import Config
    from AEIC.missions import Mission
    from AEIC.trajectories.ground_track import GroundTrack
    Config.reset()
    Config.load(data_path_overrides=[root + '/tests/data'])
    try:
        ts = pd.Timestamp('2024-01-01', tz='UTC')
        out = []
        for o, d in (('BOS', 'ATL'), ('BOS', 'LAX'), ('JFK', 'MIA')):
            m = Mission(o, d, ts, ts, 1.0, 'B738')
            m2 = Mission(d, o, ts, ts, 1.0, 'B738')
            t = GroundTrack.great_circle(m.origin_position.location, m.destination_position.location)
            out.append(dict(pair=(o, d), gc_distance=m.gc_distance, reverse=m2.gc_distance, track=t.total_distance))
        # the same missions made from mission-database query results (the shipped test database)
        try:
            from AEIC.missions import Database, Query
            dbfile = root + '/tests/data/missions/oag-2019-test-subset.sqlite'
            if not os.path.exists(dbfile):
                import glob
                dbfile = (glob.glob(root + '/tests/data/**/*.sqlite', recursive=True) + [dbfile])[0]
            db = Database(dbfile)
            made = 0
            for qr in db(Query()):
                if made >= 12:
                    break
                m = Mission.from_query_result(qr)
                try:
                    t = GroundTrack.great_circle(m.origin_position.location, m.destination_position.location)
                except ValueError:
                    continue        # an airport of the schedule that the airport table does not know
                made += 1
                out.append(dict(pair=(qr.origin, qr.destination), made='from_query_result', gc_distance=m.gc_distance,
                                reverse=Mission(qr.destination, qr.origin, ts, ts, 1.0, 'B738').gc_distance, track=t.total_distance))
        except ImportError:
            pass
        bad = [x for x in out if abs(x['gc_distance'] - x['track']) > 1e-6 or abs(x['gc_distance'] - x['reverse']) > 1e-6]
        return dict(reproduced=bool(bad), observed=bad[:3], required='gc_distance == ground-track length, symmetric')
    finally:
        Config.reset()
