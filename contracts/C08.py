"""C08 -- lookup by flight identifier returns exactly the matching trajectory.

View: ID = {flight id of row k -> k}.  Invariant of an indexable store: every row has an id, ids are
distinct, and  not index_stale  =>  the index table is the list of (id, row) pairs of *all* rows sorted
by id.  get_flight is proved from an arbitrary such state (symbolic number of rows); _reindex,
add (stale flag / identifier consistency), _open (indexability of an existing file) and the
in-memory case have their own units.
"""
from __future__ import annotations

import z3

from contracts.storemodel import (TS, GhostFile, IndexGroup, LoadedTraj, Model, TrajRec, install_store_models, make_cache,
                                  make_ncfiles, make_store, register_file)
from pyvc.models.arrays import SArr
from pyvc.source import Unsupported
from pyvc.values import Builtin, PyExc, to_z3
from pyvc.verify import unit

LEVEL = 'proof'
EXPLANATION = ('get_flight / _reindex / add / _open / close over a ghost index table; the number of rows is symbolic for '
               'get_flight (table invariant stated with quantifiers), 0..3 for the re-indexing unit.')
FUNCS = [TS + '.' + m for m in ('get_flight', '_reindex', 'add', '_open', 'close', 'sync', '__getitem__', '_load_trajectory')]
Z = z3.IntSort()
ROW = z3.Function('row_content', Z, Z)
FID = z3.Function('row_flight_id', Z, Z)
TID = z3.Function('index_table_id', Z, Z)
TROW = z3.Function('index_table_row', Z, Z)
POS = z3.Function('index_table_position_of_row', Z, Z)


def table_invariant(n):
    p, q, k = z3.Ints('p_ q_ k_')
    return z3.And(
        z3.ForAll([p], z3.Implies(z3.And(p >= 0, p < n), z3.And(TROW(p) >= 0, TROW(p) < n, FID(TROW(p)) == TID(p)))),
        z3.ForAll([p, q], z3.Implies(z3.And(p >= 0, p < q, q < n), TID(p) < TID(q))),
        z3.ForAll([k], z3.Implies(z3.And(k >= 0, k < n), z3.And(POS(k) >= 0, POS(k) < n, TROW(POS(k)) == k))))


def ids_distinct(n):
    a, b = z3.Ints('a_ b_')
    return z3.ForAll([a, b], z3.Implies(z3.And(a >= 0, a < b, b < n), FID(a) != FID(b)))


def ident(result):
    if isinstance(result, TrajRec):
        return result.tid
    if isinstance(result, LoadedTraj):
        t = result.tid()
        if t is None:
            return None
        f, row = t
        return f.rows(row)
    return None


def inst_row(n, p):
    return z3.Implies(z3.And(p >= 0, p < n), z3.And(TROW(p) >= 0, TROW(p) < n, FID(TROW(p)) == TID(p)))


def inst_sorted(n, a, b):
    return z3.Implies(z3.And(a >= 0, a < b, b < n), TID(a) < TID(b))


def inst_pos(n, k):
    return z3.Implies(z3.And(k >= 0, k < n), z3.And(POS(k) >= 0, POS(k) < n, TROW(POS(k)) == k))


def inst_distinct(n, a, b):
    return z3.Implies(z3.And(a >= 0, b >= 0, a < n, b < n, a != b), FID(a) != FID(b))


def bisect_model(h):
    def bisect_sym(I_, seq, x):
        pos = h.ctx.fresh('bisect_pos', Z)
        h.I.hooks['last_bisect_pos'] = pos
        n = to_z3(seq.length)
        I_.ctx.assume(z3.And(pos >= 0, pos <= n, z3.Implies(pos > 0, to_z3(seq.at(pos - 1)) < to_z3(x)),
                             z3.Implies(pos < n, to_z3(seq.at(pos)) >= to_z3(x))))
        return pos
    h.I.models['bisect_left:symbolic'] = bisect_sym
    h.trust('bisect.bisect_left on a sorted list returns pos with a[pos-1] < x <= a[pos]')


@unit('C08', 'get_flight.file-backed', FUNCS, replay='contracts.C08:replay')
def get_flight_unit(h):
    I = h.I
    install_store_models(h, I)
    bisect_model(h)
    n = h.int('rows')
    h.assume(n >= 0)
    f = GhostFile('store.nc', n, lambda k: ROW(to_z3(k)), fids=lambda k: FID(to_z3(k)))
    h.ctx.assumed.append('flight identifiers are distinct')
    ncf = make_ncfiles(h, I, [f], None)
    cache = make_cache(h, I, in_memory=False)
    ig = IndexGroup(f)
    stale = h.choice(2) == 1
    mode = ['READ', 'APPEND', 'CREATE'][h.choice(3)]
    if stale and mode == 'READ':
        return
    st = make_store(h, I, mode, ncf, cache, next_index=(n if mode != 'READ' else 0), indexable=True, index_group=ig,
                    index_stale=stale)
    h.ctx.named['index_stale'] = z3.BoolVal(stale)

    def fresh_tables():
        f.index_ids = SArr(n, lambda p: TID(to_z3(p)), kind='ndarray')
        def row_at(p):
            # reading an entry of the table instantiates the invariant at that entry
            h.ctx.assume(inst_row(n, to_z3(p)))
            return TROW(to_z3(p))
        f.index_rows = SArr(n, row_at, kind='ndarray')
    if not stale:
        fresh_tables()
        h.ctx.assumed.append('index not stale => table = (id, row) pairs of all rows sorted by id')
    else:
        # by contract of _reindex (proved in its own unit): rebuilds the table from all rows, clears the flag
        def reindex(I_, fi, a, k):
            fresh_tables()
            a[0].attrs['index_stale'] = False
        h.summary(TS + '._reindex', reindex)
    x = h.int('flight_id')
    try:
        r = h.method(st, 'get_flight', x)
    except PyExc as e:
        h.fail('no-internal-error', repr(e.inst) + ' at ' + str(e.inst.where))
        return
    # the table invariant (every table entry pairs a row with its id; sorted by id; every row has an
    # entry) and the distinctness of ids are quantified statements; the instances needed are added
    # explicitly: at the position the binary search found, and at the entry of an arbitrary row k
    k = h.ctx.fresh('row_with_that_id', Z)
    present = z3.And(k >= 0, k < n, FID(k) == x)
    pos = h.I.hooks.get('last_bisect_pos')
    if pos is None:
        h.fail('uses-the-index-table', 'get_flight did not search the index table')
        return
    pk = POS(k)
    for fact in [inst_row(n, pos), inst_row(n, pk), inst_pos(n, k), inst_sorted(n, pk, pos), inst_sorted(n, pos, pk),
                 inst_sorted(n, pk, pos - 1), inst_sorted(n, pos - 1, pk), inst_distinct(n, k, TROW(pos))]:
        h.ctx.assume(fact)
    if r is None:
        h.ensure('nothing-only-for-an-id-never-added', z3.Not(present))
        return
    got = ident(r)
    if got is None:
        h.fail('returns-the-trajectory-added-with-that-id', 'result not assembled from one row')
        return
    h.ensure('returns-the-trajectory-added-with-that-id', z3.Implies(present, got == ROW(k)))
    w = TROW(pos)
    h.ensure('something-only-for-an-id-that-was-added', z3.And(w >= 0, w < n, FID(w) == x))
    h.ensure('lookup-leaves-index-fresh', h.getattr(st, 'index_stale') is False)


@unit('C08', '_reindex.builds-sorted-table-of-all-rows', FUNCS, replay='contracts.C08:replay')
def reindex_unit(h):
    I = h.I
    install_store_models(h, I)
    nrows = h.choice(4)
    ids = [h.int(f'id_{k}') for k in range(nrows)]
    if nrows > 1:
        h.assume(z3.Distinct(*ids), 'flight identifiers are distinct')
    f = GhostFile('store.nc', nrows, lambda k: ROW(to_z3(k)))
    ncf = make_ncfiles(h, I, [f], None)
    # the base group's flight_id data variable: one id per row
    g = ncf.attrs['groups']['base'][0]

    class IdVar(Model):
        def py_getitem(self, I_, idx):
            return list(ids)
    g.vars['flight_id'] = IdVar()
    ig = IndexGroup(f)
    f.index_ids, f.index_rows = ['stale'], ['stale']
    st = make_store(h, I, 'APPEND', ncf, make_cache(h, I, False), next_index=nrows, indexable=True, index_group=ig,
                    index_stale=True)
    h.method(st, '_reindex')
    ti, tr = f.index_ids, f.index_rows
    if not (isinstance(ti, list) and isinstance(tr, list) and len(ti) == nrows and len(tr) == nrows):
        h.fail('table-covers-all-rows', f'tables {ti!r} {tr!r}')
        return
    h.ensure('table-covers-all-rows',
             z3.And(*[z3.Or(*[to_z3(tr[p]) == k for p in range(nrows)]) for k in range(nrows)]) if nrows else True)
    h.ensure('table-pairs-each-id-with-its-row',
             z3.And(*[z3.Or(*[z3.And(to_z3(tr[p]) == k, to_z3(ti[p]) == ids[k]) for k in range(nrows)]) for p in range(nrows)])
             if nrows else True)
    h.ensure('table-sorted-by-id', z3.And(*[to_z3(ti[p]) < to_z3(ti[p + 1]) for p in range(nrows - 1)]) if nrows > 1 else True)
    h.ensure('flag-cleared', h.getattr(st, 'index_stale') is False)


@unit('C08', 'add.identifier-consistency-and-stale-flag', FUNCS, replay='contracts.C08:replay')
def add_unit(h):
    I = h.I
    install_store_models(h, I)
    n = h.int('rows')
    h.assume(n >= 1)
    f = GhostFile('store.nc', n, lambda k: ROW(to_z3(k)), fids=lambda k: FID(to_z3(k)))
    ncf = make_ncfiles(h, I, [f], None)
    store_indexable = h.choice(2) == 1
    stale0 = store_indexable and h.choice(2) == 1
    st = make_store(h, I, 'APPEND', ncf, make_cache(h, I, False), next_index=n, indexable=store_indexable,
                    index_group=(IndexGroup(f) if store_indexable else None), index_stale=stale0)
    has_id = h.choice(2) == 1
    t = TrajRec(h.int('new_traj_id'), fid=(h.int('new_flight_id') if has_id else None))
    h.summary(TS + '._write_data', lambda I_, fi, a, k: f.write_row(k['index'], k['traj'].tid, k['traj'].fid))
    try:
        h.method(st, 'add', t)
    except PyExc as e:
        h.ensure('refused-only-for-inconsistent-identifier-use', h.exc_is(e, 'ValueError') and has_id != store_indexable,
                 note=repr(e.inst))
        h.ensure('refused-addition-leaves-length', to_z3(f.length) == n)
        return
    h.ensure('store-is-fully-identified-or-not-at-all', has_id == store_indexable)
    if store_indexable:
        h.ensure('addition-marks-the-index-stale', h.getattr(st, 'index_stale') is True)


@unit('C08', 'open.indexability-from-the-file', FUNCS, replay='contracts.C08:replay')
def open_unit(h):
    """An existing file decides indexability: with an _index group the store is identified, without
    one it is not -- so that an APPEND session cannot mix identified and unidentified trajectories."""
    I = h.I
    install_store_models(h, I)
    n = h.int('rows_in_file')
    h.assume(n >= 1, 'a store file exists only after its first addition')
    f = GhostFile('store.nc', n, lambda k: ROW(to_z3(k)), fids=lambda k: FID(to_z3(k)))
    has_index = h.choice(2) == 1
    h.ctx.named['file_has_index'] = z3.BoolVal(has_index)
    I.hooks['path_oracle'] = lambda kind, p: kind != 'is_dir'
    register_file(I, 'store.nc', f, index_group=has_index)
    mode = 'APPEND' if h.choice(2) == 0 else 'READ'
    st = make_store(h, I, mode, None, make_cache(h, I, False), next_index=0)

    def base_checks(I_, fi, a, k):
        s, ncf = a[0], a[1]
        s.attrs['_nc_files'].append(ncf)
        s.attrs['_nc']['base'] = ncf
    h.summary(TS + '._base_open_checks', base_checks)
    h.method(st, '_open')
    ix = h.getattr(st, 'indexable')
    h.ensure('indexability-decided-by-the-file', ix is has_index, note=f'indexable={ix!r} for a file with index group={has_index}')
    if mode == 'APPEND':
        # consequence: an identified trajectory cannot enter an unidentified store (and vice versa)
        t = TrajRec(h.int('new_traj_id'), fid=(None if has_index else h.int('new_flight_id')))
        h.summary(TS + '._write_data', lambda I_, fi, a, k: f.write_row(k['index'], k['traj'].tid, k['traj'].fid))
        try:
            h.method(st, 'add', t)
            h.fail('append-session-refuses-mixing', 'a trajectory with%s flight id was accepted into a store with%s index'
                   % (('out', '') if has_index else ('', 'out')))
        except PyExc as e:
            h.ensure('append-session-refuses-mixing', h.exc_is(e, 'ValueError'), note=repr(e.inst))


@unit('C08', 'in-memory.lookup-and-close', FUNCS, replay='contracts.C08:replay_memory')
def in_memory(h):
    I = h.I
    install_store_models(h, I)
    cache = make_cache(h, I, in_memory=True)
    n = 1 + h.choice(2)
    ids = [h.int(f'id_{k}') for k in range(n)]
    if n > 1:
        h.assume(z3.Distinct(*ids))
    for k in range(n):
        cache.attrs['__entries__'].append((k, TrajRec(ROW(z3.IntVal(k)), fid=ids[k])))
    st = make_store(h, I, 'CREATE', None, cache, next_index=n, indexable=True, index_group=None, index_stale=True,
                    in_memory=True)
    op = h.choice(3)
    if op == 2:
        # the invariant every lookup rests on: the index is marked stale unless the index group holds an entry for every row.
        # An in-memory store has no index group, so nothing it does before being saved may clear the mark (save() builds the
        # index only for a store that is still marked)
        try:
            h.method(st, '_reindex')
        except PyExc as e:
            h.fail('no-internal-error', '_reindex on an in-memory store: ' + repr(e.inst) + ' at ' + str(e.inst.where))
            return
        h.ensure('store-without-an-index-stays-marked-stale', st.attrs.get('index_stale') is True and st.attrs.get('index_group') is None,
                 note=f'index_stale = {st.attrs.get("index_stale")!r} after _reindex on an in-memory store')
        return
    if op == 0:
        x = h.int('flight_id')
        try:
            r = h.method(st, 'get_flight', x)
        except PyExc as e:
            h.fail('no-internal-error', 'get_flight on an in-memory store: ' + repr(e.inst) + ' at ' + str(e.inst.where))
            return
        if r is None:
            h.ensure('nothing-only-for-an-id-never-added', z3.And(*[x != i for i in ids]))
        else:
            h.ensure('returns-the-trajectory-added-with-that-id',
                     isinstance(r, TrajRec) and z3.And(*[z3.Implies(x == ids[k], r.tid == ROW(z3.IntVal(k))) for k in range(n)]))
            h.ensure('something-only-for-an-id-that-was-added', z3.Or(*[x == i for i in ids]))
    else:
        try:
            h.method(st, 'close')
            h.ensure('close-succeeds', True)
        except PyExc as e:
            h.fail('close-succeeds', 'close of an in-memory identified store: ' + repr(e.inst) + ' at ' + str(e.inst.where))


# ------------------------------------------------------------------------------------------------
# "... and in merged stores": the merged index (ids -> rows shifted by the sizes of the earlier parts) and the merged store's
# own part order (metadata, opened and read back) are the contracts of C09; both are obligations of this property too,
# since a lookup in a merged store is the composition of the two
from contracts import C09 as _c09   # noqa: E402
from pyvc.verify import UNITS as _UNITS   # noqa: E402
for _u in _UNITS.get('C09', []):
    if _u.name in ('merged-index.offsets', 'merge-then-open.concatenation'):
        unit('C08', 'merged.' + _u.name, _u.func, replay='contracts.C09:replay', max_paths=_u.max_paths)(_u.fn)


def replay(payload):
    """Native dictionary-model comparison over create / add (unsorted ids) / lookup before sync /
    close / reopen-for-append / add / lookup / reopen-for-read, plus the un-indexed append case."""
    import os
    import shutil
    import tempfile
    from AEIC.trajectories import TrajectoryStore
    from contracts.C07 import _mk
    TrajectoryStore.active_in_thread = None
    tmp = tempfile.mkdtemp(prefix='c08-', dir=os.environ.get('VERIF_SCRATCH'))
    problems = []

    def check(ts, model, where):
        for fid, mass in model.items():
            try:
                t = ts.get_flight(fid)
                if t is None or t.starting_mass != mass:
                    problems.append(f'{where}: get_flight({fid}) -> {None if t is None else t.starting_mass}, expected {mass}')
            except Exception as e:   # noqa
                problems.append(f'{where}: get_flight({fid}) raised {type(e).__name__}: {e}')
            ts._trajectories.clear()
        try:
            if ts.get_flight(999999) is not None:
                problems.append(f'{where}: unknown id found')
        except Exception as e:   # noqa
            problems.append(f'{where}: unknown id raised {type(e).__name__}')
    try:
        path = os.path.join(tmp, 'i.nc')
        model = {}
        n = 0
        with TrajectoryStore.create(base_file=path) as ts:
            for fid in (30, 10, 20):
                ts.add(_mk(n, fid=fid))
                model[fid] = float(1000 + n)
                n += 1
                check(ts, model, 'create session, before sync')
            ts.sync()
            ts.add(_mk(n, fid=5))
            model[5] = float(1000 + n)
            n += 1
            check(ts, model, 'create session, after sync + add')
            # a lookup, an addition, an explicit sync, and straight away a lookup of the identifier just added
            ts.add(_mk(n, fid=7))
            model[7] = float(1000 + n)
            n += 1
            ts.sync()
            t = ts.get_flight(7)
            if t is None or t.starting_mass != model[7]:
                problems.append('create session: add, sync, then get_flight of the identifier just added -> ' + ('nothing' if t is None else 'another trajectory'))
            check(ts, model, 'create session, after add + sync')
        with TrajectoryStore.append(base_file=path) as ts:
            ts.add(_mk(n, fid=25))
            model[25] = float(1000 + n)
            n += 1
            check(ts, model, 'append session')
        with TrajectoryStore.open(base_file=path) as ts:
            check(ts, model, 'reopened')
        # un-indexed store must refuse identified trajectories in an append session
        p2 = os.path.join(tmp, 'u.nc')
        with TrajectoryStore.create(base_file=p2) as ts:
            ts.add(_mk(0))
        try:
            with TrajectoryStore.append(base_file=p2) as ts:
                try:
                    ts.add(_mk(1, fid=9))
                    problems.append('identified trajectory accepted into an unidentified store')
                except ValueError:
                    pass
        except Exception as e:   # noqa
            problems.append(f'append session on unidentified store: {type(e).__name__}: {e}')
        return dict(reproduced=bool(problems), observed=problems[:6], required='dictionary semantics of get_flight')
    finally:
        TrajectoryStore.active_in_thread = None
        shutil.rmtree(tmp, ignore_errors=True)


def replay_memory(payload):
    from AEIC.trajectories import TrajectoryStore
    from contracts.C07 import _mk
    TrajectoryStore.active_in_thread = None
    problems = []
    try:
        ts = TrajectoryStore.create()
        ts.add(_mk(0, fid=7))
        ts.add(_mk(1, fid=3))
        for fid, mass in ((7, 1000.0), (3, 1001.0)):
            try:
                t = ts.get_flight(fid)
                if t is None or t.starting_mass != mass:
                    problems.append(f'in-memory get_flight({fid}) wrong')
            except Exception as e:   # noqa
                problems.append(f'in-memory get_flight({fid}) raised {type(e).__name__}: {e}')
        try:
            if ts.get_flight(99) is not None:
                problems.append('unknown id found')
        except Exception as e:   # noqa
            problems.append(f'in-memory get_flight(unknown) raised {type(e).__name__}: {e}')
        try:
            ts.close()
        except Exception as e:   # noqa
            problems.append(f'close raised {type(e).__name__}: {e}')
        # in memory, synchronised (harmless), then saved: lookups on the saved store and after reopening
        import os
        import shutil
        import tempfile
        tmp = tempfile.mkdtemp(prefix='c08m-', dir=os.environ.get('VERIF_SCRATCH'))
        try:
            TrajectoryStore.active_in_thread = None
            ts = TrajectoryStore.create()
            ts.add(_mk(0, fid=7))
            ts.add(_mk(1, fid=3))
            ts.sync()
            path = os.path.join(tmp, 'saved.nc')
            ts.save(path)
            for when in ('after sync() and save()', 'after reopening the saved file'):
                for fid, mass in ((7, 1000.0), (3, 1001.0)):
                    try:
                        t = ts.get_flight(fid)
                        if t is None or t.starting_mass != mass:
                            problems.append(f'{when}: get_flight({fid}) gives {None if t is None else t.starting_mass}')
                    except Exception as e:   # noqa
                        problems.append(f'{when}: get_flight({fid}) raised {type(e).__name__}: {e}')
                ts.close()
                TrajectoryStore.active_in_thread = None
                if when.startswith('after sync'):
                    ts = TrajectoryStore.open(base_file=path)
        except Exception as e:   # noqa
            problems.append(f'in-memory store saved after sync(): {type(e).__name__}: {e}')
        finally:
            shutil.rmtree(tmp, ignore_errors=True)
        return dict(reproduced=bool(problems), observed=problems[:6])
    finally:
        TrajectoryStore.active_in_thread = None


# lookup in merged stores: the merged index is built from the parts' indexes shifted by the sizes of the
# earlier parts (same unit as under C09, stated here because C08 covers merged stores too)
from contracts import C09 as _c09  # noqa: E402

unit('C08', 'merged-index.offsets', _c09.FUNCS, replay='contracts.C09:replay')(_c09.merged_index)
