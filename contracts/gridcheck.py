"""Bounded stand-in for the geometric heart of trajectory gridding (C04, C05): the real
Gridder.grid_trajectory against an exact piece-wise oracle (analytic intersections of each segment's
straight map line with the grid lines, pieces measured with the same great-circle lengths).  Runs natively."""
from __future__ import annotations

import itertools
import math

TOL = 1e-9


def _import_grid():
    import sys
    try:
        import shapely  # noqa: F401
    except Exception:   # noqa
        import os
        sys.path.append(os.path.join(os.path.dirname(os.path.dirname(os.path.abspath(__file__))), 'stubs'))
    import numpy as np
    from AEIC.gridding.grid import Gridder, great_circle_distance
    return np, Gridder, great_circle_distance


def make_grid(np, Gridder, nlat, nlon, lat0=-40.0, lat1=40.0, lon0=-180.0, lon1=180.0, alts=None, times=None):
    glat = np.deg2rad(np.linspace(lat0, lat1, nlat + 1))
    glon = np.deg2rad(np.linspace(lon0, lon1, nlon + 1))
    return Gridder(grid_latitudes=glat, grid_longitudes=glon,
                   grid_altitudes=None if alts is None else np.asarray(alts, float),
                   grid_times=None if times is None else np.asarray(times, float))


def cell_candidates(edges, a, b):
    """Indices of the cells (lower-edge index, searchsorted - 1 convention) whose closed interval contains [a, b]."""
    lo, hi = min(a, b), max(a, b)
    out = []
    for i in range(len(edges) - 1):
        if edges[i] - TOL <= lo and hi <= edges[i + 1] + TOL:
            out.append(i)
    # the code's convention for a point exactly on the lowest line is index -1; never needed inside the grid
    return out


def oracle_segment(np, gcd, g, p0, p1):
    """Pieces of the straight map line p0 -> p1 (lat, lon in radians): list of (lat cells, lon cells, share)."""
    (la0, lo0), (la1, lo1) = p0, p1
    ts = {0.0, 1.0}
    for e in g.grid_latitudes:
        if la1 != la0:
            t = (e - la0) / (la1 - la0)
            if 0 < t < 1:
                ts.add(float(t))
    for e in g.grid_longitudes:
        if lo1 != lo0:
            t = (e - lo0) / (lo1 - lo0)
            if 0 < t < 1:
                ts.add(float(t))
    ts = sorted(ts)
    # merge parameters that are the same point (corner crossings)
    mt = [ts[0]]
    for t in ts[1:]:
        if t - mt[-1] > 1e-12:
            mt.append(t)
        elif t == 1.0:
            mt[-1] = 1.0
    total = float(gcd(la0, lo0, la1, lo1))
    pieces = []
    if len(mt) == 1:          # repeated point
        pieces.append((cell_candidates(g.grid_latitudes, la0, la0), cell_candidates(g.grid_longitudes, lo0, lo0), 1.0, 0.0))
        return pieces, total
    for a, b in zip(mt[:-1], mt[1:]):
        pa = (la0 + a * (la1 - la0), lo0 + a * (lo1 - lo0))
        pb = (la0 + b * (la1 - la0), lo0 + b * (lo1 - lo0))
        ln = float(gcd(pa[0], pa[1], pb[0], pb[1]))
        share = ln / total if total > 0 else 1.0
        pieces.append((cell_candidates(g.grid_latitudes, pa[0], pb[0]), cell_candidates(g.grid_longitudes, pa[1], pb[1]), share, ln))
    return pieces, total


def crossing_split(p0, p1):
    """A segment whose longitudes differ by more than pi crosses the antimeridian: the straight map line in unwrapped
    longitude, split where it meets +-pi.  Returns (end of first part, start of second part)."""
    (la0, lo0), (la1, lo1) = p0, p1
    d = lo1 - lo0
    if d > math.pi:          # westwards across -pi
        lo1u, edge_a, edge_b = lo1 - 2 * math.pi, -math.pi, math.pi
    else:                    # eastwards across +pi
        lo1u, edge_a, edge_b = lo1 + 2 * math.pi, math.pi, -math.pi
    t = (edge_a - lo0) / (lo1u - lo0) if lo1u != lo0 else 0.0
    lat_c = la0 + t * (la1 - la0)
    return (lat_c, edge_a), (lat_c, edge_b)


def oracle_any(np, gcd, g, p0, p1):
    """Pieces of one segment, crossing the antimeridian or not; shares relative to the segment's length measured along
    its map line (for a crossing segment: the sum of the great-circle lengths of its two parts)."""
    if abs(p1[1] - p0[1]) <= math.pi:
        return oracle_segment(np, gcd, g, p0, p1)
    ca, cb = crossing_split(p0, p1)
    pa, la = oracle_segment(np, gcd, g, p0, ca)
    pb, lb = oracle_segment(np, gcd, g, cb, p1)
    tot = la + lb
    out = []
    for (cl, co, sh, ln) in pa:
        out.append((cl, co, (ln / tot) if tot > 0 else (1.0 if not out else 0.0), ln))
    for (cl, co, sh, ln) in pb:
        out.append((cl, co, (ln / tot) if tot > 0 else 0.0, ln))
    return out, tot


_BUFFERS = {}


def run_code(np, g, lats, lons, alts=None, times=None, state=(), integ=(), integ_dtype='float'):
    import warnings

    def buf(name, values, dtype=float):
        # callers keep their coordinate / value buffers and refill them in place for the next flight: the same array objects
        # come back with other contents (whatever a gridder remembers about "these arrays" must not outlive their contents)
        values = np.asarray(values, dtype)
        key = (id(g), name, values.shape, values.dtype.str)
        b = _BUFFERS.get(key)
        if b is None:
            b = _BUFFERS[key] = np.empty(values.shape, values.dtype)
        b[...] = values
        return b
    args = dict(lats=buf('lats', lats), lons=buf('lons', lons), alts=None if alts is None else buf('alts', alts),
                times=None if times is None else buf('times', times))
    sv = tuple(buf(f'state{j}', s_) for j, s_ in enumerate(state))
    iv = tuple(buf(f'integ{j}', v, (np.int64 if integ_dtype == 'int' else float)) for j, v in enumerate(integ))
    before = {k: (None if v is None else v.copy()) for k, v in args.items()}
    sv0, iv0 = [a.copy() for a in sv], [a.copy() for a in iv]
    with warnings.catch_warnings():
        warnings.simplefilter('ignore')
        out = g.grid_trajectory(args['lats'], args['lons'], args['alts'], args['times'], sv, iv)
    # frame: gridding reads the trajectory, it does not edit it (a caller that grids the same arrays at a second resolution
    # must get the same totals)
    for k, v in args.items():
        if v is not None and not np.array_equal(v, before[k]):
            raise RuntimeError(f'grid_trajectory changed its input array {k} in place: {before[k].tolist()} -> {v.tolist()}')
    for name, now, was in (('state variable', sv, sv0), ('integrated variable', iv, iv0)):
        for a, b in zip(now, was):
            if not np.array_equal(a, b):
                raise RuntimeError(f'grid_trajectory changed an input {name} array in place: {b.tolist()} -> {a.tolist()} '
                                   '(gridding the same trajectory again loses that share)')
    return out


def idx_of(np, edges, v):
    return int(np.argmin(np.abs(edges - v)))


def check_segment(np, gcd, g, p0, p1, a0=None, t0=None, a1=None, t1=None):
    """One segment on its own: (problems for C04, problems for C05, code pieces)."""
    c04, c05 = [], []
    alts = None if a0 is None else [a0, a1]
    times = None if t0 is None else [t0, t1]
    try:
        clat, clon, calt, ctime, sv, iv = run_code(np, g, [p0[0], p1[0]], [p0[1], p1[1]], alts, times, [[7.5, 9.5]], [[1.0]])
    except Exception as e:   # noqa
        msg = f'grid_trajectory raised {type(e).__name__}: {e}'
        return [msg], [msg], None
    lens = {k: len(v) for k, v in dict(lat=clat, lon=clon, state=sv[0], integrated=iv[0]).items()}
    if alts is not None:
        lens['alt'] = len(calt)
    if times is not None:
        lens['time'] = len(ctime)
    if len(set(lens.values())) != 1:
        c05.append(f'output arrays have different lengths: {lens}')
        return c04, c05, None
    pieces, total = oracle_any(np, gcd, g, p0, p1)
    code = [(idx_of(np, g.grid_latitudes, clat[q]), idx_of(np, g.grid_longitudes, clon[q]), float(iv[0][q])) for q in range(len(clat))]
    big_code = [c for c in code if abs(c[2]) > 1e-12]
    big_or = [o for o in pieces if o[2] > 1e-12]
    # conservation (C04)
    ssum = sum(c[2] for c in code)
    if not all(math.isfinite(c[2]) for c in code):
        c04.append(f'non-finite gridded values {[c[2] for c in code]}')
        return c04, c05, None
    excess = (sum(o[3] for o in pieces) / total - 1.0) if total > 0 else 0.0
    if ssum < 1 - 1e-9:
        c04.append(f'pieces add up to {ssum!r} of the segment\'s value (less than the whole)')
    elif ssum > 1 + max(excess, 0.0) + 1e-9:
        c04.append(f'pieces add up to {ssum!r} of the segment\'s value (allowed great-circle excess {excess:.3e})')
    # attribution (C05)
    if total == 0:
        # a segment of zero length (a repeated point; two points on a pole) has no length to share out: every piece that
        # receives something must lie in a cell the map line touches (how the value is split among them is C04's business)
        lat_ok = set(i for o in pieces for i in o[0])
        lon_ok = set(j for o in pieces for j in o[1])
        off = [(c[0], c[1]) for c in code if abs(c[2]) > 1e-12 and (c[0] not in lat_ok or c[1] not in lon_ok)]
        if not code or off:
            c05.append(f'zero-length segment: pieces attributed to {off or "nothing"}; its map line touches lat cells {sorted(lat_ok)} x lon cells {sorted(lon_ok)}')
    elif len(big_code) != len(big_or):
        c05.append(f'{len(big_code)} pieces receive a share, the path crosses {len(big_or)} cells: code {[(c[0], c[1], round(c[2], 6)) for c in code]}, '
                   f'expected {[(o[0], o[1], round(o[2], 6)) for o in pieces]}')
    else:
        for k, (c, o) in enumerate(zip(big_code, big_or)):
            if c[0] not in o[0] or c[1] not in o[1]:
                c05.append(f'piece {k} attributed to cell (lat {c[0]}, lon {c[1]}); that part of the segment lies in lat cells {o[0]} x lon cells {o[1]}')
            elif abs(c[2] - o[2]) > 1e-7:
                c05.append(f'piece {k} in cell (lat {c[0]}, lon {c[1]}) gets share {c[2]!r}; its share of the segment\'s length is {o[2]!r}')
    for q in range(len(clat)):
        if abs(float(sv[0][q]) - 7.5) > 1e-12:
            c05.append(f'piece {q} carries state value {float(sv[0][q])!r}; the segment\'s start point has 7.5')
        # the cell(s) of an axis that contain a value: closed cells [edge k, edge k + 1], k = 0 .. number of edges - 2
        def cells_of(edges, v):
            return [float(edges[k]) for k in range(len(edges) - 1) if float(edges[k]) <= v <= float(edges[k + 1])]
        if alts is not None:
            ok = cells_of(g.grid_altitudes, a0)
            if not any(abs(float(calt[q]) - w) <= 1e-9 for w in ok):
                c05.append(f'piece {q} in altitude cell {float(calt[q])!r}; the start point ({a0!r}) lies in the cell starting at {ok}')
        if times is not None:
            ok = cells_of(g.grid_times, t0)
            if not any(abs(float(ctime[q]) - w) <= 1e-9 for w in ok):
                c05.append(f'piece {q} in time cell {float(ctime[q])!r}; the start point ({t0!r}) lies in the cell starting at {ok}')
    return c04[:2], c05[:3], dict(clat=clat, clon=clon, calt=calt, ctime=ctime, sv=sv[0], iv=iv[0])


def check_path(np, gcd, g, pts, alts=None, times=None, values=None):
    """A multi-segment path (no antimeridian crossing): every segment on its own, and the whole path = the
    concatenation of its segments in path order with each segment's value split by its own shares."""
    c04, c05 = [], []
    nseg = len(pts) - 1
    values = values if values is not None else [float(3 + k) for k in range(nseg)]
    state = [10.0 + k for k in range(nseg + 1)]
    per = []
    for s in range(nseg):
        a, b, pc = check_segment(np, gcd, g, pts[s], pts[s + 1], None if alts is None else alts[s], None if times is None else times[s],
                                 None if alts is None else alts[s + 1], None if times is None else times[s + 1])
        c04 += [f'segment {s} {fmt(pts[s])} -> {fmt(pts[s + 1])}: {m}' for m in a]
        c05 += [f'segment {s} {fmt(pts[s])} -> {fmt(pts[s + 1])}: {m}' for m in b]
        per.append(pc)
    if nseg > 1 and all(p is not None for p in per):
        try:
            clat, clon, calt, ctime, sv, iv = run_code(np, g, [p[0] for p in pts], [p[1] for p in pts], alts, times, [state], [values])
        except Exception as e:   # noqa
            msg = f'grid_trajectory raised {type(e).__name__}: {e}'
            return c04 + [msg], c05 + [msg]
        want_lat = np.concatenate([p['clat'] for p in per])
        want_lon = np.concatenate([p['clon'] for p in per])
        want_iv = np.concatenate([p['iv'] * values[s] for s, p in enumerate(per)])
        want_sv = np.concatenate([np.full(len(p['clat']), state[s]) for s, p in enumerate(per)])
        if len(clat) != len(want_lat) or len(clon) != len(want_lat) or len(iv[0]) != len(want_lat) or len(sv[0]) != len(want_lat):
            c05.append(f'whole path gives {len(clat)} / {len(clon)} / {len(sv[0])} / {len(iv[0])} entries, its segments one by one {len(want_lat)}')
        else:
            if not (np.allclose(clat, want_lat, atol=1e-12) and np.allclose(clon, want_lon, atol=1e-12)):
                c05.append('cells of the whole path are not its segments\' cells in path order')
            if not np.allclose(sv[0], want_sv, atol=1e-12):
                c05.append('state values of the whole path are not those of each segment\'s start point')
            if not np.allclose(iv[0], want_iv, rtol=1e-9, atol=1e-12):
                c04.append(f'integrated values of the whole path differ from the per-segment split: total {float(np.sum(iv[0]))!r} vs {float(np.sum(want_iv))!r}')
            if float(np.sum(iv[0])) < float(sum(values)) * (1 - 1e-9):
                c04.append(f'gridded total {float(np.sum(iv[0]))!r} is less than the trajectory total {float(sum(values))!r}')
            if alts is not None and len(calt) != len(want_lat):
                c05.append(f'{len(calt)} altitude entries for {len(want_lat)} pieces')
            if times is not None and len(ctime) != len(want_lat):
                c05.append(f'{len(ctime)} time entries for {len(want_lat)} pieces')
    return c04, c05


def fmt(p):
    return '(%.4f, %.4f) deg' % (math.degrees(p[0]), math.degrees(p[1]))


def run_families(payload):
    """The bounded families (see DESIGN 2 C04/C05).  Returns problems for C04 and for C05 separately."""
    import random
    payload = payload if isinstance(payload, dict) else {}      # a replay file carries the failing case as text: rerun the families
    tier, only = payload.get('tier', 'quick'), payload.get('only')
    rnd = random.Random(payload.get('seed', 0))
    np, Gridder, gcd = _import_grid()
    c04, c05, cases = [], [], 0
    quick = tier == 'quick'

    def note(kind, a, b):
        for m in a:
            if len(c04) < 12:
                c04.append(f'[{kind}] {m}')
        for m in b:
            if len(c05) < 12:
                c05.append(f'[{kind}] {m}')

    rad = math.radians
    # 1. single segments on the quarter-cell lattice of a 4 x 4 grid (interior grid lines included, outer boundary excluded)
    g = make_grid(np, Gridder, 4, 4, -40, 40, -40, 40)
    L = [rad(-35 + 5 * k) for k in range(15)]
    pts = list(itertools.product(L, L))
    if only in (None, 'lattice'):
        pairs = list(itertools.product(pts, pts))
        if quick:
            special = [(p, p) for p in pts] + [(p, q) for p in pts[::7] for q in pts[::5] if p[0] == q[0] or p[1] == q[1]]
            pairs = special + rnd.sample(pairs, 2500)
        for p0, p1 in pairs:
            cases += 1
            a, b, _ = check_segment(np, gcd, g, p0, p1)
            note('lattice segment ' + fmt(p0) + ' -> ' + fmt(p1), a, b)
    # 2. paths of 3..4 lattice points with altitude and time axes
    if only in (None, 'paths'):
        ga = make_grid(np, Gridder, 4, 4, -40, 40, -40, 40, alts=[0.0, 3000.0, 9000.0, 13000.0], times=[0.0, 100.0, 200.0, 400.0])
        for _ in range(250 if quick else 6000):
            cases += 1
            k = rnd.choice([3, 4])
            path = [rnd.choice(pts) for _ in range(k)]
            if rnd.random() < 0.3:
                path[1] = path[0]          # repeated point
            alts = [rnd.choice([10.0, 2999.0, 3000.0, 5000.0, 12000.0]) for _ in range(k)]
            times = [rnd.choice([1.0, 99.0, 100.0, 150.0, 399.0]) for _ in range(k)]
            mode = rnd.randrange(3)
            a, b = check_path(np, gcd, ga if mode else g, path, alts if mode else None, times if mode == 2 else None)
            if mode == 1:
                ga1 = make_grid(np, Gridder, 4, 4, -40, 40, -40, 40, alts=[0.0, 3000.0, 9000.0, 13000.0])
                a, b = check_path(np, gcd, ga1, path, alts, None)
            note('path ' + ' -> '.join(fmt(p) for p in path), a, b)
    # 3. off-lattice geometry on grids of several resolutions
    if only in (None, 'random'):
        for _ in range(400 if quick else 20000):
            cases += 1
            nlat, nlon = rnd.randint(1, 7), rnd.randint(1, 7)
            gg = make_grid(np, Gridder, nlat, nlon, -60, 60, -90, 90)
            p0 = (rad(rnd.uniform(-59, 59)), rad(rnd.uniform(-89, 89)))
            p1 = (rad(rnd.uniform(-59, 59)), rad(rnd.uniform(-89, 89)))
            if rnd.random() < 0.15:
                p1 = (p0[0], p1[1])
            elif rnd.random() < 0.15:
                p1 = (p1[0], p0[1])
            a, b, _ = check_segment(np, gcd, gg, p0, p1)
            note(f'{nlat} x {nlon} grid, segment ' + fmt(p0) + ' -> ' + fmt(p1), a, b)
    # 2b. points on the outermost grid lines: the lowest and highest latitude / longitude line, the first and last altitude and time edge
    if only in (None, 'outer-lines'):
        go = make_grid(np, Gridder, 4, 4, -40, 40, -40, 40, alts=[0.0, 3000.0, 9000.0, 13000.0], times=[0.0, 100.0, 200.0, 400.0])
        LO = [rad(v) for v in (-40, -35, -20, 0, 15, 40)]
        outer = [(a, b) for a in LO for b in LO if abs(abs(a) - rad(40)) < 1e-12 or abs(abs(b) - rad(40)) < 1e-12]
        inner = [(a, b) for a in LO for b in LO]
        pairs = [(p, q) for p in outer for q in inner] + [(q, p) for p in outer for q in inner]
        if quick:
            pairs = rnd.sample(pairs, 300)
        for p0, p1 in pairs:
            cases += 1
            a0, a1 = rnd.choice([0.0, 10.0, 3000.0, 13000.0]), rnd.choice([0.0, 5000.0, 13000.0])
            t0, t1 = rnd.choice([0.0, 50.0, 100.0, 400.0]), rnd.choice([0.0, 150.0, 400.0])
            a, b, _ = check_segment(np, gcd, go, p0, p1, a0, t0, a1, t1)
            note('segment with a point on an outermost grid line ' + fmt(p0) + f' alt {a0} t {t0} -> ' + fmt(p1) + f' alt {a1} t {t1}', a, b)
    # 3a. almost along a parallel / a meridian: the coordinate that 'does not change' changes by 1e-12 .. 1e-7 rad
    if only in (None, 'nearly-straight'):
        gn = make_grid(np, Gridder, 4, 6, -40, 40, -90, 90)
        for _ in range(60 if quick else 1500):
            cases += 1
            eps = rnd.choice([1e-12, 1e-10, 1e-9, 3e-9, 1e-8, 1e-7]) * rnd.choice([1, -1])
            la, lo = rad(rnd.uniform(-38, 38)), rad(rnd.uniform(-88, 88))
            if rnd.random() < 0.5:
                p0, p1 = (la, lo), (la + eps, rad(rnd.uniform(-88, 88)))
            else:
                p0, p1 = (la, lo), (rad(rnd.uniform(-38, 38)), lo + eps)
            a, b, _ = check_segment(np, gcd, gn, p0, p1)
            note('nearly straight segment ' + repr(tuple(math.degrees(v) for v in p0)) + ' -> ' + repr(tuple(math.degrees(v) for v in p1)), a, b)
    # 3b. the poles: zero-length segments that still sweep longitude cells, and segments ending on a pole
    if only in (None, 'poles'):
        gp = make_grid(np, Gridder, 6, 12, -90, 90, -180, 180)
        for lat in (90.0,):       # the south pole lies on the grid's lowest line (outside the bound: index -1 convention)
            for lo0, lo1 in ((10.5, 13.5), (10.5, 100.5), (-170.5, -20.5), (40.0, 40.0), (33.0, -12.0)):
                cases += 1
                a, b, _ = check_segment(np, gcd, gp, (rad(lat), rad(lo0)), (rad(lat), rad(lo1)))
                note(f'pole segment ({lat}, {lo0}) -> ({lat}, {lo1}) deg', a, b)
            # a leg that ends on the pole exactly on a longitude grid line, coming from the east / from the west: the crossing of
            # that last line coincides with the pole point (computed from the map line it may land a few ulp beyond 90 degrees)
            for end_lon in (150.0, 30.0, -60.0, 0.0, -150.0):
                for dlon, la0 in ((11.36, 68.47), (-11.36, 68.47), (47.3, 21.7), (-33.9, 80.2), (3.7, 89.1)):
                    if not -180.0 < end_lon + dlon < 180.0:
                        continue            # (a longitude outside the grid is not a valid way point)
                    cases += 1
                    p0, p1 = (rad(la0), rad(end_lon + dlon)), (rad(lat), rad(end_lon))
                    for u, v in ((p0, p1), (p1, p0)):
                        a, b, _ = check_segment(np, gcd, gp, u, v)
                        note('segment between ' + fmt(p0) + ' and the pole on a longitude grid line, ' + ('towards' if u is p0 else 'from') + ' the pole', a, b)
            for lo0, la1, lo1 in ((10.0, 60.0, 10.0), (10.0, 45.0, 70.0), (-100.0, 80.0, -100.0)):
                cases += 1
                p0, p1 = (rad(lat), rad(lo0)), (rad(la1 if lat > 0 else -la1), rad(lo1))
                for u, v in ((p0, p1), (p1, p0)):
                    a, b, _ = check_segment(np, gcd, gp, u, v)
                    note('segment touching a pole ' + fmt(u) + ' -> ' + fmt(v), a, b)
    # 4. one antimeridian crossing on a global 4 x 8 grid, both directions, with an altitude axis
    if only in (None, 'crossing'):
        gx = make_grid(np, Gridder, 4, 8, -40, 40, -180, 180, alts=[0.0, 3000.0, 9000.0, 13000.0], times=[0.0, 100.0, 200.0, 400.0])
        lats = [rad(v) for v in (-35, -20, -5, 10, 12, 30)]
        east = [rad(v) for v in (100, 150, 165, 175, 179.5)]
        west = [-v for v in east]
        cross = [((la0, lo0), (la1, lo1)) for la0 in lats for la1 in lats for lo0 in east for lo1 in west if (lo0 - lo1) > math.pi]
        cross += [(q, p) for p, q in cross]
        if quick:
            cross = rnd.sample(cross, 500)
        for p0, p1 in cross:
            cases += 1
            a, b, _ = check_segment(np, gcd, gx, p0, p1, 1000.0, 50.0, 9500.0, 250.0)
            note('crossing segment ' + fmt(p0) + ' -> ' + fmt(p1), a, b)
        # integrated quantities counted in whole units (integer arrays): the two shares of the crossing segment are fractions
        for p0, p1 in cross[:40]:
            cases += 1
            try:
                out = run_code(np, gx, [p0[0], p1[0]], [p0[1], p1[1]], None, None, [[1.0, 2.0]], [[7]], integ_dtype='int')
                tot = float(np.sum(np.asarray(out[5][0], float)))
                if not (tot >= 7 * (1 - 1e-9)):
                    note('crossing segment ' + fmt(p0) + ' -> ' + fmt(p1) + ' with an integer-typed integrated value',
                         [f'pieces {np.asarray(out[5][0]).tolist()} add up to {tot!r}, less than the segment\'s value 7'], [])
            except Exception as e:   # noqa
                note('crossing segment with an integer-typed integrated value', [f'grid_trajectory raised {type(e).__name__}: {e}'], [])
        # the degenerate corner: the same point written on both sides of the antimeridian
        for la in (rad(10), rad(-20)):
            cases += 1
            a, b, _ = check_segment(np, gcd, gx, (la, math.pi), (la, -math.pi))
            note('repeated point on the antimeridian', a, b)
    return dict(cases=cases, c04=c04, c05=c05,
                bound='4 x 4 grid quarter-cell lattice segments (2.7e3 sampled / all 5.1e4), 250 / 6000 lattice paths of 3..4 points with altitude and time axes, '
                      '400 / 20000 random segments on 1..7 x 1..7 grids, 60 / 1500 segments that leave a parallel or meridian by 1e-12 .. 1e-7 rad, segments on and into the poles of a global 6 x 12 grid, 500 / all 1800 antimeridian crossings on a global 4 x 8 grid',
                rule='points on interior grid lines, corners, along-line, westward / southward, repeated points, one antimeridian crossing; points on the outermost grid lines excluded')
