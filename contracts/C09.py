"""C09 -- a merged store equals the concatenation of its input stores.

The real merge() is executed over a ghost file system (k = 1..3 inputs of symbolic sizes, names
deliberately not in lexicographic order), then the merged directory is opened by the real
constructor (READ mode: __init__, _check_constructor_arguments, _check_file_paths, _open_merged,
_open_merged_store) and read by the real __len__ / __getitem__ / _load_trajectory with a symbolic index.
_load_trajectory's location arithmetic is additionally proved for an unbounded number of parts.
"""
from __future__ import annotations

import z3

from contracts.storemodel import (FieldSetStub, TS, GhostFile, LoadedTraj, Model, TrajRec, install_ghost_os, install_store_models,
                                  make_cache, make_ncfiles, make_store, register_file, Group, NcDim, DatasetStub)
from pyvc.models.arrays import SArr
from pyvc.source import Unsupported
from pyvc.values import Builtin, Obj, PyExc, to_z3
from pyvc.verify import unit

LEVEL = 'proof'
EXPLANATION = ('merge + open + read executed symbolically end to end over ghost files (1..3 parts, symbolic sizes and '
               'index); the (file, local row) location lemma is proved for any number of parts from the cumulative-size '
               'invariant.')
FUNCS = [TS + '.' + m for m in ('merge', '_check_merge_arguments', '__init__', '_check_constructor_arguments',
                                '_check_file_paths', '_open_merged', '_open_merged_store', '_load_trajectory', '__len__',
                                '__getitem__', '_create_merged_store_index', '_associated_open_checks', 'get_flight')]
ROWJ = z3.Function('part_row_content', z3.IntSort(), z3.IntSort(), z3.IntSort())   # (part, local row) -> trajectory id
NAMES = ['s2.nc', 's1.nc', 's3.nc']      # given order is not the sorted order
PART_SPECIES = [['CO2', 'H2O'], ['NOx', 'SO4'], ['CO2', 'NOx', 'PMvol']]


class OpenedStub(Model):
    """What TrajectoryStore.open(base_file=p) gives merge(): field-set names, length, index group
    (contract of open, proved under C07/C08)."""

    def __init__(self, ds, fsnames):
        self.ds, self.fsnames = ds, fsnames
        self.closed = False          # the handle on the file: merge must give it back before the file is moved

    def py_enter(self, I):
        return self

    def py_exit(self, I, exc):
        self.closed = True
        return False

    def py_getattr(self, I, name):
        if name == 'close':
            def close():
                self.closed = True
            from pyvc.values import Builtin
            return Builtin('close', close, pure=False)
        if name == '_nc':
            return {n: None for n in self.fsnames}
        if name == 'index_group':
            return self.ds.groups.get('_index')
        raise Unsupported('store.' + name)

    def py_len(self, I):
        return self.ds.f.length


def setup_inputs(h, k, indexed=False, fsnames=None):
    I = h.I
    loaded = install_store_models(h, I)
    gos = install_ghost_os(h, I)
    I.hooks['thread_ident'] = lambda I_: 1
    files = []
    for j in range(k):
        n = h.int(f'size_{j}')
        h.assume(n >= 0, 'input store sizes are non-negative')
        f = GhostFile(NAMES[j], n, (lambda jj: (lambda r: ROWJ(z3.IntVal(jj), to_z3(r))))(j))
        f.part = j
        f.species = PART_SPECIES[j]       # every input has its own species dimension
        register_file(I, NAMES[j], f, index_group=indexed)
        files.append(f)

    def open_summary(I_, fi, a, kw):
        p = kw['base_file']
        key = p._key() if hasattr(p, '_key') else p
        ds = I_.hooks['nc_files'].get(key)
        if ds is None:
            I_.raise_('ValueError', f'Input file {key} does not exist')
        names = (fsnames or {}).get(ds.f.part if hasattr(ds.f, 'part') else 0, ('base',))
        st = OpenedStub(ds, names)
        gos.opened.append(st)
        return st
    return files, gos, loaded, open_summary


def handle_clauses(h, gos, when=''):
    """merge() opens its inputs only to look at them (field sets, length, index): a file that is moved while a store still
    holds it open is what the HDF5 library does not allow (observed natively: a merged store of six inputs opened right
    after merge() ends the process with a segmentation fault; a retry after a failed merge fails with 'NetCDF: HDF error')."""
    h.ensure('no-input-file-is-moved-while-merge-holds-it-open' + when, not gos.moved_while_open,
             note='renamed while open: ' + ', '.join(gos.moved_while_open[:4]))
    left = [st.ds.f.name for st in gos.opened if not st.closed]
    h.ensure('merge-closes-every-store-it-opened' + when, not left, note='still open: ' + ', '.join(left[:4]))


def ident(result):
    if isinstance(result, TrajRec):
        return result.tid
    if isinstance(result, LoadedTraj):
        t = result.tid()
        if t is None:
            return None
        f, row = t
        return f.rows(row)
    return None


@unit('C09', 'merge-then-open.concatenation', FUNCS, replay='contracts.C09:replay')
def merge_open(h):
    k = 1 + h.choice(3)
    files, gos, loaded, open_summary = setup_inputs(h, k)
    h.ctx.named['n_parts'] = z3.IntVal(k)
    I = h.I
    cls = h.cls(TS)
    h.trust('TrajectoryStore.open(base_file=p) inside merge by its contract (C07/C08): a store over file p exposing its '
            'field-set names, length and index group')
    h.summary(TS + '.open', open_summary)
    use_pattern = k == 3 and h.choice(2) == 1
    try:
        if use_pattern:
            # numbered pattern: inputs p1.nc..p3.nc (indices 1..3)
            for j, f in enumerate(files):
                ds = I.hooks['nc_files'].pop(f.name)
                f.name = f'p{j + 1}.nc'
                I.hooks['nc_files'][f.name] = ds
            I.call(I.getattr(cls, 'merge'), ['out.aeic-store'], dict(input_stores_pattern='p{index}.nc',
                                                                   input_stores_index_range=(1, 3)))
        else:
            I.call(I.getattr(cls, 'merge'), ['out.aeic-store', [f.name for f in files]], {})
    except PyExc as e:
        h.fail('valid-merge-is-accepted', repr(e.inst) + ' at ' + str(e.inst.where))
        return
    del I.summaries[TS + '.open']
    handle_clauses(h, gos)
    md = gos.json.get('out.aeic-store/metadata.json')
    h.ensure('metadata-lists-parts-in-the-given-order',
             isinstance(md, dict) and [s[0] for s in md.get('stores', [])] == [(f.name.split('/')[-1]) for f in files])
    # the inputs were moved into the merged directory
    h.ensure('inputs-moved-into-the-merged-directory',
             all(('out.aeic-store/' + (f'p{j + 1}.nc' if use_pattern else NAMES[j])) in I.hooks['nc_files'] for j in range(k)))

    def base_checks(I_, fi, a, kw):
        s, ncf = a[0], a[1]
        s.attrs['_nc_files'].append(ncf)
        s.attrs['_nc']['base'] = ncf
    h.summary(TS + '._base_open_checks', base_checks)
    try:
        st = I.call(I.getattr(cls, 'open'), [], dict(base_file='out.aeic-store'))
    except PyExc as e:
        h.fail('merged-store-opens', repr(e.inst) + ' at ' + str(e.inst.where))
        return
    total = sum([to_z3(f.length) for f in files])
    h.ensure('length-is-the-sum-of-the-parts', to_z3(I.len_(st)) == total)
    i = h.int('index')
    h.assume(i >= 0)
    try:
        r = I.getitem(st, i)
    except PyExc as e:
        if h.exc_is(e, 'IndexError'):
            h.ensure('out-of-range-only-beyond-the-end', i >= total, note=repr(e.inst))
        else:
            h.fail('no-internal-error', repr(e.inst) + ' at ' + str(e.inst.where))
        return
    h.ensure('index-beyond-the-end-is-refused', i < total)
    reads = I.hooks.get('species_reads', [])
    h.ensure('values-labelled-by-the-species-list-of-the-file-they-are-read-from',
             bool(reads) and all([getattr(s_, 'name', s_) for s_ in (sp or [])] == (f_.species or []) for f_, sp in reads),
             note='; '.join(f'{f_.name}: read with {[getattr(s_, "name", s_) for s_ in (sp or [])]}, file has {f_.species}' for f_, sp in reads))
    got = ident(r)
    if got is None:
        h.fail('ith-trajectory-is-the-corresponding-input-trajectory', 'result not assembled from one row')
        return
    off = z3.IntVal(0)
    conds = []
    for j, f in enumerate(files):
        n = to_z3(f.length)
        conds.append(z3.Implies(z3.And(i >= off, i < off + n), got == ROWJ(z3.IntVal(j), i - off)))
        off = off + n
    h.ensure('ith-trajectory-is-the-corresponding-input-trajectory', z3.And(*conds))


@unit('C09', 'merge.inputs-with-the-same-file-name', FUNCS, replay='contracts.C09:replay_same_name')
def merge_same_name(h):
    """Inputs in different directories may carry the same file name (a/x.nc, b/x.nc).  They are moved into one
    directory under their own names: either the merge refuses them untouched, or every input is still there
    afterwards (no input may be overwritten by another)."""
    files, gos, loaded, open_summary = setup_inputs(h, 2)
    I = h.I
    nc = I.hooks['nc_files']
    # given as an explicit list (a/x.nc, b/x.nc), or by a numbered pattern whose number is in a directory name (run_1/x.nc, run_2/x.nc)
    by_pattern = h.choice(2) == 1
    h.ctx.named['inputs_given_by_pattern'] = z3.BoolVal(by_pattern)
    for d, f in zip(('run_1', 'run_2') if by_pattern else ('a', 'b'), files):
        gos.dirs.add(d)
        ds = nc.pop(f.name)
        f.name = d + '/x.nc'
        nc[f.name] = ds
    h.assume(z3.And(to_z3(files[0].length) >= 1, to_z3(files[1].length) >= 1), 'both inputs hold trajectories')
    h.summary(TS + '.open', open_summary)
    cls = h.cls(TS)
    before = {k: v for k, v in nc.items()}
    try:
        if by_pattern:
            I.call(I.getattr(cls, 'merge'), ['out.aeic-store'], dict(input_stores_pattern='run_{index}/x.nc', input_stores_index_range=(1, 2)))
        else:
            I.call(I.getattr(cls, 'merge'), ['out.aeic-store', [f.name for f in files]], {})
    except PyExc as e:
        h.ensure('same-name-inputs-are-refused-by-name', h.exc_is(e, 'ValueError'), note=repr(e.inst))
        h.ensure('refused-merge-leaves-the-inputs-where-they-were', all(nc.get(k) is v for k, v in before.items()) and 'out.aeic-store/metadata.json' not in gos.json)
        return
    present = [v for v in nc.values()]
    h.ensure('no-input-is-overwritten-by-another', all(any(v is b for v in present) for b in before.values()),
             note=f'files after the merge: {sorted(nc)}; inputs were {sorted(before)}')


@unit('C09', 'merge.refusals', FUNCS, replay='contracts.C09:replay')
def merge_refusals(h):
    kind = h.choice(2)
    if kind == 0:
        files, gos, loaded, open_summary = setup_inputs(h, 2, fsnames={0: ('base',), 1: ('base', 'emissions')})
    else:
        files, gos, loaded, open_summary = setup_inputs(h, 2)
        h.I.hooks['nc_files'][NAMES[1]].groups['_index'] = object()     # second input is indexable, first is not
    h.summary(TS + '.open', open_summary)
    cls = h.cls(TS)
    try:
        h.I.call(h.I.getattr(cls, 'merge'), ['out.aeic-store', [f.name for f in files]], {})
        h.fail('inconsistent-inputs-are-refused', 'merge returned for ' + ('different field sets' if kind == 0 else 'mixed indexability'))
    except PyExc as e:
        h.ensure('inconsistent-inputs-are-refused', h.exc_is(e, 'ValueError'), note=repr(e.inst))
        h.ensure('refused-merge-announces-nothing', 'out.aeic-store/metadata.json' not in gos.json)


@unit('C09', 'merged-index.offsets', FUNCS, replay='contracts.C09:replay')
def merged_index(h):
    """Flight-id lookup works across all parts: the merged index holds, for every entry (id, row) of
    part j's own index, the entry (id, row + sum of the sizes of the earlier parts), sorted by id."""
    k = 2 + h.choice(2)
    files, gos, loaded, open_summary = setup_inputs(h, k, indexed=True)
    I = h.I
    entries = []
    for j, f in enumerate(files):
        ne = h.choice(3) if j == 0 else 1
        ids = [h.int(f'id_{j}_{e}') for e in range(ne)]
        rows = [h.int(f'row_{j}_{e}') for e in range(ne)]
        for e in range(ne):
            h.assume(z3.And(rows[e] >= 0, rows[e] < to_z3(f.length)))
        if ne == 2:
            h.assume(ids[0] < ids[1], 'each part\'s own index is sorted by flight id')
        f.index_ids, f.index_rows = ids, rows
        entries.append((ids, rows))
    allids = [i for ids, _ in entries for i in ids]
    h.assume(z3.Distinct(*allids) if len(allids) > 1 else True, 'flight ids are distinct')
    h.summary(TS + '.open', open_summary)
    cls = h.cls(TS)
    try:
        I.call(I.getattr(cls, 'merge'), ['out.aeic-store', [f.name for f in files]], {})
    except PyExc as e:
        h.fail('valid-merge-is-accepted', repr(e.inst) + ' at ' + str(e.inst.where))
        return
    handle_clauses(h, gos)
    ds = I.hooks['nc_files'].get('out.aeic-store/_index.nc')
    if ds is None or '_index' not in ds.groups:
        h.fail('merged-index-written', 'no _index.nc in the merged directory')
        return
    tab_ids, tab_rows = ds.f.index_ids, ds.f.index_rows
    if not isinstance(tab_ids, list) or not isinstance(tab_rows, list) or len(tab_ids) != len(allids) or len(tab_rows) != len(allids):
        h.fail('merged-index-written', f'index tables {tab_ids!r} / {tab_rows!r}')
        return
    h.ensure('merged-index-sorted-by-id', z3.And(*[to_z3(tab_ids[p]) < to_z3(tab_ids[p + 1]) for p in range(len(tab_ids) - 1)])
             if len(tab_ids) > 1 else True)
    off = z3.IntVal(0)
    conj = []
    for j, (ids, rows) in enumerate(entries):
        for e in range(len(ids)):
            conj.append(z3.Or(*[z3.And(to_z3(tab_ids[p]) == ids[e], to_z3(tab_rows[p]) == rows[e] + off)
                                for p in range(len(tab_ids))]))
        off = off + to_z3(files[j].length)
    h.ensure('every-id-maps-to-its-row-shifted-by-the-earlier-parts', z3.And(*conj))
    h.ensure('metadata-written-after-the-index', gos.log.index('json.dump out.aeic-store/metadata.json') == len(gos.log) - 1)


class PartList(Model):
    """groups[fs][j] / traj_dim[j] for an unbounded number k of parts."""

    def __init__(self, k, mk):
        self.k, self.mk = k, mk

    def py_getitem(self, I, idx):
        iz = to_z3(idx)
        if I.ctx.branch(z3.Or(iz < 0, iz >= to_z3(self.k))):
            I.raise_('IndexError', 'list index out of range')
        return self.mk(iz)

    def py_len(self, I):
        return self.k


@unit('C09', '_load_trajectory.location-lemma-any-number-of-parts', [TS + '._load_trajectory'], replay='contracts.C09:replay_location')
def location_lemma(h):
    I = h.I
    install_store_models(h, I)
    k = h.int('n_parts')
    h.assume(k >= 1)
    CUM = z3.Function('cumulative_size', z3.IntSort(), z3.IntSort())       # cum(j) = sum of sizes of parts 0..j
    j_ = z3.Int('j_')
    h.assume(z3.ForAll([j_], z3.Implies(z3.And(j_ >= 0, j_ < k - 1), CUM(j_) <= CUM(j_ + 1))),
             'size_index is the running sum of non-negative part sizes (itertools.accumulate)')
    a_, b_ = z3.Ints('a_ b_')
    h.assume(z3.ForAll([a_, b_], z3.Implies(z3.And(a_ >= 0, a_ <= b_, b_ < k), CUM(a_) <= CUM(b_))))
    h.assume(CUM(0) >= 0)
    size_index = SArr(k, lambda q: CUM(to_z3(q)), kind='list')

    def part_len(j):
        return z3.If(j == 0, CUM(0), CUM(j) - CUM(j - 1))

    def mk_group(j):
        f = GhostFile('part', part_len(j), lambda r: ROWJ(j, to_z3(r)))
        f.partz = j
        return Group(f, ('f_point', 'f_scalar'))
    NcFiles = I.lookup_fq(TS + '.NcFiles')
    h.summary(TS + '._retrieve_nc_species_values', lambda I_, fi, a, kw: None)      # the parts of this unit have no species dimension
    ncf = I.call(NcFiles, [], dict(path=[], fieldsets={'base'}, dataset=PartList(k, lambda j: ('dataset-of-part', j)), traj_dim=[], traj_var=[], species=None,
                                   groups={'base': PartList(k, mk_group)}, size_index=size_index))
    # "... including data held in separately merged associated stores": a second field set lives in its own merged store,
    # cut into the same number of files at *other* places (same total): its cells come from its own files' rows
    two = h.choice(2) == 1
    h.ctx.named['with_a_separately_merged_associated_store'] = z3.BoolVal(two)
    if two:
        CUM2 = z3.Function('cumulative_size_of_the_associated_store', z3.IntSort(), z3.IntSort())
        h.assume(z3.ForAll([a_, b_], z3.Implies(z3.And(a_ >= 0, a_ <= b_, b_ < k), CUM2(a_) <= CUM2(b_))))
        h.assume(z3.And(CUM2(0) >= 0, CUM2(k - 1) == CUM(k - 1)), 'base and associated store hold the same number of trajectories')

        def mk_group2(j):
            f2 = GhostFile('associated-part', z3.If(j == 0, CUM2(0), CUM2(j) - CUM2(j - 1)), lambda r: ROWJ(100 + j, to_z3(r)))
            f2.partz = j
            return Group(f2, ('g_point', 'g_scalar'))
        ncf2 = I.call(NcFiles, [], dict(path=[], fieldsets={'extra'}, dataset=PartList(k, lambda j: ('dataset-of-associated-part', j)), traj_dim=[], traj_var=[],
                                        species=None, groups={'extra': PartList(k, mk_group2)}, size_index=SArr(k, lambda q: CUM2(to_z3(q)), kind='list')))

        class TwoFields(FieldSetStub):
            FIELDS = {'g_point': True, 'g_scalar': False}
        h.summary('AEIC.storage.field_sets:FieldSet.from_registry', lambda I_, fi, a, kw: TwoFields() if a[-1] == 'extra' else FieldSetStub())

    def bisect_sym(I_, seq, x):
        pos = h.ctx.fresh('bisect_pos', z3.IntSort())
        n = to_z3(seq.length)
        I_.ctx.assume(z3.And(pos >= 0, pos <= n, z3.Implies(pos > 0, to_z3(seq.at(pos - 1)) < to_z3(x)),
                             z3.Implies(pos < n, to_z3(seq.at(pos)) >= to_z3(x))))
        return pos
    I.models['bisect_left:symbolic'] = bisect_sym
    h.trust('bisect.bisect_left on a sorted list returns pos with a[pos-1] < x <= a[pos]')
    cache = make_cache(h, I, in_memory=False)
    st = make_store(h, I, 'READ', ncf, cache, next_index=0)
    if two:
        st.attrs['_nc_files'] = [ncf, ncf2]
        st.attrs['_nc'] = {'base': ncf, 'extra': ncf2}
    i = h.int('index')
    h.assume(i >= 0)
    total = CUM(k - 1)
    try:
        h.method(st, '_load_trajectory', i)
    except PyExc as e:
        h.fail('no-internal-error', repr(e.inst) + ' at ' + str(e.inst.where))
        return
    es = cache.attrs['__entries__']
    if not es:
        h.ensure('nothing-loaded-only-beyond-the-end', i >= total)
        return
    h.ensure('beyond-the-end-loads-nothing', i < total)
    key, val = es[-1]
    if two and isinstance(val, LoadedTraj):
        from contracts.storemodel import Cell
        cells = val.cells
        for names, cum, what in ((('f_point', 'f_scalar'), CUM, 'base'), (('g_point', 'g_scalar'), CUM2, 'associated')):
            cs = [cells.get(nm) for nm in names]
            if not all(isinstance(c, Cell) for c in cs) or any(c.f is not cs[0].f for c in cs):
                h.fail(f'{what}-fields-come-from-the-row-of-their-own-part-containing-the-index', f'{what} fields not assembled from one row: {cs!r}')
                return
            jz = cs[0].f.partz
            start = z3.If(jz == 0, 0, cum(jz - 1))
            h.ensure(f'{what}-fields-come-from-the-row-of-their-own-part-containing-the-index',
                     z3.And(jz >= 0, jz < k, start <= i, i < cum(jz), *[to_z3(c.row) == i - start for c in cs]))
        h.ensure('cached-under-the-requested-index', to_z3(key) == i)
        return
    f_row = val.tid() if isinstance(val, LoadedTraj) else None
    if f_row is None:
        h.fail('loads-the-row-of-the-part-containing-the-index', 'not assembled from one row')
        return
    f, row = f_row
    jz = f.partz
    start = z3.If(jz == 0, 0, CUM(jz - 1))
    h.ensure('cached-under-the-requested-index', to_z3(key) == i)
    h.ensure('loads-the-row-of-the-part-containing-the-index',
             z3.And(jz >= 0, jz < k, start <= i, i < CUM(jz), to_z3(row) == i - start))


def replay_location(payload):
    """Native: seven trajectories in a merged base store cut as 2 + 5 and a separately merged associated store cut as 4 + 3
    (written twice with different cuts, base files of one cut and associated files of the other merged): every index must
    give base and associated values of the same trajectory."""
    import os
    import shutil
    import tempfile
    from AEIC.storage import Dimension as D, Dimensions, FieldMetadata, FieldSet
    from AEIC.trajectories import TrajectoryStore
    from contracts.C07 import _mk
    if not FieldSet.known('c09_loc_extra'):
        FieldSet('c09_loc_extra', c09_loc_x=FieldMetadata(dimensions=Dimensions(D.TRAJECTORY), description='', units=''))
    tmp = tempfile.mkdtemp(prefix='c09l-', dir=os.environ.get('VERIF_SCRATCH'))
    problems = []

    class Extra:
        FIELD_SETS = [FieldSet.from_registry('c09_loc_extra')]

        def __init__(self, t):
            self.c09_loc_x = float(t.starting_mass) + 0.5

    def write(tag, cuts):
        bases, assocs, pos = [], [], 0
        for j, n in enumerate(cuts):
            b, a = os.path.join(tmp, f'{tag}_b{j}.nc'), os.path.join(tmp, f'{tag}_x{j}.nc')
            TrajectoryStore.active_in_thread = None
            with TrajectoryStore.create(base_file=b) as ts:
                for i in range(pos, pos + n):
                    ts.add(_mk(i, n=3 + i))          # every trajectory has its own number of points
            TrajectoryStore.active_in_thread = None
            with TrajectoryStore.open(base_file=b) as ts:
                ts.create_associated(a, ['c09_loc_extra'], Extra)
            bases.append(b)
            assocs.append(a)
            pos += n
        return bases, assocs
    try:
        bases, _ = write('p', [2, 5])
        _, assocs = write('q', [4, 3])
        mb, ma = os.path.join(tmp, 'base.aeic-store'), os.path.join(tmp, 'extra.aeic-store')
        TrajectoryStore.active_in_thread = None
        TrajectoryStore.merge(mb, bases)
        TrajectoryStore.active_in_thread = None
        TrajectoryStore.merge(ma, assocs)
        TrajectoryStore.active_in_thread = None
        with TrajectoryStore.open(base_file=mb, associated_files=[ma]) as ts:
            for i in range(7):
                try:
                    t = ts[i]
                    if float(t.starting_mass) != 1000.0 + i or float(t.c09_loc_x) != 1000.5 + i:
                        problems.append(f'merged[{i}]: base values of trajectory {int(t.starting_mass) - 1000}, associated values of trajectory {t.c09_loc_x - 1000.5:g}')
                except Exception as e:   # noqa
                    problems.append(f'merged[{i}]: {type(e).__name__}: {e}')
    except Exception as e:   # noqa
        problems.append(f'scenario failed: {type(e).__name__}: {e}')
    finally:
        TrajectoryStore.active_in_thread = None
        shutil.rmtree(tmp, ignore_errors=True)
    return dict(reproduced=bool(problems), observed=problems[:4], required='i-th trajectory = i-th input trajectory, including data in separately merged associated stores')


# ------------------------------------------------------------------------------------------------
def replay_same_name(payload):
    """a/x.nc and b/x.nc merged (explicit list), run_1/x.nc and run_2/x.nc (numbered pattern): refused untouched, or all
    trajectories of both still readable."""
    import os
    import shutil
    import tempfile
    from AEIC.trajectories import TrajectoryStore
    from contracts.C07 import _mk
    problems = []
    for how, dirs in (('list', ('a', 'b')), ('pattern', ('run_1', 'run_2'))):
        tmp = tempfile.mkdtemp(prefix='c09n-', dir=os.environ.get('VERIF_SCRATCH'))
        try:
            want = []
            for d, base in zip(dirs, (0, 100)):
                os.mkdir(os.path.join(tmp, d))
                TrajectoryStore.active_in_thread = None
                with TrajectoryStore.create(base_file=os.path.join(tmp, d, 'x.nc')) as ts:
                    for i in range(2):
                        ts.add(_mk(base + i, fid=base + i))
                        want.append(float(1000 + base + i))
            out = os.path.join(tmp, 'out.aeic-store')
            TrajectoryStore.active_in_thread = None
            try:
                if how == 'list':
                    TrajectoryStore.merge(out, [os.path.join(tmp, d, 'x.nc') for d in dirs])
                else:
                    TrajectoryStore.merge(out, input_stores_pattern=os.path.join(tmp, 'run_{index}', 'x.nc'), input_stores_index_range=(1, 2))
            except ValueError:
                for d in dirs:
                    if not os.path.exists(os.path.join(tmp, d, 'x.nc')):
                        problems.append(f'merge ({how}) refused but {d}/x.nc is gone')
                continue
            TrajectoryStore.active_in_thread = None
            try:
                with TrajectoryStore.open(base_file=out) as ms:
                    got = [float(ms[i].starting_mass) for i in range(len(ms))]
            except Exception as e:   # noqa
                got = f'{type(e).__name__}: {e}'
            if got != want:
                problems.append(f'merged {dirs[0]}/x.nc + {dirs[1]}/x.nc ({how}) reads {got}, the inputs held {want}: one input overwrote the other')
        finally:
            TrajectoryStore.active_in_thread = None
            shutil.rmtree(tmp, ignore_errors=True)
    return dict(reproduced=bool(problems), observed=problems, required='merged store = concatenation of the inputs, nothing lost')


CHILD_MERGE_OPEN = r'''
import os, sys
from AEIC.trajectories import TrajectoryStore
from contracts.C07 import _mk
d, n = sys.argv[1], int(sys.argv[2])
names, want, fid = [], [], 1000
for j in range(n):
    TrajectoryStore.active_in_thread = None
    nm = os.path.join(d, f's{j}.nc')
    with TrajectoryStore.create(base_file=nm) as ts:
        for _ in range(3):
            fid -= 7
            ts.add(_mk(len(want), fid=fid))
            want.append((float(1000 + len(want)), fid))
    names.append(nm)
out = os.path.join(d, 'out.aeic-store')
TrajectoryStore.active_in_thread = None
TrajectoryStore.merge(out, names)
print('MERGED', flush=True)
TrajectoryStore.active_in_thread = None
with TrajectoryStore.open(base_file=out) as ms:
    assert len(ms) == len(want), (len(ms), len(want))
    for i, (mass, f_id) in enumerate(want):
        assert ms[i].starting_mass == mass, i
        t = ms.get_flight(f_id)
        assert t is not None and t.starting_mass == mass, f_id
print('READ-BACK-OK', flush=True)
'''


def native_merge_then_open(n_parts=6):
    """merge() of n stores followed at once by opening the merged store, in a child process (a file moved while a store
    still holds it open ends the process inside the HDF5 library, so the scenario cannot run in the replay process)."""
    import os
    import shutil
    import subprocess
    import sys
    import tempfile
    tmp = tempfile.mkdtemp(prefix='c09h-', dir=os.environ.get('VERIF_SCRATCH'))
    try:
        p = subprocess.run([sys.executable, '-c', CHILD_MERGE_OPEN, tmp, str(n_parts)], capture_output=True, text=True, timeout=600)
        if 'READ-BACK-OK' in p.stdout and p.returncode == 0:
            return []
        stage = 'opening / reading the merged store' if 'MERGED' in p.stdout else 'merge()'
        how = f'killed by signal {-p.returncode}' if p.returncode < 0 else f'exit {p.returncode}: {p.stderr.strip().splitlines()[-1:]}'
        return [f'{n_parts} input stores merged and the merged store opened right away: the process ends during {stage} ({how})']
    finally:
        shutil.rmtree(tmp, ignore_errors=True)


def replay(payload):
    import os
    import shutil
    import tempfile
    from AEIC.trajectories import TrajectoryStore
    from contracts.C07 import _mk
    TrajectoryStore.active_in_thread = None
    tmp = tempfile.mkdtemp(prefix='c09-', dir=os.environ.get('VERIF_SCRATCH'))
    problems = []
    try:
        problems += native_merge_then_open(6)
        for names, sizes in ((['s2.nc', 's1.nc', 's3.nc'], [3, 1, 2]), (['p8.nc', 'p9.nc', 'p10.nc', 'p11.nc'], [2, 1, 3, 1])):
            d = os.path.join(tmp, 'case' + str(len(names)))
            os.mkdir(d)
            model = []
            fid = 100
            for nm, sz in zip(names, sizes):
                with TrajectoryStore.create(base_file=os.path.join(d, nm)) as ts:
                    for _ in range(sz):
                        fid -= 7
                        ts.add(_mk(len(model), fid=fid))
                        model.append((float(1000 + len(model)), fid))
            out = os.path.join(d, 'out.aeic-store')
            if names[0].startswith('p'):
                TrajectoryStore.merge(out, input_stores_pattern=os.path.join(d, 'p{index}.nc'), input_stores_index_range=(8, 11))
            else:
                TrajectoryStore.merge(out, [os.path.join(d, n) for n in names])
            with TrajectoryStore.open(base_file=out) as ms:
                if len(ms) != len(model):
                    problems.append(f'len {len(ms)} != {len(model)}')
                for i, (mass, f_id) in enumerate(model):
                    try:
                        if ms[i].starting_mass != mass:
                            problems.append(f'{names}: merged[{i}] is input trajectory {int(ms[i].starting_mass) - 1000}')
                        t = ms.get_flight(f_id)
                        if t is None or t.starting_mass != mass:
                            problems.append(f'{names}: get_flight({f_id}) wrong')
                    except Exception as e:   # noqa
                        problems.append(f'{names}: index {i}: {type(e).__name__}: {e}')
        # mixed lists (identified and unidentified stores) are refused whatever the order of the inputs
        for order in ('UI', 'IU', 'UUI', 'UIU'):
            d = os.path.join(tmp, 'mixed' + order)
            os.mkdir(d)
            names = []
            for j, kind in enumerate(order):
                TrajectoryStore.active_in_thread = None
                nm = os.path.join(d, f'm{j}.nc')
                with TrajectoryStore.create(base_file=nm) as ts:
                    ts.add(_mk(j, fid=(500 + j) if kind == 'I' else None))
                names.append(nm)
            TrajectoryStore.active_in_thread = None
            try:
                TrajectoryStore.merge(os.path.join(d, 'out.aeic-store'), names)
                problems.append(f'inputs {order} (I = identified, U = unidentified store) were merged, a mixed list must be refused')
            except ValueError:
                pass
            except Exception as e:   # noqa
                problems.append(f'inputs {order}: {type(e).__name__}: {e}')
        # inputs whose species-indexed values use different species: each part has its own species dimension
        from AEIC.storage import Dimension, Dimensions, FieldMetadata, FieldSet
        from AEIC.types import Species, SpeciesValues
        if not FieldSet.known('c09_species'):
            FieldSet('c09_species', e=FieldMetadata(dimensions=Dimensions(Dimension.TRAJECTORY, Dimension.SPECIES), description='', units=''))
        d = os.path.join(tmp, 'species')
        os.mkdir(d)
        want = []
        for nm, names, i in (('a.nc', ['CO2', 'H2O'], 1), ('b.nc', ['NOx', 'SO4'], 2), ('c.nc', ['CO2', 'NOx', 'PMvol'], 3)):
            TrajectoryStore.active_in_thread = None
            t = _mk(i)
            t.add_fields(FieldSet.from_registry('c09_species'))
            t.e = SpeciesValues({Species[n]: float(10 * i + k) for k, n in enumerate(names)})
            want.append({n: float(10 * i + k) for k, n in enumerate(names)})
            with TrajectoryStore.create(base_file=os.path.join(d, nm)) as ts:
                ts.add(t)
        TrajectoryStore.active_in_thread = None
        out = os.path.join(d, 'out.aeic-store')
        TrajectoryStore.merge(out, [os.path.join(d, n) for n in ('a.nc', 'b.nc', 'c.nc')])
        with TrajectoryStore.open(base_file=out) as ms:
            for i, w in enumerate(want):
                try:
                    got = {k.name: float(v) for k, v in ms[i].e.items()}
                except Exception as e:   # noqa
                    got = f'{type(e).__name__}: {e}'
                if got != w:
                    problems.append(f'merged[{i}] species values {got}, the input trajectory has {w}')
        return dict(reproduced=bool(problems), observed=problems[:6], required='merged store = concatenation in the given order')
    finally:
        TrajectoryStore.active_in_thread = None
        shutil.rmtree(tmp, ignore_errors=True)
