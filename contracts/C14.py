"""C14 -- mission queries return exactly the flight instances matching the filter.

Deductive part (real code executed symbolically): Filter.to_sql / _normalize / _spatial / the condition
helpers, QueryBase._common_conditions / _where_clause, Query / CountQuery / FrequentFlightQuery.to_sql,
Database.__call__: no internal error for any legal filter (the empty one included), the spatial
compatibility rule accepts exactly the documented combinations, placeholders and parameters are aligned,
the date / every-n-th / sampling / limit conditions are the documented ones, and a query object is a value
(building its SQL twice gives equal results, an earlier result is not mutated; every execution gets its own
cursor).  Relational meaning ('exactly the matching instances, ordered, limited, counted') depends on
SQLite's evaluation of the generated SQL: bounded stand-in on the shipped test database against a Python
evaluation of the same predicate.
"""
from __future__ import annotations

import z3

from pyvc.source import Unsupported
from pyvc.values import Builtin, FStr, Model, Obj, PyExc, to_z3
from pyvc.verify import unit

LEVEL = 'other'
EXPLANATION = ('SQL construction proved structurally (alignment, accepted combinations, value semantics, documented '
               'conditions); the meaning of the SQL is checked on the shipped database by a bounded stand-in.')
F = 'AEIC.missions.filter'
Q = 'AEIC.missions.query'
SP_KINDS = ['airport', 'country', 'continent', 'bounding_box']
SIMPLE = ['min_distance', 'max_distance', 'min_seat_capacity', 'max_seat_capacity', 'service_type', 'aircraft_type']


def make_filter(h, spatial_bits, simple_bits, as_str=False):
    kw = {}
    i = 0
    for kind in SP_KINDS:
        for pref in ('', 'origin_', 'destination_'):
            if spatial_bits >> i & 1:
                if kind == 'bounding_box':
                    kw[pref + kind] = h.construct(F + ':BoundingBox', min_longitude=h.real(f'bb{i}_lo'), max_longitude=h.real(f'bb{i}_hi'),
                                                  min_latitude=h.real(f'bb{i}_la'), max_latitude=h.real(f'bb{i}_lb'))
                else:
                    kw[pref + kind] = (f'{kind[:2].upper()}{i}' if (as_str and i % 2 == 0) else [f'{kind[:2].upper()}{i}a', f'{kind[:2].upper()}{i}b'][: 1 + i % 2])
            i += 1
    for j, nm in enumerate(SIMPLE):
        if simple_bits >> j & 1:
            if nm.endswith('_type'):
                kw[nm] = ['T1', 'T2'][: 1 + j % 2] if not as_str else 'T1'
            else:
                kw[nm] = h.int('v_' + nm)
    return h.construct(F + ':Filter', **kw), kw


def count_q(sql):
    if isinstance(sql, FStr):
        return sum(str(p).count('?') for p in sql.parts if isinstance(p, str))
    return sql.count('?')


def spatial_ok(bits):
    combined = sum(1 for k in range(4) if bits >> (3 * k) & 1)
    origin = sum(1 for k in range(4) if bits >> (3 * k + 1) & 1)
    dest = sum(1 for k in range(4) if bits >> (3 * k + 2) & 1)
    return (combined == 1 and origin == 0 and dest == 0) or (combined == 0 and origin <= 1 and dest <= 1)


def check_filter_sql(h, flt, kw, bits, tag=''):
    try:
        sql, params = h.method(flt, 'to_sql', table='f')
    except PyExc as e:
        if h.exc_is(e, 'ValueError') and 'spatial' in e.inst.message_text():
            h.ensure('spatial-rule-refuses-only-undocumented-combinations', not spatial_ok(bits), note=f'bits={bits:012b}')
        else:
            h.fail('no-internal-error', f'{e.inst!r} at {e.inst.where} for filter {sorted(kw)}')
        return None
    h.ensure('spatial-rule-accepts-exactly-the-documented-combinations', spatial_ok(bits), note=f'bits={bits:012b}')
    h.ensure('placeholders-match-parameters', isinstance(params, list) and count_q(sql) == len(params),
             note=f'{count_q(sql)} placeholders, {len(params) if isinstance(params, list) else params!r} parameters; filter {sorted(kw)}')
    # parameters in the order of their conditions: each given value appears, list values expanded
    flat = []
    for nm in SIMPLE[:4]:
        if nm in kw:
            flat.append(kw[nm])
    h.ensure('range-parameters-first-in-order', params[: len(flat)] == flat if all(not z3.is_expr(x) for x in flat) else
             all(z3.is_expr(a) and z3.eq(a, b) for a, b in zip(params[: len(flat)], flat)))
    return sql, params


@unit('C14', 'filter.spatial-combinations', [F + ':Filter.to_sql', F + ':Filter._normalize', F + ':Filter._spatial', F + ':Filter._airport_condition',
                                             F + ':Filter._country_condition', F + ':Filter._continent_condition',
                                             F + ':Filter._bounding_box_condition'], replay='contracts.C14:replay', max_paths=10000)
def spatial_unit(h):
    bits = 0
    for i in range(12):
        if h.choice(2) == 1:
            bits |= 1 << i
    simple_bits = (bits * 37 + 5) % 64
    flt, kw = make_filter(h, bits, simple_bits, as_str=(bits % 3 == 0))
    r = check_filter_sql(h, flt, kw, bits)
    if r is None:
        return
    sql, params = r
    snapshot = list(params)
    try:
        sql2, params2 = h.method(flt, 'to_sql', table='f')
    except PyExc as e:
        h.fail('building-the-sql-twice-gives-the-same-answer', repr(e.inst))
        return
    h.ensure('building-the-sql-twice-gives-the-same-answer', str(sql2) == str(sql) and len(params2) == len(snapshot))
    h.ensure('earlier-result-not-mutated', len(params) == len(snapshot))


@unit('C14', 'filter.simple-combinations', [F + ':Filter.to_sql'], replay='contracts.C14:replay')
def simple_unit(h):
    sb = 0
    for j in range(6):
        if h.choice(2) == 1:
            sb |= 1 << j
    spatial = [0, 1, 1 << 4 | 1 << 8][sb % 3]
    flt, kw = make_filter(h, spatial, sb, as_str=(sb % 2 == 1))
    if sb == 0 and spatial == 0:
        h.ctx.named['empty_filter'] = z3.BoolVal(True)
    r = check_filter_sql(h, flt, kw, spatial)
    if r is not None and not kw:
        sql, params = r
        h.ensure('empty-filter-selects-everything', (sql == '' or sql is None) and params == [])


class DateM(Model):
    type_names = ('datetime.date',)

    def __init__(self, days):
        self.days = days

    def py_binop(self, I, op, other, reflected):
        if op == 'Sub' and isinstance(other, DateM):
            a, b = (other, self) if reflected else (self, other)
            return TdM(to_z3(a.days) - to_z3(b.days))
        if op == 'Add' and isinstance(other, TdM):
            return DateM(to_z3(self.days) + to_z3(other.d))
        return NotImplemented


class TdM(Model):
    def __init__(self, d):
        self.d = d

    def py_getattr(self, I, name):
        if name == 'days':
            return self.d
        raise Unsupported('timedelta.' + name)


class TsM(Model):
    """pandas.Timestamp at UTC midnight of a date (+ whole days)."""

    def __init__(self, days):
        self.days = days

    def py_binop(self, I, op, other, reflected):
        if op == 'Add' and isinstance(other, TdM):
            return TsM(to_z3(self.days) + to_z3(other.d))
        return NotImplemented

    def py_getattr(self, I, name):
        if name == 'timestamp':
            return Builtin('timestamp', lambda: to_z3(self.days) * 86400)
        raise Unsupported('Timestamp.' + name)


def install_time_models(h):
    I = h.I
    h.trust('datetime.date / timedelta arithmetic in whole days; pd.Timestamp(date, tzinfo=UTC).timestamp() = 86400 x days since 1970-01-01')
    I.models['datetime.date'] = lambda I_, y, m, d: DateM(__import__('datetime').date(y, m, d).toordinal() - 719163)
    I.models['datetime.timedelta'] = lambda I_, days=0, **k: TdM(days)
    I.models['pandas.Timestamp'] = lambda I_, d, tzinfo=None, **k: TsM(d.days)


@unit('C14', 'query.to_sql', [Q + ':Query.to_sql', Q + ':QueryBase._common_conditions', Q + ':QueryBase._where_clause', Q + ':date_to_timestamp',
                              Q + ':QueryBase.__post_init__'], replay='contracts.C14:replay', max_paths=20000)
def query_unit(h):
    install_time_models(h)
    I = h.I
    opt = lambda name, mk: (mk(name) if h.choice(2) == 1 else None)    # noqa
    sample = opt('sample', h.real)
    nth = opt('every_nth', h.int)
    limit = opt('limit', h.int)
    offset = opt('offset', h.int)
    sd = opt('start_day', h.int)
    ed = opt('end_day', h.int)
    with_filter = h.choice(2) == 1
    flt = None
    if with_filter:
        flt, _ = make_filter(h, 1 << 3, 0b000011)
    q = h.construct(Q + ':Query', filter=flt, start_date=(DateM(sd) if sd is not None else None), end_date=(DateM(ed) if ed is not None else None),
                    every_nth=nth, sample=sample, limit=limit, offset=offset)
    legal = z3.And(*(([z3.And(sample > 0, sample <= 1)] if sample is not None else []) + ([nth >= 1] if nth is not None else []) +
                     ([limit >= 1] if limit is not None else []) + ([offset >= 0] if offset is not None else []) +
                     ([z3.BoolVal(limit is not None)] if offset is not None else [])))
    try:
        sql, params = h.method(q, 'to_sql')
    except PyExc as e:
        if h.exc_is(e, 'ValueError'):
            h.ensure('refuses-only-illegal-parameters', z3.Not(legal), note=repr(e.inst))
        else:
            h.fail('no-internal-error', f'{e.inst!r} at {e.inst.where}')
        return
    h.ensure('illegal-parameters-are-refused', legal)
    text = ''.join(str(p) for p in (sql.parts if isinstance(sql, FStr) else [sql]) if isinstance(p, str))
    h.ensure('placeholders-match-parameters', count_q(sql) == len(params), note=f'{count_q(sql)} vs {len(params)}')
    # documented conditions
    ok = True
    pi = 2 + 8 if with_filter else 0      # filter contributes its own parameters first
    if with_filter:
        pi = count_q(text.split('s.departure_timestamp')[0]) if 's.departure_timestamp' in text.split(' ORDER BY')[0].split(' WHERE ')[-1] else None
    where = text.split('f.destination = ad.id WHERE ', 1)[1].split(' ORDER BY')[0] if 'f.destination = ad.id WHERE ' in text else ''
    conds = where.split(' AND ') if where else []
    expect = []
    if sd is not None:
        expect.append(('s.departure_timestamp >= ?', [sd * 86400]))
    if ed is not None:
        expect.append(('s.departure_timestamp < ?', [(ed + 1) * 86400]))          # end date inclusive: before midnight of the next day
    if sample is not None:
        expect.append(('(random() + 9223372036854775808) / 18446744073709551615.0 < ?', [sample]))
    if nth is not None:
        if sd is None:
            expect.append(('(s.day - (SELECT MIN(day) FROM schedules)) % ? = 0', [nth]))
        else:
            expect.append(('(s.day - ?) % ? = 0', [sd, nth]))
    tail_conds = conds[len(conds) - len([e for e in expect if not (e[0].startswith('(s.day') and False)]):]
    # every-n-th with n == 1 adds no condition
    if nth is not None:
        if h.ctx.branch(nth == 1):
            expect = [e for e in expect if not e[0].startswith('(s.day')]
    got_conds = conds[len(conds) - len(expect):] if expect else []
    h.ensure('date-sampling-and-every-nth-conditions-are-the-documented-ones', got_conds == [e[0] for e in expect],
             note=f'got {got_conds}, expected {[e[0] for e in expect]}')
    want_params = [p for e in expect for p in e[1]]
    got_params = params[len(params) - len(want_params):] if want_params else []
    h.ensure('their-parameters-are-the-documented-values',
             z3.And(*[to_z3(a) == to_z3(b) for a, b in zip(got_params, want_params)]) if want_params else True)
    h.ensure('ordered-by-departure-time', ' ORDER BY s.departure_timestamp' in text)
    if limit is not None:
        lim_ok = any(z3.is_expr(p) and z3.eq(p, limit) for p in (sql.parts if isinstance(sql, FStr) else [])) and ' LIMIT ' in text
        h.ensure('limit-and-offset-applied', lim_ok and ((offset is None) == (' OFFSET ' not in text)))
    else:
        h.ensure('limit-and-offset-applied', ' LIMIT ' not in text and ' OFFSET ' not in text)
    # value semantics
    snap = list(params)
    try:
        sql2, params2 = h.method(q, 'to_sql')
    except PyExc as e:
        h.fail('building-the-sql-twice-gives-the-same-answer', repr(e.inst))
        return
    same_sql = ''.join(str(p) for p in (sql2.parts if isinstance(sql2, FStr) else [sql2])) == ''.join(str(p) for p in (sql.parts if isinstance(sql, FStr) else [sql]))
    h.ensure('building-the-sql-twice-gives-the-same-answer', same_sql and len(params2) == len(snap),
             note=f'second call: {len(params2)} parameters, first call: {len(snap)}')
    h.ensure('earlier-result-not-mutated', len(params) == len(snap), note=f'first result grew from {len(snap)} to {len(params)} parameters')


@unit('C14', 'count-and-frequent-queries', [Q + ':CountQuery.to_sql', Q + ':FrequentFlightQuery.to_sql'], replay='contracts.C14:replay')
def other_queries(h):
    install_time_models(h)
    which = h.choice(2)
    sd = h.int('start_day') if h.choice(2) == 1 else None
    flt = make_filter(h, 1, 0b1)[0] if h.choice(2) == 1 else None
    if which == 0:
        q = h.construct(Q + ':CountQuery', filter=flt, start_date=(DateM(sd) if sd is not None else None))
    else:
        lim = h.int('limit')
        q = h.construct(Q + ':FrequentFlightQuery', filter=flt, start_date=(DateM(sd) if sd is not None else None), limit=lim)
    try:
        sql, params = h.method(q, 'to_sql')
    except PyExc as e:
        if which == 1 and h.exc_is(e, 'ValueError'):
            h.ensure('refuses-only-illegal-parameters', lim < 1)
        else:
            h.fail('no-internal-error', f'{e.inst!r} at {e.inst.where}')
        return
    text = ''.join(str(p) for p in (sql.parts if isinstance(sql, FStr) else [sql]) if isinstance(p, str))
    h.ensure('placeholders-match-parameters', count_q(sql) == len(params))
    if which == 0:
        h.ensure('counts-schedule-instances', text.startswith('SELECT COUNT(s.id) FROM schedules s'))
    else:
        h.ensure('pairs-by-direction-independent-key-in-descending-count', 'GROUP BY od_pair' in text and 'ORDER BY nflights DESC' in text)
    snap = list(params)
    sql2, params2 = h.method(q, 'to_sql')
    h.ensure('building-the-sql-twice-gives-the-same-answer', len(params2) == len(snap) and str(sql2) == str(sql))
    h.ensure('earlier-result-not-mutated', len(params) == len(snap))


class Cursor(Model):
    n = 0

    def __init__(self):
        Cursor.n += 1
        self.cid = Cursor.n
        self.executed = []

    def py_getattr(self, I, name):
        if name == 'execute':
            def ex(sql, params=()):
                self.executed.append(sql)
                return RowStream(self)
            return Builtin('execute', ex, pure=False)
        raise Unsupported('cursor.' + name)


class RowStream(Model):
    def __init__(self, cur):
        self.cur = cur

    def py_iter(self, I):
        return []


class Conn(Model):
    def __init__(self):
        self.cursors = []

    def py_getattr(self, I, name):
        if name == 'cursor':
            def c():
                cur = Cursor()
                self.cursors.append(cur)
                return cur
            return Builtin('cursor', c, pure=False)
        raise Unsupported('connection.' + name)


@unit('C14', 'database.call-uses-its-own-cursor', ['AEIC.missions.database:Database.__call__'], replay='contracts.C14:replay')
def db_call(h):
    """Result streams of different executions must not share a cursor (sqlite3: executing on a cursor discards
    its pending rows), otherwise running a query again changes what an earlier, partly consumed execution yields."""
    conn = Conn()
    db = h.new('AEIC.missions.database:Database', _partial=True, _conn=conn)
    h.trust('sqlite3: a cursor holds one result stream; execute() on it discards pending rows')
    used = []

    class QStub(Model):
        def py_getattr(self, I, name):
            if name == 'to_sql':
                return Builtin('to_sql', lambda: ('SELECT 1', []))
            if name == 'PROCESS_RESULT':
                return None
            if name == 'RESULT_TYPE':
                return None
            raise Unsupported('query.' + name)

    def yield_results(I_, fi, a, k):
        used.append(a[0])
        return 'stream'
    h.summary('AEIC.missions.database:Database._yield_results', yield_results)
    h.method(db, '__call__', QStub())
    h.method(db, '__call__', QStub())
    h.ensure('every-execution-has-its-own-cursor', len(used) == 2 and used[0] is not used[1] and isinstance(used[0], Cursor))


# ------------------------------------------------------------------------------------------------
def bounded_checks(tier, seed):
    from pyvc.cli import run_native
    r = run_native('contracts.C14', 'native_db_check', dict(seed=seed, n=(40 if tier == 'quick' else 400)))
    viol = [dict(obligation='bounded/' + v['what'], witness=v.get('witness'), input=v.get('input'), observed=v.get('observed'),
                 replay_fn='contracts.C14:native_db_check') for v in r.get('violations', [])]
    return [dict(name='queries on the shipped test database against a Python evaluation of the predicate', cases=r.get('cases', 0),
                 distinct_nontrivial=r.get('cases', 0), bound=f"{r.get('cases', 0)} queries on tests/data/missions/oag-2019-test-subset.sqlite",
                 rule='every day boundary as end/start date, distance/seat ranges, airport/country filters, every-n-th, limit/offset, '
                      f'count and frequent-route queries, interleaved executions; random ones from seed {seed}', violations=viol,
                 error=r.get('error'))]


def native_db_check(payload):
    import datetime as dt
    import os
    import random
    import sqlite3
    root = os.environ.get('AEIC_SRC', '/repo/src').rsplit('/src', 1)[0]
    from AEIC.missions import CountQuery, Database, Filter, FrequentFlightQuery, Query
    path = root + '/tests/data/missions/oag-2019-test-subset.sqlite'
    con = sqlite3.connect(path)
    rows = con.execute('SELECT s.id, s.departure_timestamp, s.day, f.distance, f.seat_capacity, ao.iata_code, ad.iata_code, ao.country, ad.country, '
                       'f.service_type, f.aircraft_type FROM schedules s JOIN flights f ON f.id = s.flight_id JOIN airports ao ON f.origin = ao.id '
                       'JOIN airports ad ON f.destination = ad.id').fetchall()
    con.close()
    rnd = random.Random((payload or {}).get('seed', 0))
    viol, cases = [], 0
    epoch = dt.date(1970, 1, 1)

    def oracle(pred):
        return [r[0] for r in sorted((r for r in rows if pred(r)), key=lambda r: (r[1]))]

    def day_ts(d):
        return (d - epoch).days * 86400
    days = sorted({dt.date.fromtimestamp(0) + dt.timedelta(days=r[2]) if False else epoch + dt.timedelta(days=r[2]) for r in rows})
    with Database(path) as db:
        def run(q):
            return [x.id for x in db(q)]

        def check(what, q, pred, post=lambda ids: ids, ordered=True):
            nonlocal cases
            cases += 1
            try:
                got = run(q)
            except Exception as e:   # noqa
                viol.append(dict(what=what, input=str(q), observed=f'{type(e).__name__}: {e}'))
                return
            want = post(oracle(pred))
            ts = {r[0]: r[1] for r in rows}
            if sorted(got) != sorted(want) or [ts[i] for i in got] != sorted(ts[i] for i in got):
                viol.append(dict(what=what, input=str(q), observed=f'{len(got)} instances, expected {len(want)}'))
        check('no conditions selects everything', Query(Filter()), lambda r: True)
        check('no filter selects everything', Query(), lambda r: True)
        boundary_days = [d for d in days if any(r[1] % 86400 == 0 and epoch + dt.timedelta(days=r[1] // 86400) in (d, d + dt.timedelta(days=1)) for r in rows)]
        sample_days = boundary_days + rnd.sample(days, min(len(days), (payload or {}).get('n', 40) // 4))
        for d in sample_days:
            check('end date inclusive', Query(end_date=d), lambda r, d=d: r[1] < day_ts(d) + 86400)
            check('start date inclusive', Query(start_date=d), lambda r, d=d: r[1] >= day_ts(d))
            cases += 1
            if db(CountQuery(end_date=d)) + db(CountQuery(start_date=d + dt.timedelta(days=1))) != len(rows):
                viol.append(dict(what='end date / next start date partition the database', input=str(d)))
        for _ in range((payload or {}).get('n', 40) // 4):
            lo, hi = sorted(rnd.sample(range(0, 9000), 2))
            check('distance range', Query(Filter(min_distance=lo, max_distance=hi)), lambda r: lo <= r[3] <= hi)
            ap = rnd.choice(rows)[5]
            check('airport either end', Query(Filter(airport=ap)), lambda r: r[5] == ap or r[6] == ap)
            cc = rnd.choice(rows)[7]
            check('origin country', Query(Filter(origin_country=cc)), lambda r: r[7] == cc)
            n = rnd.choice([2, 3, 7])
            d0 = rnd.choice(days)
            check('every n-th day', Query(start_date=d0, every_nth=n), lambda r: r[1] >= day_ts(d0) and (r[2] - (d0 - epoch).days) % n == 0)
            # conditions combined (each alone looks fine): a sampling fraction of 1 keeps every instance the other conditions select
            minday = min(r[2] for r in rows)
            check('every n-th day counted from the first day of the database', Query(every_nth=n), lambda r: (r[2] - minday) % n == 0)
            check('every n-th day with a sampling fraction of 1', Query(every_nth=n, sample=1.0), lambda r: (r[2] - minday) % n == 0)
            check('every n-th day from a start date with a sampling fraction of 1', Query(start_date=d0, every_nth=n, sample=1.0),
                  lambda r: r[1] >= day_ts(d0) and (r[2] - (d0 - epoch).days) % n == 0)
            d1 = d0 + dt.timedelta(days=rnd.randint(0, 40))
            check('filter, both dates, every n-th day and a sampling fraction of 1 together',
                  Query(Filter(min_distance=lo, max_distance=hi), start_date=d0, end_date=d1, every_nth=n, sample=1.0),
                  lambda r: lo <= r[3] <= hi and day_ts(d0) <= r[1] < day_ts(d1) + 86400 and (r[2] - (d0 - epoch).days) % n == 0)
            lim, off = rnd.randint(1, 30), rnd.randint(0, 30)
            cases += 1
            got = run(Query(Filter(min_distance=lo), limit=lim, offset=off))
            want = oracle(lambda r: r[3] >= lo)
            ts = {r[0]: r[1] for r in rows}
            if [ts[i] for i in got] != [ts[i] for i in want][off: off + lim]:
                viol.append(dict(what='limit / offset in departure order', input=f'min_distance={lo} limit={lim} offset={off}'))
            cases += 1
            if db(CountQuery(Filter(min_distance=lo))) != len(want):
                viol.append(dict(what='count query', input=f'min_distance={lo}'))
        # a query object is a value: run it again / interleave executions
        q = Query(Filter(country='IT'))
        a = run(q)
        b = run(q)
        cases += 1
        if a != b:
            viol.append(dict(what='running a query object again gives the same answer', observed=f'{len(a)} then {len(b)}'))
        g1 = db(Query(Filter(airport=rows[0][5])))
        first = next(g1).id
        _ = db(CountQuery())
        g2 = db(Query(Filter(country='IT')))
        _ = next(g2, None)
        rest = [first] + [x.id for x in g1]
        cases += 1
        if rest != run(Query(Filter(airport=rows[0][5]))):
            viol.append(dict(what='a partly consumed execution is not disturbed by other executions',
                             observed=f'{len(rest)} instances after interleaving'))
        ff = list(db(FrequentFlightQuery(limit=5)))
        cases += 1
        from collections import Counter
        cnt = Counter(tuple(sorted((r[5], r[6]))) for r in rows)
        want_counts = sorted(cnt.values(), reverse=True)[:5]
        if [x.number_of_flights for x in ff] != want_counts:
            viol.append(dict(what='frequent routes: true direction-independent counts, descending', observed=[x.number_of_flights for x in ff],
                             input=want_counts))
    return dict(cases=cases, violations=viol[:5], reproduced=bool(viol))


def replay(payload):
    """Native: the structural clauses on the real classes (empty filter, value semantics) plus the database stand-in."""
    from AEIC.missions import CountQuery, Filter, Query
    problems = []
    try:
        sql, params = Filter().to_sql()
        if sql not in ('', None) or params != []:
            problems.append(f'empty filter gives {sql!r} {params!r}')
    except Exception as e:   # noqa
        problems.append(f'Filter().to_sql() raised {type(e).__name__}: {e}')
    import datetime as dt
    for q in (Query(Filter(min_distance=10), sample=0.5, start_date=dt.date(2019, 1, 2)), CountQuery(Filter(country='US'))):
        try:
            s1, p1 = q.to_sql()
            snap = list(p1)
            s2, p2 = q.to_sql()
            if s1 != s2 or list(p2) != snap or list(p1) != snap:
                problems.append(f'{type(q).__name__}: second to_sql() differs: {len(snap)} -> {len(p2)} parameters; first result now has {len(p1)}')
        except Exception as e:   # noqa
            problems.append(f'{type(q).__name__}.to_sql() raised {type(e).__name__}: {e}')
    r = native_db_check(dict(seed=1, n=24))
    problems += [f"{v['what']}: {v.get('input')} -> {v.get('observed')}" for v in r.get('violations', [])]
    return dict(reproduced=bool(problems), observed=problems[:6])
