"""C05 -- gridded pieces land in the cells the path actually crosses.

Deductive part (real code): the antimeridian indicator; the two parts of a crossing path (which points, which
altitudes / times / state values the synthetic crossing point gets: those of the crossing segment's start point);
start-point altitude and time cells; cell coordinates gathered from the grid axes by the core's indices; all output
arrays of one common length.  Bounded part: the geometric core against an exact piece-wise oracle."""
from __future__ import annotations

import z3

from contracts import gridunits as gu
from contracts.C04 import crossing_latitude
from contracts.gridunits import G
from pyvc.models.arrays import SArr
from pyvc.values import PyExc, to_real, to_z3
from pyvc.verify import unit

LEVEL = 'other'
EXPLANATION = ('Antimeridian detection, the construction of the two parts of a crossing path, start-point altitude / time cells, the gathering of '
               'cell coordinates and the common length of all outputs are proved on the real code for paths of any length; which cells a segment '
               'crosses and the length shares are checked against an exact oracle on bounded families of grids and paths.')
Z = z3.IntSort()


@unit('C05', 'crosses-dateline', [G + ':crosses_dateline'])
def crosses_unit(h):
    """Element-wise over a path of any length: a longitude jump of more than pi between consecutive points is a
    crossing (+1 westwards, -1 eastwards), anything else is not."""
    gu.install(h)
    PI = gu.pi(h)
    n = h.int('n_points')
    h.assume(n >= 2)
    lons = SArr.symbolic(h.ctx, 'lon', n)
    I = h.I
    r = h.call(G + ':crosses_dateline', I.getitem(lons, slice(None, -1)), I.getitem(lons, slice(1, None)))
    h.ensure('one-indicator-per-segment', to_z3(I.len_(r)) == n - 1)
    j = h.int('any_segment')
    h.assume(z3.And(j >= 0, j < n - 1))
    d = to_real(lons.at(j + 1)) - to_real(lons.at(j))
    h.ensure('a-longitude-jump-of-more-than-pi-is-a-crossing-with-its-direction',
             to_real(r.at(j)) == z3.If(d > PI, 1, z3.If(d < -PI, -1, 0)))


def parts(h, with_alt, with_time):
    gu.install(h)
    n, lats, lons, alts, times, state, integ = gu.make_path(h, with_alt, with_time, 1, 0)
    dc, k, s = gu.one_crossing(h, n)
    g, *_ = gu.make_gridder(h, with_alt, with_time)
    l1, l2 = h.real('first_part_length'), h.real('second_part_length')
    h.assume(z3.And(l1 >= 0, l2 >= 0, l1 + l2 > 0))
    a = h.method(g, '_dateline_split_first_segment', lats, lons, alts, times, state, (), k, s, l1, l1 + l2)
    b = h.method(g, '_dateline_split_second_segment', lats, lons, alts, times, state, (), k, s, l2, l1 + l2)
    return n, lats, lons, alts, times, state, k, s, a, b


@unit('C05', 'antimeridian.parts', [G + ':Gridder._dateline_split_first_segment', G + ':Gridder._dateline_split_second_segment'],
      replay='contracts.C05:replay_crossing')
def parts_unit(h):
    """First part: points 0..k then the crossing point on +-pi; second part: the crossing point on -+pi then points
    k+1..n-1.  The crossing point lies on the segment's straight map line and carries the altitude, time and state
    values of the segment's start point (the pieces of one segment share its start point's cells)."""
    wa, wt = [(False, False), (True, False), (True, True)][h.choice(3)]
    n, lats, lons, alts, times, state, k, s, a, b = parts(h, wa, wt)
    PI = gu.pi(h)
    latc, edge = crossing_latitude(lats, lons, k, s, PI)
    I = h.I
    for nm, arr, i_ in (('lats', a[0], 0), ('lons', a[1], 1)):
        h.ensure('first-part-has-k-plus-2-points', to_z3(I.len_(arr)) == k + 2, note=nm)
    for nm, arr in (('lats', b[0]), ('lons', b[1])):
        h.ensure('second-part-has-n-minus-k-points', to_z3(I.len_(arr)) == n - k, note=nm)
    j = h.int('any_point')
    h.assume(z3.And(j >= 0, j < n))
    h.ensure('points-before-the-crossing-open-the-first-part',
             z3.Implies(j <= k, z3.And(to_real(a[0].at(j)) == to_real(lats.at(j)), to_real(a[1].at(j)) == to_real(lons.at(j)))))
    h.ensure('points-after-the-crossing-close-the-second-part',
             z3.Implies(j > k, z3.And(to_real(b[0].at(j - k)) == to_real(lats.at(j)), to_real(b[1].at(j - k)) == to_real(lons.at(j)))))
    h.ensure('crossing-point-is-on-the-antimeridian-on-the-side-of-each-part', z3.And(to_real(a[1].at(k + 1)) == edge, to_real(b[1].at(0)) == -edge))
    h.ensure('crossing-point-lies-on-the-segments-map-line', z3.And(to_real(a[0].at(k + 1)) == latc, to_real(b[0].at(0)) == latc))
    sv1, sv2 = a[4][0], b[4][0]
    h.ensure('state-of-the-crossing-point-is-the-start-points', z3.And(to_real(sv1.at(k + 1)) == to_real(state[0].at(k)), to_real(sv2.at(0)) == to_real(state[0].at(k)),
                                                                      z3.Implies(j <= k, to_real(sv1.at(j)) == to_real(state[0].at(j))),
                                                                      z3.Implies(j > k, to_real(sv2.at(j - k)) == to_real(state[0].at(j)))))
    if wa:
        h.ensure('altitude-of-the-crossing-point-is-the-start-points', z3.And(to_real(a[2].at(k + 1)) == to_real(alts.at(k)), to_real(b[2].at(0)) == to_real(alts.at(k)),
                                                                             z3.Implies(j <= k, to_real(a[2].at(j)) == to_real(alts.at(j))),
                                                                             z3.Implies(j > k, to_real(b[2].at(j - k)) == to_real(alts.at(j)))))
    else:
        h.ensure('no-altitudes-without-an-altitude-coordinate', a[2] is None and b[2] is None)
    if wt:
        h.ensure('time-of-the-crossing-point-is-the-start-points', z3.And(to_real(a[3].at(k + 1)) == to_real(times.at(k)), to_real(b[3].at(0)) == to_real(times.at(k)),
                                                                         z3.Implies(j <= k, to_real(a[3].at(j)) == to_real(times.at(j))),
                                                                         z3.Implies(j > k, to_real(b[3].at(j - k)) == to_real(times.at(j)))))
    else:
        h.ensure('no-times-without-a-time-coordinate', a[3] is None and b[3] is None)


def gathered(h, out, recs, glat, glon, galt, gtim, wa, wt):
    """out = grid_trajectory's result for the concatenation of the core results recs."""
    I = h.I
    m = sum((r['m'] for r in recs[1:]), recs[0]['m'])
    q = h.int('any_piece')
    h.assume(z3.And(q >= 0, q < m))
    lens = [to_z3(I.len_(out[0])) == m, to_z3(I.len_(out[1])) == m, to_z3(I.len_(out[4][0])) == m]
    if wa:
        lens.append(to_z3(I.len_(out[2])) == m)
    if wt:
        lens.append(to_z3(I.len_(out[3])) == m)
    h.ensure('all-output-arrays-have-one-entry-per-piece', z3.And(*lens))

    def pick(field, grid=None):
        # value of piece q: from the first core result if q < m1 else from the second
        off = z3.IntVal(0)
        expr = None
        for r in reversed(recs):
            pass
        conds = []
        start = z3.IntVal(0)
        res = None
        for r in recs:
            arr = r[field] if not isinstance(field, tuple) else r[field[0]][field[1]]
            v = arr.at(q - start)
            if grid is not None:
                v = grid.at(to_z3(v))
            conds.append((z3.And(q >= start, q < start + r['m']), v))
            start = start + r['m']
        res = to_real(conds[-1][1])
        for c, v in reversed(conds[:-1]):
            res = z3.If(c, to_real(v), res)
        return res
    for r in recs:
        # the core's indices are cell indices of the grid (its contract): no wrap-around
        for f, gr in (('lat_i', glat), ('lon_i', glon)):
            pass
    h.ctx.assume(z3.BoolVal(True))
    nonneg = []
    start = z3.IntVal(0)
    for r in recs:
        for f in ('lat_i', 'lon_i') + (('alt_i',) if wa else ()) + (('tim_i',) if wt else ()):
            nonneg.append(z3.Implies(z3.And(q >= start, q < start + r['m']), to_z3(r[f].at(q - start)) >= 0))
        start = start + r['m']
    h.assume(z3.And(*nonneg), 'the core reports non-negative cell indices (points inside the grid, not on its lowest lines)')
    h.ensure('cell-coordinates-are-the-grid-lines-of-the-reported-cells-in-path-order',
             z3.And(to_real(out[0].at(q)) == pick('lat_i', glat), to_real(out[1].at(q)) == pick('lon_i', glon)))
    h.ensure('state-values-in-path-order', to_real(out[4][0].at(q)) == pick(('sv', 0)))
    if wa:
        h.ensure('altitude-cells-in-path-order', to_real(out[2].at(q)) == pick('alt_i', galt))
    else:
        h.ensure('no-altitude-cells-without-an-altitude-coordinate', out[2] is None)
    if wt:
        h.ensure('time-cells-in-path-order', to_real(out[3].at(q)) == pick('tim_i', gtim))
    else:
        h.ensure('no-time-cells-without-a-time-coordinate', out[3] is None)


@unit('C05', 'outputs.no-crossing', [G + ':Gridder._grid_trajectory_without_dateline_crossing'], replay='contracts.C05:replay_all')
def plain_unit(h):
    gu.install(h)
    wa, wt = [(False, False), (True, False), (True, True), (False, True)][h.choice(4)]
    n, lats, lons, alts, times, state, integ = gu.make_path(h, wa, wt, 1, 1)
    g, glat, glon, galt, gtim = gu.make_gridder(h, wa, wt)
    core = gu.Core(h)
    out = h.method(g, '_grid_trajectory_without_dateline_crossing', lats, lons, alts, times, state, integ)
    c = core.calls[0]
    ok = len(core.calls) == 1 and c['lats'] is lats and c['lons'] is lons and c['altitudes'] is alts and c['times'] is times
    h.ensure('core-is-given-the-path-as-it-is', bool(ok))
    gathered(h, out, core.calls, glat, glon, galt, gtim, wa, wt)


@unit('C05', 'outputs.one-crossing', [G + ':Gridder._grid_trajectory_with_dateline_crossing', G + ':Gridder._cell_idxs_and_variables_for_dateline_split_trajectory'],
      replay='contracts.C05:replay_crossing')
def crossing_unit(h):
    gu.install(h)
    wa, wt = [(False, False), (True, False), (True, True)][h.choice(3)]
    n, lats, lons, alts, times, state, integ = gu.make_path(h, wa, wt, 1, 1)
    dc, k, s = gu.one_crossing(h, n)
    g, glat, glon, galt, gtim = gu.make_gridder(h, wa, wt)
    core = gu.Core(h)
    try:
        out = h.method(g, '_grid_trajectory_with_dateline_crossing', dc, lats, lons, alts, times, state, integ)
    except PyExc as e:
        h.fail('a-path-with-one-crossing-is-gridded', f'{e.inst!r} at {e.inst.where}')
        return
    if len(core.calls) != 2:
        h.fail('core-grids-the-two-parts', f'{len(core.calls)} core calls')
        return
    gathered(h, out, core.calls, glat, glon, galt, gtim, wa, wt)


SS = z3.Function('searchsorted_left', z3.RealSort(), Z)


@unit('C05', 'segment-altitude-and-time-cells', [G + ':Gridder._trajectory_segment_altitude_grid_indices', G + ':Gridder._trajectory_segment_time_grid_indices',
                                                  G + ':_cell_indices'], replay='contracts.C05:replay_outer')
def vertical_unit(h):
    """Each segment's altitude / time cell is the cell that contains its start point: for a start value inside the axis
    (first edge <= value <= last edge, the edges included) the reported index c is one of the axis' cells (0 <= c <= number of
    edges - 2) and edge c <= value <= edge c + 1.  Stated from the property, not from the index arithmetic; np.searchsorted is
    used by its contract."""
    gu.install(h)
    h.trust('np.searchsorted(a, v) (side left) on an increasing array a of m entries returns for each v a position p with 0 <= p <= m, '
            'a[p - 1] < v if p > 0, and v <= a[p] if p < m')
    n = h.int('n_points')
    h.assume(n >= 2)
    which = h.choice(2)
    g, glat, glon, galt, gtim = gu.make_gridder(h, True, True)
    axis = [galt, gtim][which]
    m = to_z3(h.I.len_(axis))
    h.assume(m >= 2, 'an axis has at least one cell (two edges)')
    h.assume(to_real(axis.at(0)) < to_real(axis.at(1)), 'axis edges increase (instance: the first two)')
    vals = SArr.symbolic(h.ctx, 'value', n)
    seen = []

    def searchsorted(I_, a, v, **kw):
        seen.append(a)

        def pos(k):
            vk = to_real(v.at(k))
            p = SS(vk)
            I_.ctx.axiom(z3.And(p >= 0, p <= m, z3.Implies(p > 0, to_real(a.at(p - 1)) < vk), z3.Implies(p < m, vk <= to_real(a.at(p)))))
            return p
        return SArr(I_.len_(v), pos)
    h.I.models['numpy.searchsorted'] = searchsorted
    r = h.method(g, ['_trajectory_segment_altitude_grid_indices', '_trajectory_segment_time_grid_indices'][which], vals)
    h.ensure('one-cell-per-segment', to_z3(h.I.len_(r)) == n - 1)
    j = h.int('any_segment')
    h.assume(z3.And(j >= 0, j < n - 1))
    v = to_real(vals.at(j))
    h.ctx.named['start_value'], h.ctx.named['first_edge'], h.ctx.named['second_edge'] = v, to_real(axis.at(0)), to_real(axis.at(1))
    h.assume(z3.And(to_real(axis.at(0)) <= v, v <= to_real(axis.at(m - 1))), 'the start point lies within the axis (edges included)')
    c = to_z3(r.at(j))
    h.ensure('the-reported-cell-is-a-cell-of-the-axis', z3.And(c >= 0, c <= m - 2))
    h.ensure('the-reported-cell-contains-the-start-point', z3.And(to_real(axis.at(c)) <= v, v <= to_real(axis.at(c + 1))))
    h.ensure('looked-up-on-the-right-axis', len(seen) == 1 and seen[0] is axis)


def replay_outer(payload):
    from contracts.gridcheck import run_families
    r = run_families(dict(tier='quick', only='outer-lines'))
    return dict(reproduced=bool(r['c05']), observed=r['c05'][:4], cases=r['cases'])


@unit('C05', 'line-parameters', [G + ':calculate_line_parameters'], replay='contracts.C05:replay_line')
def line_unit(h):
    """calculate_line_parameters on a path of any length: each segment's line through its two end points -- slope dy/dx and
    intercept y - slope * x whenever the two abscissae differ at all (however little), the infinite-slope marker only when
    they are equal."""
    gu.install(h)
    I = h.I
    inf = h.real('infinite_slope_marker')
    I.models['const:numpy.inf'] = lambda I_: inf
    n = h.int('n_points')
    h.assume(n >= 2)
    x, y = SArr.symbolic(h.ctx, 'x', n), SArr.symbolic(h.ctx, 'y', n)
    r = h.call(G + ':calculate_line_parameters', x, y)
    slopes, intercepts = r[0], r[1]
    h.ensure('one-line-per-segment', z3.And(to_z3(I.len_(slopes)) == n - 1, to_z3(I.len_(intercepts)) == n - 1))
    j = h.int('any_segment')
    h.assume(z3.And(j >= 0, j < n - 1))
    x0, x1, y0, y1 = (to_real(v) for v in (x.at(j), x.at(j + 1), y.at(j), y.at(j + 1)))
    for nm, v in (('x0', x0), ('x1', x1), ('y0', y0), ('y1', y1)):
        h.ctx.named[nm] = v
    sl, ic = to_real(slopes.at(j)), to_real(intercepts.at(j))
    h.ensure('slope-is-dy-over-dx-whenever-the-abscissae-differ', z3.Implies(x1 != x0, sl * (x1 - x0) == y1 - y0))
    h.ensure('infinite-slope-marker-only-for-equal-abscissae', z3.Implies(x1 == x0, sl == inf))
    h.ensure('the-line-passes-through-the-segments-start-point', z3.Implies(x1 != x0, ic == y0 - sl * x0))


def replay_line(payload):
    from contracts.gridcheck import _import_grid
    np = _import_grid()[0]
    from AEIC.gridding.grid import calculate_line_parameters
    m = (payload or {}).get('model', {}) or {}
    cases = []
    try:
        cases.append(tuple(float(m[k]) for k in ('x0', 'x1', 'y0', 'y1')))
    except (KeyError, TypeError, ValueError):
        pass
    for dx in (1e-9, -1e-9, 1e-8, 1e-12, 3e-7, 0.0, 1e-3):
        for x0 in (0.0, 0.3, -1.2):
            cases.append((x0, x0 + dx, 0.5, 0.5 + 2e-3))
    problems = []
    for x0, x1, y0, y1 in cases:
        sl, ic = calculate_line_parameters(np.array([x0, x1]), np.array([y0, y1]))
        if x1 != x0:
            want = (y1 - y0) / (x1 - x0)
            if not np.isfinite(sl[0]) or abs(sl[0] - want) > 1e-9 * abs(want):
                problems.append(f'segment ({x0!r},{y0!r})->({x1!r},{y1!r}): slope {sl[0]!r}, expected {want!r}')
        elif not np.isinf(sl[0]):
            problems.append(f'equal abscissae {x0!r}: slope {sl[0]!r}, expected inf')
    return dict(reproduced=bool(problems), observed=problems[:4], required='slope dy/dx unless dx == 0')


def replay_crossing(payload):
    from contracts.gridcheck import run_families
    r = run_families(dict(tier='quick', only='crossing'))
    return dict(reproduced=bool(r['c05']), observed=r['c05'][:4], cases=r['cases'])


def replay_all(payload):
    from contracts.gridcheck import run_families
    r = run_families(dict(tier='quick'))
    return dict(reproduced=bool(r['c05']), observed=r['c05'][:4], cases=r['cases'])


def native_check(payload):
    from contracts.gridcheck import run_families
    r = run_families(payload)
    r['reproduced'] = bool(r['c05'])
    r['observed'] = r['c05'][:4]
    return r


def bounded_checks(tier, seed):
    from pyvc.cli import run_native
    r = run_native('contracts.C05', 'native_check', dict(tier=tier, seed=seed), timeout=3000)
    viol = [dict(obligation='bounded/piece-lies-in-its-cell-with-its-length-share', input=m, observed=m, replay_fn='contracts.C05:native_check') for m in (r.get('c05') or [])[:4]]
    return [dict(name='real Gridder.grid_trajectory against the exact piece-wise oracle: cells in path order, length shares, start-point state / altitude / time, equal lengths',
                 cases=r.get('cases', 0), distinct_nontrivial=r.get('cases', 0), bound=r.get('bound', ''), rule=r.get('rule', ''), violations=viol, error=r.get('error'))]
