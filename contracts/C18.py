"""C18 -- exactly one immutable configuration is active, and a failed load leaves none.

Reference machine: _config in {None, Some c}.  Every public operation (load / get / reset /
proxy read / proxy write) is given a contract over that state and proved from an arbitrary state,
so every history of operations is covered by induction on the history.
"""
from __future__ import annotations

import z3

from pyvc.models import pydantic_
from pyvc.models.fs import GhostFS, PathVal
from pyvc.source import Unsupported
from pyvc.values import Builtin, Model, Obj, PyExc
from pyvc.verify import unit

LEVEL = 'proof'
EXPLANATION = ('Three-state reference machine contracts for Config.load/get/reset and ConfigProxy, proved from an '
               'arbitrary prior state (induction over histories); every failure point of a load (validation error, '
               'each file-system lookup) is a path whose exceptional postcondition demands _config = None.')
CORE = 'AEIC.config.core'
FUNCS = [f'{CORE}:Config.load', f'{CORE}:Config.normalize_search_paths', f'{CORE}:Config.resolve_paths',
         f'{CORE}:Config._normalize_path', f'{CORE}:Config.file_location', f'{CORE}:Config.data_file_location',
         f'{CORE}:Config.get', f'{CORE}:Config.reset', f'{CORE}:ConfigProxy.__getattr__',
         f'{CORE}:ConfigProxy.__setattr__', f'{CORE}:deep_update']


class FileObj(Model):
    def __init__(self, path):
        self.path = path

    def py_enter(self, I):
        return self

    def py_exit(self, I, exc):
        return False


class AsFile(Model):
    def __init__(self, p):
        self.p = p

    def py_enter(self, I):
        return self.p

    def py_exit(self, I, exc):
        return False


def install_world(h, defaults, filedata, exists_oracle):
    """Library models used by Config.load: open/tomllib, os.environ, importlib.resources, Path.exists."""
    I = h.I
    pydantic_.install(I)
    fs = GhostFS()
    fs.oracle = exists_oracle
    I.hooks['fs'] = fs
    h.trust('pydantic: model_validate = field validation, then mode="after" validators in definition order, abort on first '
            'exception; frozen=True => attribute assignment raises; object.__setattr__ bypasses the freeze')
    h.trust('tomllib.load returns the file content as nested dicts; Path.exists/is_absolute over a ghost file system in which '
            'every lookup may succeed or fail')

    def _open(I_, p, mode='r', **k):
        key = p._key() if isinstance(p, PathVal) else str(p)
        if 'default_config.toml' not in key and filedata is MISSING_FILE:
            I_.raise_('FileNotFoundError', f'No such file: {key}')
        return FileObj(key)
    I.models['builtins.open'] = _open

    def _toml_load(I_, fp):
        if 'default_config.toml' in fp.path:
            return _copy(defaults)
        if filedata is BAD_TOML:
            I_.raise_('ValueError', 'TOMLDecodeError')
        return _copy(filedata)
    I.models['tomllib.load'] = _toml_load
    env = h.choice(2)
    I.models['os.environ.get'] = lambda I_, k, d=None: ('' if env == 0 else '/env/a:/env/b')
    I.models['const:os.pathsep'] = ':'
    I.models['importlib.resources.files'] = lambda I_, pkg: PathVal('/site-packages/' + pkg)
    I.models['importlib.resources.as_file'] = lambda I_, p: AsFile(p)
    return fs


MISSING_FILE = object()
BAD_TOML = object()


def _copy(d):
    return {k: (_copy(v) if isinstance(v, dict) else v) for k, v in d.items()} if isinstance(d, dict) else d


def set_state(h, some: bool):
    """_config on entry: None, or an already active configuration object."""
    I = h.I
    mod = I.get_module(CORE)
    I.module_get(mod, 'Config')
    g = I.module_globals(mod)
    if some:
        cfg = h.new(f'{CORE}:Config', path=[], data_path_overrides=[], performance_model=PathVal('/old/pm'),
                    engine_file=PathVal('/old/edb'), weather=None, emissions=None)
        g['_config'] = cfg
        return cfg
    g['_config'] = None
    return None


def get_state(h):
    return h.I.module_globals(h.I.get_module(CORE))['_config']


def leaf(h, name):
    return h.int('leaf_' + name)


def sample_defaults(h):
    return {'performance_model': 'performance/sample.toml', 'engine_file': 'engines/edb.xlsx',
            'weather': {'use_weather': leaf(h, 'd_use_weather'), 'weather_data_dir': 'weather'},
            'emissions': {'fuel': leaf(h, 'd_fuel'), 'co2_enabled': leaf(h, 'd_co2')}}


# ------------------------------------------------------------------------------------------------
@unit('C18', 'load.state-machine', FUNCS, replay='contracts.C18:replay_load')
def load_state_machine(h):
    some = h.choice(2) == 1
    ex = {}

    def oracle(kind, p):
        # every file-system lookup may succeed or fail: one fresh Boolean per (kind, path)
        if kind == 'is_dir':
            return False
        key = (kind, p)
        if key not in ex:
            ex[key] = h.bool(f'fs_{kind}_{len(ex)}')
        return ex[key]
    fk = h.choice(3)
    filedata = [None, {'weather': {'use_weather': leaf(h, 'f_use_weather')}}, MISSING_FILE][fk]
    install_world(h, sample_defaults(h), filedata if filedata is not None else {}, oracle)
    invalid = h.bool('validation_rejects')
    h.I.hooks['pydantic_invalid'] = lambda I_, cls, data: cls.name == 'Config' and I_.ctx.branch(invalid)
    old = set_state(h, some)
    h.ctx.named['state_some'] = z3.BoolVal(some)
    h.ctx.named['config_file_kind'] = z3.IntVal(fk)
    Config = h.cls(f'{CORE}:Config')
    args = [] if fk == 0 else [PathVal('/user/config.toml')]
    try:
        r = h.I.call(h.I.getattr(Config, 'load'), args, {})
    except PyExc as e:
        if some:
            # refused: an active configuration stays exactly as it was
            h.ensure('load-while-active-leaves-state', get_state(h) is old, note=repr(e.inst))
            if get_state(h) is old:
                h.ensure('active-config-values-unchanged',
                         all(old.attrs[k] is v or old.attrs[k] == v for k, v in
                             dict(path=[], data_path_overrides=[]).items()) and
                         old.attrs['performance_model']._key() == '/old/pm', note=repr(e.inst))
        else:
            h.ensure('failed-load-leaves-unconfigured', get_state(h) is None,
                     note=f'{e.inst!r} raised at {e.inst.where}; _config afterwards = {get_state(h)!r}')
        return
    if some:
        h.fail('load-while-active-is-refused', 'load returned although a configuration was active')
        return
    h.ensure('successful-load-activates-result', get_state(h) is r and isinstance(r, Obj))
    h.ensure('successful-load-had-valid-input', z3.Not(invalid))


@unit('C18', 'load.effective-values', FUNCS, replay='contracts.C18:replay_overlay')
def load_effective_values(h):
    """defaults < file < kwargs at every nesting level (schema-consistent inputs): what reaches
    validation is the leaf-wise overlay."""
    L = lambda n: leaf(h, n)    # noqa
    # one key per presence class (d=defaults, f=file, k=kwargs) at top level and inside a section
    d = {'performance_model': 'pm', 'engine_file': 'ef', 'k_d': L('d1'), 'k_df': L('d2'), 'k_dk': L('d3'), 'k_dfk': L('d4'),
         'weather': {'s_d': L('d5'), 's_df': L('d6'), 's_dk': L('d7'), 's_dfk': L('d8')},
         'emissions': {'e_d': L('d9')}}
    f = {'k_df': L('f2'), 'k_dfk': L('f4'), 'k_f': L('f0'), 'k_fk': L('f1'),
         'weather': {'s_df': L('f6'), 's_dfk': L('f8'), 's_f': L('f5'), 's_fk': L('f7')}}
    k = {'k_dk': L('k3'), 'k_dfk': L('k4'), 'k_fk': L('k1'), 'k_k': L('k0'),
         'weather': {'s_dk': L('k7'), 's_dfk': L('k8'), 's_fk': L('k5'), 's_k': L('k6')},
         'emissions': {'e_k': L('k9')}}
    use_file = h.choice(2) == 1
    install_world(h, d, f if use_file else {}, lambda kind, p: True)
    set_state(h, False)
    seen = {}
    Config = h.cls(f'{CORE}:Config')

    def capture(I_, cls):
        def mv(data, **kw):
            seen['data'] = data
            return None
        return Builtin('model_validate', mv, pure=False)
    h.I.models['classattr:pydantic.BaseModel.model_validate'] = capture
    args = [PathVal('/user/config.toml')] if use_file else []
    h.I.call(h.I.getattr(Config, 'load'), args, dict(_copy(k)))
    want = spec_overlay(d, f if use_file else {}, k)
    got = seen.get('data')
    ok, why = same_tree(h, want, got)
    if ok is False:
        h.fail('effective-values-are-defaults-file-kwargs-overlay', why)
    else:
        h.ensure('effective-values-are-defaults-file-kwargs-overlay', ok, note=why)
    # ... on every load: a later load of the same (unchanged) file and defaults without those keyword arguments gets the
    # file's and the defaults' values again - nothing of an earlier load's arguments may survive in anything that is reused
    set_state(h, False)
    seen.clear()
    h.I.call(h.I.getattr(Config, 'load'), args, {})
    want2 = spec_overlay(d, f if use_file else {}, {})
    ok2, why2 = same_tree(h, want2, seen.get('data'))
    if ok2 is False:
        h.fail('a-later-load-does-not-see-an-earlier-loads-keyword-arguments', why2)
    else:
        h.ensure('a-later-load-does-not-see-an-earlier-loads-keyword-arguments', ok2, note=why2)


def spec_overlay(d, f, k):
    """Independent specification: leaf-wise priority kwargs > file > defaults, sections recursive."""
    out = {}
    for key in list(d) + [x for x in f if x not in d] + [x for x in k if x not in d and x not in f]:
        vals = [t[key] for t in (d, f, k) if key in t]
        if all(isinstance(v, dict) for v in vals):
            out[key] = spec_overlay(*[(t.get(key) or {}) for t in (d, f, k)])
        else:
            out[key] = vals[-1]
    return out


def same_tree(h, want, got, path=''):
    if not isinstance(got, dict):
        return False, f'{path}: not a dict: {got!r}'
    if set(want) != set(got):
        return False, f'{path}: keys {sorted(got)} instead of {sorted(want)}'
    conj = []
    for key in want:
        if isinstance(want[key], dict):
            ok, why = same_tree(h, want[key], got[key], path + '/' + key)
            if ok is False:
                return ok, why
            if ok is not True:
                conj.append(ok)
        elif isinstance(want[key], str):
            if got[key] != want[key]:
                return False, f'{path}/{key}: {got[key]!r} instead of {want[key]!r}'
        else:
            if isinstance(got[key], (dict, str)):
                return False, f'{path}/{key}: {got[key]!r} instead of a leaf'
            conj.append(want[key] == got[key])
    return (z3.And(*conj) if conj else True), f'{path}: leaf values'


@unit('C18', 'deep_update.contract', [f'{CORE}:deep_update'], replay='contracts.C18:replay_overlay')
def deep_update_contract(h):
    """One level with one key per class; the recursive call is used by contract (induction on depth)."""
    L = lambda n: leaf(h, n)    # noqa
    sub_b, sub_o = {'x': L('sb')}, {'y': L('so')}
    # settings are matched without regard to case when validated (CIBaseModel): the overlay must win over a base entry
    # spelled with another capitalisation, and a section spelled differently is still merged, not replaced
    sub_c, sub_d = {'p': L('sc')}, {'q': L('sd')}
    merged_marker = {'merged': True}
    # an overlay value of None is a value like any other (e.g. weather_data_dir = None: "the current directory")
    base = {'only_base': L('b0'), 'leaf_leaf': L('b1'), 'dict_dict': sub_b, 'dict_leaf': {'z': L('b2')}, 'leaf_dict': L('b3'),
            'leaf_none': L('b4'), 'dict_none': {'v': L('b5')}, 'case_leaf': L('b6'), 'Case_Dict': sub_c}
    over = {'only_over': L('o0'), 'leaf_leaf': L('o1'), 'dict_dict': sub_o, 'dict_leaf': L('o2'), 'leaf_dict': {'w': L('o3')},
            'leaf_none': None, 'dict_none': None, 'only_over_none': None, 'Case_LEAF': L('o6'), 'case_dict': sub_d}
    fi = h.func(f'{CORE}:deep_update')
    calls = []
    h.trust('deep_update treats keys uniformly (only `in`, subscripting and assignment): one key per presence/type class '
            'represents all keys of that class; operations on distinct keys are independent')

    def rec(I_, fi_, a, k):
        calls.append((a[0], a[1]))
        a[0].clear()
        a[0].update(merged_marker)
        return a[0]
    base0 = dict(base)
    r = h.call(f'{CORE}:deep_update', base, over) if False else None
    # first call executes the body; recursive calls go through the contract (induction hypothesis)
    h.I.summaries[fi.fq] = rec
    h.I.no_summary.discard(fi.fq)
    first = [True]

    def once(I_, fi_, a, k):
        if first[0]:
            first[0] = False
            return I_.call_function(fi_, a, k, force_body=True)
        return rec(I_, fi_, a, k)
    h.I.summaries[fi.fq] = once
    r = h.I.call_function(fi, [base, over], {})
    h.ensure('returns-the-mutated-base', r is base)
    h.ensure('keys-are-the-union', set(k.lower() for k in base) == set(k.lower() for k in base0) | set(k.lower() for k in over))
    h.ensure('one-entry-per-setting-whatever-its-capitalisation', len(set(k.lower() for k in base)) == len(base))
    h.ensure('base-only-keys-kept', base['only_base'] == base0['only_base'])
    h.ensure('overlay-only-keys-added', base['only_over'] == over['only_over'])
    h.ensure('overlay-leaf-wins', base['leaf_leaf'] == over['leaf_leaf'])
    h.ensure('overlay-leaf-replaces-section', (not isinstance(base['dict_leaf'], dict)) and base['dict_leaf'] == over['dict_leaf'])
    h.ensure('overlay-section-replaces-leaf', base['leaf_dict'] is over['leaf_dict'])
    h.ensure('overlay-none-is-a-value-like-any-other',
             all(k in base and base[k] is None for k in ('leaf_none', 'dict_none', 'only_over_none')))
    by_lower = {k.lower(): v for k, v in base.items()}
    h.ensure('overlay-wins-over-an-entry-spelled-with-another-capitalisation', all(v is over['Case_LEAF'] for k, v in base.items() if k.lower() == 'case_leaf'))
    h.ensure('nested-sections-merged-recursively',
             len(calls) == 2 and calls[0][0] is sub_b and calls[0][1] is sub_o and base['dict_dict'] is sub_b and
             calls[1][0] is sub_c and calls[1][1] is sub_d and by_lower.get('case_dict') is sub_c,
             note=f'{len(calls)} recursive calls')


@unit('C18', 'get-reset-proxy.state-machine', FUNCS)
def get_reset_proxy(h):
    some = h.choice(2) == 1
    pydantic_.install(h.I)
    old = set_state(h, some)
    if old is not None:
        old.attrs['performance_model'] = PathVal('/old/pm')
    op = h.choice(4)
    Config = h.cls(f'{CORE}:Config')
    proxy = h.I.module_get(h.I.get_module(CORE), 'config')
    if op == 0:     # Config.get()
        try:
            r = h.I.call(h.I.getattr(Config, 'get'), [], {})
        except PyExc as e:
            h.ensure('get-refused-only-when-unconfigured', (not some) and h.exc_is(e, 'ValueError'))
            h.ensure('get-leaves-state', get_state(h) is old)
            return
        h.ensure('get-returns-the-active-config', some and r is old and get_state(h) is old)
    elif op == 1:   # proxy read
        try:
            r = h.I.getattr(proxy, 'performance_model')
        except PyExc as e:
            h.ensure('read-before-load-is-refused', (not some) and h.exc_is(e, 'ValueError'))
            h.ensure('read-leaves-state', get_state(h) is old)
            return
        h.ensure('proxy-read-returns-active-value', some and r is old.attrs['performance_model'])
    elif op == 2:   # proxy write
        try:
            h.I.setattr(proxy, 'performance_model', PathVal('/new/pm'))
        except PyExc as e:
            h.ensure('write-is-refused', True)
            h.ensure('write-leaves-state', get_state(h) is old and
                     (old is None or old.attrs['performance_model']._key() == '/old/pm'))
            return
        h.fail('write-is-refused', 'assignment through the proxy succeeded')
    else:           # reset
        h.I.call(h.I.getattr(Config, 'reset'), [], {})
        h.ensure('reset-unconfigures', get_state(h) is None)


@unit('C18', 'frozen-classes', [f'{CORE}:Config', 'AEIC.config.emissions:EmissionsConfig', 'AEIC.config.weather:WeatherConfig'])
def frozen_classes(h):
    pydantic_.install(h.I)
    for fq in (f'{CORE}:Config', 'AEIC.config.emissions:EmissionsConfig', 'AEIC.config.weather:WeatherConfig'):
        c = h.cls(fq)
        h.ensure('model-config-frozen:' + c.name, pydantic_.is_model_class(c) and pydantic_.frozen(c))
        o = Obj(c)
        o.attrs['x'] = 1
        try:
            h.I.setattr(o, 'x', 2)
            h.fail('assignment-raises:' + c.name, 'attribute assignment on a configuration object succeeded')
        except PyExc:
            h.ensure('assignment-raises:' + c.name, o.attrs['x'] == 1)


CONFIG_CLASSES = (f'{CORE}:Config', 'AEIC.config.emissions:EmissionsConfig', 'AEIC.config.weather:WeatherConfig')


@unit('C18', 'frozen-classes.no-value-can-be-edited-in-place', list(CONFIG_CLASSES) + ['AEIC.config.emissions:EmissionsConfig.enabled_species'],
      replay='contracts.C18:replay_in_place')
def no_mutable_containers(h):
    """'Its values (at every nesting level) cannot be changed': assignment is refused by the frozen classes (unit above); what
    remains is editing a value in place.  Every declared field of the three configuration classes is of a type without
    in-place operations (no list / set / dict), and the derived enabled_species set is handed out as a frozenset."""
    import ast
    h.trust('the clause about declared field types is decided by a scan of the class bodies (annotation heads list / set / dict / ...), not by the solver')
    mutable = []
    for fq in CONFIG_CLASSES:
        mod, cname = fq.split(':')
        tree = h.repo.module(mod).tree
        cdef = next(n for n in ast.walk(tree) if isinstance(n, ast.ClassDef) and n.name == cname)
        for st in cdef.body:
            if isinstance(st, ast.AnnAssign) and isinstance(st.target, ast.Name):
                ann = ast.unparse(st.annotation).replace(' ', '')
                heads = [a.split('[')[0].split('.')[-1] for a in ann.replace('Optional[', '').split('|')]
                if any(hd in ('list', 'set', 'dict', 'List', 'Set', 'Dict', 'bytearray', 'deque', 'defaultdict') for hd in heads):
                    mutable.append(f'{cname}.{st.target.id}: {ann}')
    h.ensure('no-field-holds-a-container-that-can-be-edited-in-place', not mutable, note='; '.join(mutable))
    from contracts import emis
    ec = emis.setup_config(h, fixed=dict(climb_descent_mode='TRAJECTORY', co2_enabled=True, h2o_enabled=True, sox_enabled=True, nox_method='BFFM2',
                                         hc_method='BFFM2', co_method='BFFM2', pmvol_method='FUEL_FLOW', pmnvol_method='MEEM', apu_enabled=True,
                                         gse_enabled=True, lifecycle_enabled=True))
    r = h.I.getattr(ec, 'enabled_species')
    h.ensure('derived-species-set-is-handed-out-immutable', isinstance(r, frozenset) and len(r) > 0, note=f'{type(r).__name__}')


def replay_in_place(payload):
    import os
    root = os.environ.get('AEIC_SRC', '/repo/src').rsplit('/src', 1)[0]
    os.environ['AEIC_PATH'] = root + '/tests/data'
    from AEIC.config import Config, config
    Config.reset()
    problems = []
    try:
        Config.load(data_path_overrides=[root + '/tests/data'])
        for what, edit in (('config.path.append(...)', lambda: config.path.append('/elsewhere')),
                           ('config.data_path_overrides.clear()', lambda: config.data_path_overrides.clear()),
                           ('config.emissions.enabled_species.clear()', lambda: config.emissions.enabled_species.clear())):
            try:
                edit()
                problems.append(f'{what} is accepted: the active configuration was changed in place')
            except (AttributeError, TypeError):
                pass
        return dict(reproduced=bool(problems), observed=problems, required='values of the active configuration cannot be changed at any nesting level')
    finally:
        Config.reset()


# ------------------------------------------------------------------------------------------------
def replay_load(payload):
    """Native: a failing load (missing performance-model file, or an invalid value) followed by a
    valid load; or a refused load followed by a read."""
    import os
    root = os.environ.get('AEIC_SRC', '/repo/src').rsplit('/src', 1)[0]
    os.environ['AEIC_PATH'] = root + '/tests/data'
    from AEIC.config import Config
    m = payload.get('model', {})
    clause = payload.get('clause')
    Config.reset()
    out = dict(clause=clause)
    try:
        if clause == 'failed-load-leaves-unconfigured':
            errs = []
            # one failing load per lookup resolve_paths makes (the counter-model's fs_* Booleans say which lookup failed; all are tried)
            for bad in (dict(performance_model='does/not/exist.toml'), dict(engine_file='does/not/exist.xlsx'),
                        dict(weather=dict(weather_data_dir='does/not/exist-dir')),
                        dict(weather=dict(use_weather=True, weather_data_dir='does/not/exist-dir')),
                        dict(emissions=dict(nox_method='no-such-method'))):
                Config.reset()
                try:
                    Config.load(data_path_overrides=[root + '/tests/data'], **bad)
                    errs.append('load unexpectedly succeeded')
                    continue
                except Exception as e:   # noqa
                    first = type(e).__name__
                try:
                    Config.load(data_path_overrides=[root + '/tests/data'])
                    errs.append(None)
                except Exception as e:   # noqa
                    errs.append(f'after a load failing with {first}: second, valid load raised {type(e).__name__}: {e}')
            bad = [e for e in errs if e]
            return dict(reproduced=bool(bad), observed=bad, required='a failed load leaves the system unconfigured')
        if clause in ('load-while-active-leaves-state', 'active-config-values-unchanged', 'load-while-active-is-refused'):
            a = Config.load(data_path_overrides=[root + '/tests/data'])
            before = (a.weather.use_weather, str(a.performance_model))
            try:
                Config.load(data_path_overrides=[root + '/tests/data'], weather=dict(use_weather=not a.weather.use_weather))
                return dict(reproduced=True, observed='second load while active succeeded')
            except Exception:   # noqa
                pass
            cur = Config.get()
            after = (cur.weather.use_weather, str(cur.performance_model))
            bad = cur is not a or before != after
            return dict(reproduced=bad, observed=dict(same_object=cur is a, before=before, after=after))
        return dict(reproduced=False, error='no native scenario for clause ' + str(clause))
    finally:
        Config.reset()


def replay_overlay(payload):
    import os
    import tempfile
    root = os.environ.get('AEIC_SRC', '/repo/src').rsplit('/src', 1)[0]
    os.environ['AEIC_PATH'] = root + '/tests/data'
    from AEIC.config import Config
    Config.reset()
    fd, fn = tempfile.mkstemp(suffix='.toml', dir=os.environ.get('VERIF_SCRATCH'))
    try:
        os.write(fd, b'[emissions]\nsox_enabled = false\ngse_enabled = false\n[weather]\nuse_weather = false\n')
        os.close(fd)
        c = Config.load(fn, data_path_overrides=[root + '/tests/data'], emissions=dict(apu_enabled=False))
        obs = dict(sox_enabled=c.emissions.sox_enabled, gse_enabled=c.emissions.gse_enabled,
                   apu_enabled=c.emissions.apu_enabled, use_weather=c.weather.use_weather, co2_enabled=c.emissions.co2_enabled)
        want = dict(sox_enabled=False, gse_enabled=False, apu_enabled=False, use_weather=False, co2_enabled=True)
        Config.reset()
        # a keyword argument of None overlays a value given by the file
        with open(fn, 'ab') as f:
            f.write(b'weather_data_dir = "/somewhere/weather"\n')
        try:
            c = Config.load(fn, data_path_overrides=[root + '/tests/data'], weather=dict(weather_data_dir=None))
            obs['weather_data_dir'] = None if c.weather.weather_data_dir is None else str(c.weather.weather_data_dir)
        except Exception as e:   # noqa
            obs['weather_data_dir'] = f'load failed: {type(e).__name__}: {e}'
        want['weather_data_dir'] = None
        Config.reset()
        # the file spells a setting with another capitalisation than the keyword argument
        with open(fn, 'wb') as f:
            f.write(b'[emissions]\nNOx_method = "none"\n')
        try:
            c = Config.load(fn, data_path_overrides=[root + '/tests/data'], emissions=dict(nox_method='p3t3'))
            obs['nox_method'] = str(getattr(c.emissions.nox_method, 'value', c.emissions.nox_method))
        except Exception as e:   # noqa
            obs['nox_method'] = f'load failed: {type(e).__name__}: {e}'
        want['nox_method'] = 'p3t3'
        Config.reset()
        # the same unchanged file loaded twice: the second load must not see the first load's keyword arguments
        try:
            Config.load(fn, data_path_overrides=[root + '/tests/data'], emissions=dict(sox_enabled=False, gse_enabled=False))
            Config.reset()
            c = Config.load(fn, data_path_overrides=[root + '/tests/data'])
            obs['second_load_of_the_same_file'] = dict(sox_enabled=c.emissions.sox_enabled, gse_enabled=c.emissions.gse_enabled,
                                                       nox_method=str(getattr(c.emissions.nox_method, 'value', c.emissions.nox_method)))
        except Exception as e:   # noqa
            obs['second_load_of_the_same_file'] = f'load failed: {type(e).__name__}: {e}'
        want['second_load_of_the_same_file'] = dict(sox_enabled=True, gse_enabled=True, nox_method='none')
        return dict(reproduced=obs != want, observed=obs, required=want)
    finally:
        Config.reset()
        os.unlink(fn)
