"""Symbolic set-up shared by C04 and C05: the wrappers around the geometric core of trajectory gridding
(antimeridian split, value split, concatenation of the two parts) on the real code, with the core
(_cell_idxs_touched_by_trajectory_with_state_and_integrated_vars) and the great-circle distance by contract."""
from __future__ import annotations

import z3

from pyvc.models.arrays import SArr
from pyvc.source import Unsupported
from pyvc.values import Builtin, Model, Obj, PyExc, to_real, to_z3

G = 'AEIC.gridding.grid'
R, Z = z3.RealSort(), z3.IntSort()
GCD = z3.Function('great_circle_distance', R, R, R, R, R)      # (lat1, lon1, lat2, lon2), radians


def install(h):
    """numpy pieces used by the wrappers; great_circle_distance by contract (non-negative)."""
    I = h.I
    h.trust('great_circle_distance(lat1, lon1, lat2, lon2) = the WGS-84 geodesic distance (pyproj), non-negative')
    h.trust('numpy: concatenate joins arrays end to end; a[idx_array] gathers; np.where(mask)[0][0] is the first index where mask holds; '
            'np.count_nonzero counts')

    def gcd(I_, fi, a, k):
        args = [to_real(x) for x in a]
        v = GCD(*args)
        I_.ctx.assume(v >= 0)
        return v
    h.summary(G + ':great_circle_distance', gcd)

    def concatenate(I_, parts, **kw):
        parts = list(parts)
        out = None
        for p in parts:
            if isinstance(p, list):
                p = SArr.from_list(p)
            if not isinstance(p, SArr):
                raise Unsupported('np.concatenate of ' + type(p).__name__)
            out = p.snapshot() if out is None else out.concat(p.snapshot())
        return out.as_kind('ndarray')
    I.models['numpy.concatenate'] = concatenate
    I.models['shapely.geometry.Polygon'] = lambda I_, *a, **k: (_ for _ in ()).throw(Unsupported('shapely'))


class Core:
    """Contract of the geometric core, as checked by the bounded stand-in: for an n-point path it returns index
    arrays of one common length m (altitude / time index arrays of length m when those coordinates are given, else
    empty), one state array and one integrated array of length m per variable."""

    def __init__(self, h):
        self.h, self.calls = h, []
        h.summary(G + ':Gridder._cell_idxs_touched_by_trajectory_with_state_and_integrated_vars', self.call)

    def call(self, I, fi, a, k):
        h = self.h
        names = ['self', 'lats', 'lons', 'altitudes', 'times', 'state_variables', 'integrated_variables']
        kw = dict(zip(names, a))
        kw.update(k)
        n = len(self.calls)
        m = h.int(f'core{n}_pieces')
        h.ctx.assume(m >= 0)
        lat_i = SArr.symbolic(h.ctx, f'core{n}_lat_idx', m, sort=Z)
        lon_i = SArr.symbolic(h.ctx, f'core{n}_lon_idx', m, sort=Z)
        alt_i = SArr.symbolic(h.ctx, f'core{n}_alt_idx', m, sort=Z) if kw.get('altitudes') is not None else SArr.from_list([])
        tim_i = SArr.symbolic(h.ctx, f'core{n}_time_idx', m, sort=Z) if kw.get('times') is not None else SArr.from_list([])
        sv = tuple(SArr.symbolic(h.ctx, f'core{n}_state{j}', m) for j, _ in enumerate(kw.get('state_variables') or ()))
        iv = tuple(SArr.symbolic(h.ctx, f'core{n}_integrated{j}', m) for j, _ in enumerate(kw.get('integrated_variables') or ()))
        rec = dict(kw, m=m, lat_i=lat_i, lon_i=lon_i, alt_i=alt_i, tim_i=tim_i, sv=sv, iv=iv)
        self.calls.append(rec)
        return (lat_i, lon_i, alt_i, tim_i, sv, iv)


def make_gridder(h, with_alt, with_time):
    nlat, nlon = h.int('n_grid_lat'), h.int('n_grid_lon')
    h.ctx.assume(z3.And(nlat >= 2, nlon >= 2))
    glat = SArr.symbolic(h.ctx, 'grid_lat', nlat)
    glon = SArr.symbolic(h.ctx, 'grid_lon', nlon)
    galt = SArr.symbolic(h.ctx, 'grid_alt', h.int('n_grid_alt')) if with_alt else None
    gtim = SArr.symbolic(h.ctx, 'grid_time', h.int('n_grid_time')) if with_time else None
    g = h.new(G + ':Gridder', grid_latitudes=glat, grid_longitudes=glon, grid_altitudes=galt, grid_times=gtim)
    return g, glat, glon, galt, gtim


def make_path(h, with_alt, with_time, n_state, n_integ):
    n = h.int('n_points')
    h.assume(n >= 2, 'a path has at least two points')
    lats, lons = SArr.symbolic(h.ctx, 'lat', n), SArr.symbolic(h.ctx, 'lon', n)
    alts = SArr.symbolic(h.ctx, 'altitude', n) if with_alt else None
    times = SArr.symbolic(h.ctx, 'time', n) if with_time else None
    state = tuple(SArr.symbolic(h.ctx, f'state{j}', n) for j in range(n_state))
    integ = tuple(SArr.symbolic(h.ctx, f'integrated{j}', n - 1) for j in range(n_integ))
    return n, lats, lons, alts, times, state, integ


def one_crossing(h, n):
    """The crossing indicator of a path that crosses the antimeridian exactly once, at segment k, in direction s."""
    I = h.I
    k = h.int('crossing_segment')
    h.assume(z3.And(k >= 0, k < n - 1), 'exactly one segment crosses the antimeridian')
    s = [-1, 1][h.choice(2)]
    dc = SArr(n - 1, lambda i: z3.If(to_z3(i) == k, z3.IntVal(s), z3.IntVal(0)))
    dc.crossing = (k, s)

    def count_nonzero(I_, a, **kw):
        if a is dc:
            return 1
        raise Unsupported('np.count_nonzero')
    I.models['numpy.count_nonzero'] = count_nonzero
    orig_where = I.models['numpy.where']

    def where(I_, c, *rest):
        if not rest:
            # np.where(dateline_crossing != 0) -> (indices,): its first element is the crossing segment
            return (SArr.from_list([k]),)
        return orig_where(I_, c, *rest)
    I.models['numpy.where'] = where
    return dc, k, s


def pi(h):
    return to_real(h.I.models['const:numpy.pi'](h.I))
