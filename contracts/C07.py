"""C07 -- the store is an append-only list across sessions and cache evictions.

Abstract view: L = the ghost rows of the base file (file-backed) or the cache content (in-memory).
well_formed: _next_index = |L| in write modes; every cache entry (k, v) has v = L[k].
Each public operation is proved from an arbitrary well-formed state (symbolic length at open time,
symbolic number of rows added in this session, arbitrary cache content, arbitrary evictions), so
every history of operations follows by induction.
"""
from __future__ import annotations

import z3

from contracts.storemodel import (TS, GhostFile, LoadedTraj, TrajRec, install_store_models, make_cache, make_ncfiles,
                                  make_store, register_file)
from pyvc.source import Unsupported
from pyvc.values import PyExc, to_z3
from pyvc.verify import unit

LEVEL = 'proof'
EXPLANATION = ('Representation invariant + per-operation contracts of TrajectoryStore.add / __getitem__ / __len__ / '
               'iteration / _open / _load_trajectory over a ghost row sequence; cache content and evictions are '
               'nondeterministic, lengths and indices symbolic.')
FUNCS = [TS + '.' + m for m in ('add', '__getitem__', '__len__', '__iter__', '_load_trajectory', '_write_trajectory', '_open',
                                '_open_nc_file', '_create_nc_file', 'nc_linked')] + \
        ['AEIC.trajectories.store:_TrajectoryStoreIterator.__next__', 'AEIC.trajectories.store:TrajectoryCache.popitem']
ROW = z3.Function('row_content', z3.IntSort(), z3.IntSort())


def file_store(h, mode):
    """A file-backed single-file store in `mode` with symbolic history: n_open rows when it was
    opened/created, `added` rows added since (0 in READ mode), arbitrary consistent cache content."""
    I = h.I
    loaded = install_store_models(h, I)
    n_open, added = h.int('rows_at_open'), h.int('rows_added_this_session')
    h.assume(z3.And(n_open >= 0, added >= 0), 'row counts are non-negative')
    if mode == 'READ':
        h.assume(added == 0)
    if mode == 'CREATE':
        h.assume(n_open == 0)
    # the file information is produced by the real _open_nc_file / _create_nc_file on a ghost file
    # holding the rows present when the session started; rows added since are then appended
    f = GhostFile('store.nc', n_open, lambda k: ROW(to_z3(k)))
    I.hooks['path_oracle'] = lambda kind, p: (p in I.hooks['nc_files'] or p in ('.', '/', '')) if kind != 'is_dir' \
        else p in ('.', '/', '')
    cache0 = make_cache(h, I, in_memory=False)
    skel = make_store(h, I, mode, None, cache0, next_index=0)
    if mode == 'CREATE':
        ncf = h.method(skel, '_create_nc_file', 'store.nc', {'base'}, [])
        f = ncf.attrs['dataset'][0].f
        f.rows = lambda k: ROW(to_z3(k))
    else:
        register_file(I, 'store.nc', f)
        ncf = h.method(skel, '_open_nc_file', 'store.nc')
    f.length = z3.simplify(n_open + added)
    cache = make_cache(h, I, in_memory=False)
    ncached = h.choice(3)
    keys = []
    for j in range(ncached):
        k = h.int(f'cached_index_{j}')
        h.assume(z3.And(k >= 0, k < f.length, *[k != q for q in keys]))
        keys.append(k)
        cache.attrs['__entries__'].append((k, TrajRec(ROW(k), label=f'cached{j}')))
    h.ctx.named['n_cached'] = z3.IntVal(ncached)
    st = make_store(h, I, mode, ncf, cache, next_index=(f.length if mode != 'READ' else 0))
    return st, f, cache, loaded


def identity_of(result):
    """(kind, value): the row content a returned trajectory stands for."""
    if isinstance(result, TrajRec):
        return result.tid
    if isinstance(result, LoadedTraj):
        t = result.tid()
        if t is None:
            return None
        f, row = t
        return f.rows(row)
    return None


def cache_consistent(cache, f):
    conj = []
    for k, v in cache.attrs['__entries__']:
        ident = identity_of(v)
        if ident is None:
            return z3.BoolVal(False)
        conj.append(z3.And(to_z3(k) >= 0, to_z3(k) < to_z3(f.length), ident == f.rows(k)))
    return z3.And(*conj) if conj else z3.BoolVal(True)


def getitem_unit(mode):
    def u(h):
        st, f, cache, loaded = file_store(h, mode)
        i = h.int('index')
        h.assume(i >= 0, 'non-negative index')
        h.ctx.named['mode'] = z3.StringVal(mode)
        n = to_z3(f.length)
        # "regardless of how small the in-memory cache is": also a cache that cannot hold even one trajectory
        tiny = h.choice(2) == 1
        h.ctx.named['cache_smaller_than_a_trajectory'] = z3.BoolVal(tiny)
        if tiny:
            h.I.hooks['cache_smaller_than_a_trajectory'] = True
        try:
            r = h.I.getitem(st, i)
        except PyExc as e:
            if h.exc_is(e, 'IndexError'):
                h.ensure('out-of-range-only-beyond-the-end', i >= n, note=repr(e.inst))
            else:
                h.fail('no-internal-error', repr(e.inst) + ' at ' + str(e.inst.where))
            return
        h.ensure('index-beyond-the-end-is-refused', i < n)
        ident = identity_of(r)
        if ident is None:
            h.fail('returns-the-row-added-at-that-index', 'result is not a trajectory assembled from one row: ' + repr(r))
            return
        h.ensure('returns-the-row-added-at-that-index', ident == ROW(i),
                 note=f'cached={isinstance(r, TrajRec)}')
        if isinstance(r, LoadedTraj):
            h.ensure('loaded-trajectory-comes-from-one-row', r.same_row(f, i))
        h.ensure('cache-stays-consistent', cache_consistent(cache, f))
    return u


for _m in ('READ', 'APPEND', 'CREATE'):
    unit('C07', f'getitem.{_m.lower()}-session', FUNCS, replay='contracts.C07:replay')(getitem_unit(_m))


def add_unit(mode):
    def u(h):
        st, f, cache, loaded = file_store(h, mode)
        old_len = to_z3(f.length)
        old_rows = f.rows
        # the same field sets may have been added to the new trajectory in another order than to the ones already there:
        # its data-dictionary hash then differs although it has the same data fields
        other_order = h.choice(2) == 1
        h.ctx.named['field_sets_added_in_another_order'] = z3.BoolVal(other_order)
        t = TrajRec(h.int('new_traj_id'), label='new', schema=(1 if other_order else 0))
        h.ctx.named['mode'] = z3.StringVal(mode)

        def write_data(I_, fi, a, k):
            f.write_row(k['index'], k['traj'].tid)
            return None
        h.summary(TS + '._write_data', write_data)
        try:
            r = h.method(st, 'add', t)
        except PyExc as e:
            h.fail('valid-addition-is-accepted', repr(e.inst) + ' at ' + str(e.inst.where))
            return
        r = to_z3(r)
        h.ensure('returns-the-old-length', r == old_len)
        h.ensure('length-grows-by-one', to_z3(f.length) == old_len + 1)
        h.ensure('new-row-holds-the-trajectory', f.rows(old_len) == t.tid)
        q = h.ctx.fresh('any_old_index', z3.IntSort())
        h.ensure('other-rows-unchanged', z3.Implies(z3.And(q >= 0, q < old_len), f.rows(q) == old_rows(q)))
        h.ensure('next-index-equals-length', to_z3(h.getattr(st, '_next_index')) == to_z3(f.length))
        h.ensure('cache-stays-consistent', cache_consistent(cache, f))
        h.ensure('len-reports-the-new-length', to_z3(h.I.len_(st)) == old_len + 1)
    return u


for _m in ('APPEND', 'CREATE'):
    unit('C07', f'add.{_m.lower()}-session', FUNCS, replay='contracts.C07:replay')(add_unit(_m))


@unit('C07', 'add.read-only-refused', FUNCS)
def add_readonly(h):
    st, f, cache, loaded = file_store(h, 'READ')
    old_len = to_z3(f.length)
    try:
        h.method(st, 'add', TrajRec(h.int('new_traj_id')))
        h.fail('read-only-store-refuses-additions', 'add returned')
    except PyExc as e:
        h.ensure('read-only-store-refuses-additions', h.exc_is(e, 'RuntimeError'))
        h.ensure('refused-addition-leaves-length', to_z3(f.length) == old_len)


@unit('C07', 'in-memory.add-and-read', FUNCS, replay='contracts.C07:replay_memory')
def in_memory(h):
    """In-memory store (no file): L = cache content, indices 0..n-1; an addition that would evict
    is refused with L unchanged."""
    I = h.I
    install_store_models(h, I)
    cache = make_cache(h, I, in_memory=True)
    n = h.choice(3)
    for j in range(n):
        cache.attrs['__entries__'].append((j, TrajRec(ROW(z3.IntVal(j)), label=f'old{j}')))
    h.ctx.named['n_before'] = z3.IntVal(n)
    st = make_store(h, I, 'CREATE', None, cache, next_index=n, in_memory=True)
    before = list(cache.attrs['__entries__'])
    t = TrajRec(h.int('new_traj_id'), label='new')
    try:
        r = h.method(st, 'add', t)
    except PyExc as e:
        if e.cls.name.endswith('EvictionOccurred'):
            h.ensure('refused-addition-leaves-contents', cache.attrs['__entries__'] == before)
            h.ensure('refused-addition-leaves-next-index', to_z3(h.getattr(st, '_next_index')) == n)
            h.ensure('refused-addition-leaves-length', to_z3(h.I.len_(st)) == n)
        else:
            h.fail('no-internal-error', repr(e.inst) + ' at ' + str(e.inst.where))
        return
    h.ensure('returns-the-old-length', to_z3(r) == n)
    h.ensure('length-grows-by-one', to_z3(h.I.len_(st)) == n + 1)
    for j in range(n + 1):
        try:
            got = h.I.getitem(st, j)
        except PyExc as e:
            h.fail('every-added-trajectory-readable', f'store[{j}] raised {e.inst!r}')
            return
        want = t.tid if j == n else ROW(z3.IntVal(j))
        h.ensure('every-added-trajectory-readable', isinstance(got, TrajRec) and got.tid == want)
    try:
        h.I.getitem(st, n + 1)
        h.fail('index-beyond-the-end-is-refused', 'store[len] returned')
    except PyExc as e:
        h.ensure('index-beyond-the-end-is-refused', h.exc_is(e, 'IndexError'))


@unit('C07', 'iteration', FUNCS, replay='contracts.C07:replay_iteration')
def iteration(h):
    st, f, cache, loaded = file_store(h, 'READ')
    it = h.I.call(h.I.getattr(st, '__iter__'), [], {})
    j = h.int('iterator_position')
    h.assume(j >= 0)
    it.attrs['_index'] = j
    n = to_z3(f.length)
    try:
        r = h.I.call(h.I.getattr(it, '__next__'), [], {})
    except PyExc as e:
        if h.exc_is(e, 'StopIteration'):
            h.ensure('stops-exactly-at-the-end', j >= n)
        else:
            h.fail('no-internal-error', repr(e.inst))
        return
    h.ensure('stops-exactly-at-the-end', j < n)
    ident = identity_of(r)
    h.ensure('yields-in-insertion-order', ident is not None and ident == ROW(j))
    h.ensure('advances-by-one', to_z3(it.attrs['_index']) == j + 1)


@unit('C07', 'iteration.passes-are-independent', FUNCS, replay='contracts.C07:replay_iteration')
def iteration_independent(h):
    """"Iteration yields the trajectories in insertion order" for every pass, also while another pass over the same store
    is under way (zip(store, store), nested loops, a paused iterator): a pass that has yielded two trajectories yields the
    third next, whatever a second pass started in between has done; the second pass starts at the first trajectory."""
    st, f, cache, loaded = file_store(h, 'READ')
    n = to_z3(f.length)
    h.assume(n >= 3, 'at least three trajectories in the store')
    I = h.I
    h.trust('TrajectoryStore.__getitem__ / __len__ inside the iterator by their contracts (proved on the real bodies by the getitem.* units): '
            'store[i] is the i-th trajectory added for 0 <= i < len, IndexError beyond; len = number of successful additions')

    def getitem(I_, fi, a, kw):
        i = to_z3(a[1])
        if I_.ctx.branch(z3.And(i >= 0, i < n)):
            return TrajRec(ROW(i))
        I_.raise_('IndexError', 'trajectory index out of range')
    h.summary(TS + '.__getitem__', getitem)
    h.summary(TS + '.__len__', lambda I_, fi, a, kw: n)

    def nxt(it):
        return identity_of(I.call(I.getattr(it, '__next__'), [], {}))
    try:
        it1 = I.call(I.getattr(st, '__iter__'), [], {})
        a0, a1 = nxt(it1), nxt(it1)
        it2 = I.call(I.getattr(st, '__iter__'), [], {})
        b0 = nxt(it2)
        a2 = nxt(it1)
        b1 = nxt(it2)
    except PyExc as e:
        h.fail('no-internal-error', repr(e.inst) + ' at ' + str(e.inst.where))
        return
    h.ensure('first-pass-in-insertion-order', z3.And(*[x is not None and x == ROW(z3.IntVal(i)) for i, x in enumerate((a0, a1, a2))]) if None not in (a0, a1, a2) else False)
    h.ensure('second-pass-starts-at-the-first-trajectory-and-goes-on-in-order',
             z3.And(b0 == ROW(z3.IntVal(0)), b1 == ROW(z3.IntVal(1))) if None not in (b0, b1) else False)


def replay_iteration(payload):
    """Native: several passes over one store at once against the same routines over a list."""
    import os
    import shutil
    import tempfile
    from AEIC.trajectories import TrajectoryStore
    tmp = tempfile.mkdtemp(prefix='c07i-', dir=os.environ.get('VERIF_SCRATCH'))
    problems = []
    TrajectoryStore.active_in_thread = None
    try:
        path = os.path.join(tmp, 's.nc')
        model = []
        with TrajectoryStore.create(base_file=path) as ts:
            for i in range(5):
                ts.add(_mk(i))
                model.append(float(1000 + i))
        TrajectoryStore.active_in_thread = None
        for how, store in (('file', lambda: TrajectoryStore.open(base_file=path)), ('memory', None)):
            if store is None:
                TrajectoryStore.active_in_thread = None
                ts = TrajectoryStore.create()
                for i in range(5):
                    ts.add(_mk(i))
            else:
                ts = store()
            try:
                key = lambda t: t.starting_mass     # noqa
                got = [(key(a), key(b)) for a, b in zip(ts, ts)]
                if got != list(zip(model, model)):
                    problems.append(f'{how}: zip(store, store) gives {got[:3]}..., a list gives {list(zip(model, model))[:3]}...')
                got = [(key(a), key(b)) for a in ts for b in ts]
                if got != [(a, b) for a in model for b in model]:
                    problems.append(f'{how}: a nested loop over the store gives {len(got)} pairs, a list {len(model) ** 2}')
                it = iter(ts)
                first = [key(next(it)), key(next(it))]
                whole = [key(t) for t in ts]
                rest = [key(t) for t in it]
                if first + rest != model or whole != model:
                    problems.append(f'{how}: a paused pass continued with {rest} after {first} (another full pass ran in between: {whole})')
            except Exception as e:   # noqa
                problems.append(f'{how}: {type(e).__name__}: {e}')
            finally:
                ts.close()
                TrajectoryStore.active_in_thread = None
        return dict(reproduced=bool(problems), observed=problems[:5], required='every pass over the store yields the trajectories in insertion order')
    finally:
        TrajectoryStore.active_in_thread = None
        shutil.rmtree(tmp, ignore_errors=True)


@unit('C07', 'open.reestablishes-invariant', FUNCS)
def open_unit(h):
    I = h.I
    install_store_models(h, I)
    n = h.int('rows_in_file')
    h.assume(n >= 0)
    f = GhostFile('store.nc', n, lambda k: ROW(to_z3(k)))
    mode = 'APPEND' if h.choice(2) == 0 else 'READ'
    cache = make_cache(h, I, in_memory=False)
    st = make_store(h, I, mode, None, cache, next_index=0)

    I.hooks['path_oracle'] = lambda kind, p: kind != 'is_dir'
    register_file(I, 'store.nc', f)

    def base_checks(I_, fi, a, k):
        s, ncf = a[0], a[1]
        s.attrs['_nc_files'].append(ncf)
        s.attrs['_nc']['base'] = ncf
    h.summary(TS + '._base_open_checks', base_checks)
    h.method(st, '_open')
    h.ensure('length-is-the-number-of-persisted-rows', to_z3(I.len_(st)) == n)
    if mode == 'APPEND':
        h.ensure('next-index-is-the-number-of-persisted-rows', to_z3(h.getattr(st, '_next_index')) == n)


# ------------------------------------------------------------------------------------------------
def _mk(i, n=5, fid=None):
    import numpy as np
    from AEIC.trajectories import Trajectory
    t = Trajectory(npoints=n, name=f't{i}')
    for name in ('fuel_flow', 'aircraft_mass', 'fuel_mass', 'ground_distance', 'altitude', 'flight_level', 'rate_of_climb',
                 'flight_time', 'latitude', 'longitude', 'azimuth', 'heading', 'true_airspeed', 'ground_speed'):
        setattr(t, name, np.full(n, float(i)))
    t.starting_mass = float(1000 + i)
    t.total_fuel_mass = float(i)
    t.n_climb, t.n_cruise, t.n_descent = 1, n - 2, 1
    if fid is not None:
        t.flight_id = fid
    return t


def replay(payload):
    """Native list-model comparison on a real NetCDF-backed store for the session kind of the
    counter-model: n_open rows, reopen in the given mode, add `added` rows, drop the cache, read."""
    import os
    import shutil
    import tempfile
    from AEIC.trajectories import TrajectoryStore
    m = payload.get('model', {})
    mode = str(m.get('mode', 'APPEND')).strip('"')
    n_open = max(0, min(int(m.get('rows_at_open', 1) or 0), 6))
    added = max(0, min(int(m.get('rows_added_this_session', 1) or 0), 6))
    if mode == 'CREATE':
        n_open = 0
        added = max(added, 2)
    if mode == 'APPEND':
        n_open, added = max(n_open, 1), max(added, 1)
    tmp = tempfile.mkdtemp(prefix='c07-', dir=os.environ.get('VERIF_SCRATCH'))
    problems = []
    TrajectoryStore.active_in_thread = None
    try:
        path = os.path.join(tmp, 's.nc')
        model = []
        if mode != 'CREATE':
            with TrajectoryStore.create(base_file=path) as ts:
                for i in range(n_open):
                    ts.add(_mk(len(model)))
                    model.append(float(1000 + len(model)))
        opener = dict(CREATE=TrajectoryStore.create, APPEND=TrajectoryStore.append, READ=TrajectoryStore.open)[mode]
        with opener(base_file=path) as ts:
            if mode != 'READ':
                for i in range(added):
                    idx = ts.add(_mk(len(model)))
                    if idx != len(model):
                        problems.append(f'add returned {idx}, expected {len(model)}')
                    model.append(float(1000 + len(model)))
            ts._trajectories.clear()           # smallest possible cache: everything evicted
            if len(ts) != len(model):
                problems.append(f'len {len(ts)} != {len(model)}')
            for i, want in enumerate(model):
                try:
                    got = ts[i].starting_mass
                    if got != want:
                        problems.append(f'store[{i}] returned the trajectory added as number {int(got) - 1000}')
                except Exception as e:   # noqa
                    problems.append(f'store[{i}] raised {type(e).__name__}: {e}')
                ts._trajectories.clear()
            try:
                ts[len(model)]
                problems.append('store[len] returned')
            except IndexError:
                pass
            except Exception as e:   # noqa
                problems.append(f'store[len] raised {type(e).__name__}')
        # the same field sets added in another order: still the same data fields
        from AEIC.storage import Dimension as _D, Dimensions as _Ds, FieldMetadata as _FM, FieldSet as _FS
        for nm in ('c07_ord_x', 'c07_ord_y'):
            if not _FS.known(nm):
                _FS(nm, **{nm + '_v': _FM(dimensions=_Ds(_D.TRAJECTORY), description='', units='')})

        def ordered(i, order):
            t = _mk(i)
            for nm in order:
                t.add_fields(_FS.from_registry(nm))
                setattr(t, nm + '_v', float(i))
            return t
        for in_mem in (True, False):
            TrajectoryStore.active_in_thread = None
            ts = TrajectoryStore.create() if in_mem else TrajectoryStore.create(base_file=os.path.join(tmp, 'order.nc'))
            try:
                ts.add(ordered(0, ['c07_ord_x', 'c07_ord_y']))
                try:
                    ts.add(ordered(1, ['c07_ord_y', 'c07_ord_x']))
                    if len(ts) != 2 or ts[1].c07_ord_x_v != 1.0:
                        problems.append('trajectory with its field sets added in another order: not stored as the second trajectory')
                except Exception as e:   # noqa
                    problems.append(f'{"in-memory" if in_mem else "file"} store: a trajectory with the same field sets added in another order is refused: {type(e).__name__}: {e}')
            finally:
                try:
                    ts.close()
                except Exception:   # noqa
                    pass
        # a cache smaller than one trajectory: 12000 points (about 1.3 MiB) read through a 1 MiB cache
        if m.get('cache_smaller_than_a_trajectory', True):
            TrajectoryStore.active_in_thread = None
            big = os.path.join(tmp, 'big.nc')
            with TrajectoryStore.create(base_file=big) as ts:
                ts.add(_mk(0, n=12000))
                ts.add(_mk(1, n=10))
            TrajectoryStore.active_in_thread = None
            with TrajectoryStore.open(base_file=big, cache_size_mb=1) as ts:
                for i, npts in ((0, 12000), (1, 10)):
                    try:
                        if len(ts[i]) != npts:
                            problems.append(f'1 MiB cache: store[{i}] has {len(ts[i])} points, expected {npts}')
                    except Exception as e:   # noqa
                        problems.append(f'1 MiB cache: store[{i}] ({npts} points) raised {type(e).__name__}: {e}')
        return dict(reproduced=bool(problems), observed=problems[:6], session=dict(mode=mode, rows_at_open=n_open, added=added),
                    required='append-only list semantics')
    finally:
        TrajectoryStore.active_in_thread = None
        shutil.rmtree(tmp, ignore_errors=True)


def replay_memory(payload):
    from AEIC.trajectories import TrajectoryStore
    from AEIC.trajectories.store import TrajectoryCache
    TrajectoryStore.active_in_thread = None
    problems = []
    ts = TrajectoryStore.create(cache_size_mb=1)
    model = []
    try:
        refused = 0
        for i in range(40):
            big = i % 3 != 2
            t = _mk(i, n=(4000 if big else 5))
            try:
                idx = ts.add(t)
            except TrajectoryCache.EvictionOccurred:
                refused += 1
                if len(ts) != len(model):
                    problems.append(f'len changed to {len(ts)} after a refused add (model {len(model)})')
                continue
            if idx != len(model):
                problems.append(f'add returned {idx}, expected {len(model)}')
            model.append(float(1000 + i))
        for i, want in enumerate(model):
            try:
                if ts[i].starting_mass != want:
                    problems.append(f'store[{i}] wrong trajectory')
            except Exception as e:   # noqa
                problems.append(f'store[{i}] raised {type(e).__name__}')
        return dict(reproduced=bool(problems), observed=problems[:6], refused_additions=refused)
    finally:
        TrajectoryStore.active_in_thread = None
