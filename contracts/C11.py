"""C11 -- every documented emissions option combination works or is refused by name.

The twelve options are symbolic (symbolic enum members / Booleans, see emis.setup_config); the units are
those of C01 (same functions): on every path -- i.e. for every option combination, covered by path
conditions and not by enumeration -- a call either returns (and then satisfies C01's balance clauses and
'switched-off species absent or zero'), or raises NotImplementedError / RuntimeError whose message contains
the offending method's value; KeyError / AttributeError / TypeError / failed assert on any path fails the
obligation 'no-internal-error'.
"""
from __future__ import annotations

import z3

from contracts import C01 as c01
from contracts import emis
from contracts.emis import E, SPECIES, sv_data
from pyvc.values import PyExc
from pyvc.verify import UNITS, unit

LEVEL = 'proof'
EXPLANATION = ('Same units as C01, options symbolic: the 41 472 combinations are covered by path conditions. The clauses that '
               'decide C11 are no-internal-error, refusal-names-the-unsupported-method and switched-off-species-absent-or-zero.')

for _u in UNITS.get('C01', []):
    unit('C11', _u.name, _u.func, replay='contracts.C11:replay', max_paths=_u.max_paths)(_u.fn)


@unit('C11', 'enabled_species', ['AEIC.config.emissions:EmissionsConfig.enabled_species'], max_paths=20000)
def enabled_species(h):
    ec = emis.setup_config(h)
    S, sp = emis.species_enum(h)
    r = h.getattr(ec, 'enabled_species')
    conj = []
    for name in SPECIES:
        on = c01.zb(c01.enabled(h, ec, name))
        conj.append(on == (sp[name] in r))
    h.ensure('species-enabled-exactly-by-its-documented-switch', z3.And(*conj))


# ------------------------------------------------------------------------------------------------
def replay(payload):
    """Native: the option combination of the counter-model (plus a fixed sample of combinations incl. the ones
    that used to fail) on a synthetic trajectory; outcome classes: balanced inventory / named refusal /
    internal error."""
    import itertools
    import os
    import random
    root = os.environ.get('AEIC_SRC', '/repo/src').rsplit('/src', 1)[0]
    os.environ['AEIC_PATH'] = root + '/tests/data'
    import numpy as np
    from AEIC.config import Config, config
    from AEIC.emissions.emission import compute_emissions
    from AEIC.performance.models import PerformanceModel
    from AEIC.types import Fuel, Species
    import tomllib
    m = (payload or {}).get('model', {}) or {}
    nox = ['bffm2', 'p3t3', 'none']
    pmv = ['fuel_flow', 'foa3', 'none']
    pmn = ['meem', 'scope11', 'foa3', 'none']
    cdm = ['trajectory', 'lto']

    def pick(lst, key):
        try:
            return lst[int(m.get(key)) % len(lst)]
        except (TypeError, ValueError):
            return None
    combos = []
    cm = dict(climb_descent_mode=pick(cdm, 'opt_climb_descent_mode'), nox_method=pick(nox, 'opt_nox_method'),
              hc_method=pick(nox, 'opt_hc_method'), co_method=pick(nox, 'opt_co_method'), pmvol_method=pick(pmv, 'opt_pmvol_method'),
              pmnvol_method=pick(pmn, 'opt_pmnvol_method'))
    for k in ('co2_enabled', 'h2o_enabled', 'sox_enabled', 'apu_enabled', 'gse_enabled', 'lifecycle_enabled'):
        if ('opt_' + k) in m:
            cm[k] = bool(m['opt_' + k])
    cm = {k: v for k, v in cm.items() if v is not None}
    if cm:
        combos.append(cm)
    rnd = random.Random(7)
    # (a history: everything fuel-proportional switched off first, then on again - nothing may be remembered from the first run)
    combos += [dict(co2_enabled=False, h2o_enabled=False, sox_enabled=False), dict(), dict(pmnvol_method='foa3', pmvol_method='fuel_flow'),
               dict(sox_enabled=False), dict(pmvol_method='foa3'), dict(climb_descent_mode='lto'), dict(apu_enabled=False),
               dict(nox_method='none', hc_method='bffm2', co_method='none'), dict(pmnvol_method='scope11', pmvol_method='none')]
    for _ in range(25):
        combos.append(dict(climb_descent_mode=rnd.choice(cdm), co2_enabled=rnd.random() < .5, h2o_enabled=rnd.random() < .5,
                           sox_enabled=rnd.random() < .5, nox_method=rnd.choice(nox), hc_method=rnd.choice(['bffm2', 'none']),
                           co_method=rnd.choice(['bffm2', 'none']), pmvol_method=rnd.choice(pmv), pmnvol_method=rnd.choice(pmn),
                           apu_enabled=rnd.random() < .5, gse_enabled=rnd.random() < .5, lifecycle_enabled=rnd.random() < .5))
    problems = []

    class T:
        pass
    # the element type of the fuel-mass array must not matter: float kilograms, and whole kilograms in an integer array
    int_mass = np.array([9000, 8601, 8203, 7807, 7411, 6907, 6403, 5899, 5395, 4997, 4499, 4001], dtype=np.int64)
    combos = [(o, False) for o in combos] + [(o, True) for o in combos[:6]]
    if m.get('fuel_masses_are_integers'):
        combos = [c for c in combos if c[1]] + [c for c in combos if not c[1]]
    for opts, whole_kg in combos:
        Config.reset()
        try:
            Config.load(data_path_overrides=[root + '/tests/data'], emissions=opts)
            pm = PerformanceModel.load(config.file_location('performance/sample_performance_model.toml'))
            with open(config.emissions.fuel_file, 'rb') as f:
                fuel = Fuel.model_validate(tomllib.load(f))
            n = 12
            t = T()
            t.fuel_mass = int_mass.copy() if whole_kg else np.linspace(9000.0, 4000.0, n)
            t.altitude = np.concatenate([np.linspace(1000, 10500, 4), np.full(4, 10500.0), np.linspace(10500, 1500, 4)])
            t.true_airspeed = np.full(n, 220.0)
            t.fuel_flow = np.concatenate([np.full(4, 1.6), np.full(4, 0.8), np.full(4, 0.3)])
            try:
                ncl = max(0, min(6, int(m.get('n_climb', 4))))
                nde = max(0, min(6, int(m.get('n_descent', 4))))
            except (TypeError, ValueError):
                ncl, nde = 4, 4
            t.n_climb, t.n_cruise, t.n_descent = ncl, n - ncl - nde, nde
            T.__len__ = lambda self: n
            try:
                e = compute_emissions(pm, fuel, t)
            except (NotImplementedError, RuntimeError) as ex:
                msg = str(ex).lower()
                if str(config.emissions.pmnvol_method.value).lower() == 'foa3' and isinstance(ex, NotImplementedError) and 'foa3' not in msg:
                    problems.append(dict(options=opts, outcome=f'refused because of pmnvol_method=foa3, but the message names another method: {ex}'))
                elif not any(v in msg for v in nox + pmv + pmn + ['lifecycle']):
                    problems.append(dict(options=opts, outcome=f'refusal does not name a method: {type(ex).__name__}: {ex}'))
                continue
            except Exception as ex:   # noqa
                problems.append(dict(options=opts, outcome=f'internal error {type(ex).__name__}: {ex}'))
                continue
            apu_on = config.emissions.apu_enabled and pm.apu is not None
            for s in Species:
                parts = 0.0
                if s in e.trajectory_emissions:
                    parts += float(np.sum(e.trajectory_emissions[s]))
                if s in e.lto_emissions:
                    parts += float(e.lto_emissions[s].sum())
                if apu_on and s in e.apu_emissions:
                    parts += float(e.apu_emissions[s])
                if config.emissions.gse_enabled and s in e.gse_emissions:
                    parts += float(e.gse_emissions[s])
                if s == Species.CO2:
                    parts += float(e.lifecycle_co2 or 0.0)
                if s not in e.total_emissions:
                    problems.append(dict(options=opts, outcome=f'{s.name}: no total reported (parts sum to {parts})'))
                    continue
                tot = float(e.total_emissions[s])
                if not np.isfinite(tot) or tot < -1e-9 or abs(tot - parts) > 1e-6 * max(1.0, abs(parts)):
                    problems.append(dict(options=opts, outcome=f'{s.name}: total {tot} but parts sum to {parts}'))
                if s not in config.emissions.enabled_species:
                    for mp in (e.trajectory_emissions, e.lto_emissions):
                        if s in mp:
                            v = mp[s]
                            vals = np.asarray(v if isinstance(v, np.ndarray) else [v[mo] for mo in v])
                            if np.any(vals != 0) and s.name != 'PMnvolGMD':
                                problems.append(dict(options=opts, outcome=f'{s.name} is switched off but non-zero'))
            for s in e.trajectory_emissions:
                if s in e.trajectory_indices:
                    want = np.asarray(e.trajectory_indices[s], float) * np.asarray(e.fuel_burn_per_segment, float)
                    got = np.asarray(e.trajectory_emissions[s], float)
                    if got.shape != want.shape or not np.allclose(got, want, rtol=1e-9, atol=1e-12):
                        k = int(np.argmax(np.abs(got - want))) if got.shape == want.shape else -1
                        problems.append(dict(options=opts, fuel_mass_dtype=str(t.fuel_mass.dtype),
                                             outcome=f'{s.name}: segment {k} amount {got[k] if k >= 0 else got.shape} but index x segment fuel = {want[k] if k >= 0 else want.shape}'))
                        break
            lto_mode = opts.get('climb_descent_mode') == 'lto'
            tf = float(np.sum(e.fuel_burn_per_segment[(t.n_climb if lto_mode else 0):(n - t.n_descent if lto_mode else n)]))
            lf = float(e.total_fuel_burn)
            if not np.isfinite(lf) or lf < tf - 1e-9:
                problems.append(dict(options=opts, outcome=f'total fuel burn {lf} below trajectory fuel {tf}'))
            for s_, on_, ei_ in ((Species.CO2, config.emissions.co2_enabled, fuel.EI_CO2), (Species.H2O, config.emissions.h2o_enabled, fuel.EI_H2O)):
                if on_ and tf > 0 and s_ not in e.trajectory_emissions:
                    problems.append(dict(options=opts, outcome=f'{s_.name} is switched on but the trajectory part has none ({ei_} g/kg x {tf} kg of fuel expected)'))
            if config.emissions.sox_enabled and tf > 0 and Species.SO2 not in e.trajectory_emissions:
                problems.append(dict(options=opts, outcome='SOx is switched on but the trajectory part has no SO2'))
            if Species.CO2 in e.trajectory_emissions:
                tc = float(np.sum(e.trajectory_emissions[Species.CO2]))
                if abs(tc - fuel.EI_CO2 * tf) > 1e-6 * max(1.0, tc):
                    problems.append(dict(options=opts, n_climb=t.n_climb, n_descent=t.n_descent,
                                         outcome=f'trajectory CO2 {tc} g but EI x window fuel = {fuel.EI_CO2 * tf} g'))
        finally:
            Config.reset()
        if len(problems) >= 4:
            break
    return dict(reproduced=bool(problems), observed=problems[:4], required='balanced inventory or a refusal naming the method')
