"""C06 -- the performance model reproduces its table and never extrapolates.

Deductive part (real code): module units (conversion factors are mutually inverse over the exact literals),
LegacyPerformanceModel.evaluate_impl / _evaluate_checked (phase -> sub-table), PerformanceTable.interpolate
(metres -> flight level, 'min' / 'max' -> extreme masses, one interpolator per phase built from that phase's
sub-table), Interpolator.__call__ (which grids and coordinates go to interpn), Interpolator.__init__'s grid
fill for any number of rows by loop invariant (every row's values land at the node of its flight level and
mass), consequences of the interpn contract at nodes / inside a cell / outside the grid, and
build_performance_table (every PTF row yields its table rows after unit conversion).
Bounded part (pandas validation, PTF text parsing, scipy): generated tables and PTF files through the real
PerformanceModel.from_data / PTFData.load.
"""
from __future__ import annotations

from fractions import Fraction

import z3

from pyvc.models.arrays import Grid2, SArr
from pyvc.source import Unsupported
from pyvc.values import Builtin, EnumMember, Model, Obj, PyExc, to_real, to_z3
from pyvc.verify import unit

LEVEL = 'other'
EXPLANATION = ('Unit factors, phase / sub-table selection, metre -> FL conversion, symbolic masses, interpolator plumbing and the '
               'grid fill (loop invariant, any number of rows) are proved on the real code against the scipy interpn contract; table '
               'validation (pandas) and PTF text parsing are bounded.')
PM = 'AEIC.performance.models.legacy'
R, Z = z3.RealSort(), z3.IntSort()


# ------------------------------------------------------------------------------------------------
@unit('C06', 'units', ['AEIC.units'], replay='contracts.C06:replay_units')
def units_unit(h):
    I = h.I
    u = I.get_module('AEIC.units')
    g = lambda n: Fraction(I.module_get(u, n))     # noqa
    h.ensure('metres-to-flight-level-and-back-is-the-identity', g('METERS_TO_FL') * g('FL_TO_METERS') == 1,
             note=f"METERS_TO_FL * FL_TO_METERS = {float(g('METERS_TO_FL') * g('FL_TO_METERS'))!r}")
    h.ensure('metres-to-feet-and-back-is-the-identity', g('METERS_TO_FEET') * g('FEET_TO_METERS') == 1,
             note=f"METERS_TO_FEET * FEET_TO_METERS = {float(g('METERS_TO_FEET') * g('FEET_TO_METERS'))!r}")
    h.ensure('knots-and-back-is-the-identity', g('MPS_TO_KNOTS') * g('KNOTS_TO_MPS') == 1)
    h.ensure('flight-level-is-hundreds-of-feet', g('FL_TO_METERS') == 100 * g('FEET_TO_METERS'))
    h.ensure('feet-per-minute', g('FPM_TO_MPS') * g('MINUTES_TO_SECONDS') == g('FEET_TO_METERS'))


def replay_units(payload):
    from AEIC import units as u
    bad = []
    for fl in (0, 5, 100, 290, 410, 431):
        back = (fl * u.FL_TO_METERS) * u.METERS_TO_FL
        if abs(back - fl) > 1e-9 * max(1, fl):
            bad.append(f'FL{fl} -> {fl * u.FL_TO_METERS!r} m -> FL {back!r}')
    return dict(reproduced=bool(bad), observed=bad[:4])


# ------------------------------------------------------------------------------------------------
class InterpStub(Model):
    def __init__(self, tag):
        self.tag, self.calls = tag, []

    def py_call(self, I, *args, **kwargs):
        self.calls.append(args)
        return ('performance-of', self.tag, args)


@unit('C06', 'evaluate.phase-selects-the-sub-table', [PM + ':LegacyPerformanceModel.evaluate_impl',
                                                      'AEIC.performance.models.base:BasePerformanceModel.evaluate',
                                                      'AEIC.performance.models.base:BasePerformanceModel._evaluate_checked'])
def impl_unit(h):
    I = h.I
    SFR = I.lookup_fq('AEIC.performance.types:SimpleFlightRules')
    ROCD = I.lookup_fq(PM + ':ROCDFilter')
    calls = []
    h.summary(PM + ':PerformanceTable.interpolate', lambda I_, fi, a, k: calls.append(a[1:]) or ('result', len(calls)))
    table = h.new(PM + ':PerformanceTable', _partial=True)
    m = h.new(PM + ':LegacyPerformanceModel', _partial=True, _performance_table=table)
    m.attrs['__pydantic_private__'] = {'_performance_table': table}
    state = h.new('AEIC.performance.types:AircraftState', altitude=h.real('altitude'), aircraft_mass=h.real('mass'),
                  true_airspeed=None, rate_of_climb=None)
    k = h.choice(4)
    rules = SFR.members[k] if k < 3 else 'climb-as-a-plain-string'
    try:
        r = h.method(m, 'evaluate', state, rules)
    except PyExc as e:
        h.ensure('only-foreign-flight-rules-are-refused', h.exc_is(e, 'TypeError') and k == 3, note=repr(e.inst))
        return
    want = {'CLIMB': 'POSITIVE', 'CRUISE': 'ZERO', 'DESCEND': 'NEGATIVE'}
    ok = k < 3 and len(calls) == 1 and calls[0][0] is state and isinstance(calls[0][1], EnumMember) and calls[0][1].cls is ROCD \
        and calls[0][1].name == want[rules.name] and r == ('result', 1)
    h.ensure('flight-phase-selects-its-rocd-sub-table', bool(ok), note=f'{rules!r} -> {calls!r}')


@unit('C06', 'interpolate.coordinates', [PM + ':PerformanceTable.interpolate'], replay='contracts.C06:replay_model')
def interpolate_unit(h):
    """interpolate(state, phase): flight level = altitude * METERS_TO_FL; 'min' / 'max' are the table's extreme masses;
    the phase's interpolator is built once from that phase's sub-table and asked for (fl, mass)."""
    I = h.I
    ROCD = I.lookup_fq(PM + ':ROCDFilter')
    ph = ROCD.members[h.choice(3)]
    masses = [h.real('mass_a'), h.real('mass_b'), h.real('mass_c')]
    cached = h.choice(2) == 1
    stub_old = InterpStub('cached')
    built = []

    def subset(I_, fi, a, k):
        sub = h.new(PM + ':PerformanceTable', _partial=True, df=('sub-table-frame', a[1]))
        return sub
    h.summary(PM + ':PerformanceTable.subset', subset)

    def new_interp(I_, cls, df):
        s = InterpStub(('built-from', df))
        built.append(s)
        return s
    h.model('new:' + PM + ':Interpolator', new_interp)
    table = h.new(PM + ':PerformanceTable', _partial=True, mass=list(masses), fl=[h.real('level_a'), h.real('level_b'), h.real('level_c')],
                  _interpolators=({ph: stub_old} if cached else {}))
    alt = h.real('altitude')
    mk = h.choice(3)
    mass = [h.real('mass'), 'min', 'max'][mk]
    state = h.new('AEIC.performance.types:AircraftState', altitude=alt, aircraft_mass=mass, true_airspeed=None, rate_of_climb=None)
    state0 = dict(state.attrs)
    r = h.method(table, 'interpolate', state, ph)
    # "values depend only on altitude, mass and phase": the state that was asked about is the caller's, not the table's to edit
    # (a symbolic 'min' / 'max' must still say so for the next model it is shown to)
    h.ensure('the-callers-state-is-left-as-it-was', set(state.attrs) == set(state0) and all(state.attrs[a] is state0[a] for a in state0),
             note='changed: ' + ', '.join(f'{a}: {state0.get(a)!r} -> {state.attrs.get(a)!r}' for a in state.attrs if state.attrs.get(a) is not state0.get(a)))
    used = stub_old if cached else (built[0] if built else None)
    if used is None or len(used.calls) != 1 or r[0] != 'performance-of':
        h.fail('asks-the-phases-interpolator-once', repr(r))
        return
    h.ensure('interpolator-of-the-phase-built-from-its-sub-table-and-kept',
             (cached and not built) or (not cached and len(built) == 1 and built[0].tag == ('built-from', ('sub-table-frame', ph))
                                        and table.attrs['_interpolators'].get(ph) is built[0]))
    fl, ms = used.calls[0]
    u = I.get_module('AEIC.units')
    # what the property needs of the conversion: the level the interpolator is asked for is the altitude times the library's
    # factor - exactly whenever that product has no more than nine decimals (every tabulated level expressed in metres with
    # the library's own factor is such a product), and never further from it than half a unit of the ninth decimal (so that
    # bounds, continuity and refusal outside the table carry over up to that granularity)
    x = alt * to_real(Fraction(I.module_get(u, 'METERS_TO_FL')))
    d = to_real(fl) - x
    kk = h.ctx.fresh('nine_decimal_number', z3.IntSort())
    # (discharged from the facts about the rounding alone - definitions of the rounded value - not the whole path condition)
    rounding_facts = [c for c in h.ctx.pc if 'rounded' in str(c)]
    h.ensure_from('flight-level-is-altitude-times-the-librarys-factor-exactly-for-numbers-of-up-to-nine-decimals',
                  z3.Implies(x * 1000000000 == z3.ToReal(kk), to_real(fl) == x), rounding_facts)
    h.ensure('flight-level-never-further-from-that-product-than-half-a-unit-of-the-ninth-decimal',
             z3.And(d <= z3.RealVal('1/2000000000'), d >= -z3.RealVal('1/2000000000')))
    lo = z3.If(masses[0] <= masses[1], z3.If(masses[0] <= masses[2], masses[0], masses[2]), z3.If(masses[1] <= masses[2], masses[1], masses[2]))
    hi = z3.If(masses[0] >= masses[1], z3.If(masses[0] >= masses[2], masses[0], masses[2]), z3.If(masses[1] >= masses[2], masses[1], masses[2]))
    want = [mass, lo, hi][mk]
    h.ensure('symbolic-min-max-mass-are-the-tables-extreme-masses', to_real(ms) == to_real(want))


# ------------------------------------------------------------------------------------------------
# scipy.interpolate.interpn by contract
def install_interpn(h):
    """interpn(points, values, xi, method='linear') on a rectilinear grid with strictly increasing axes: xi outside the
    grid raises ValueError (bounds_error default); inside, with the cell (ci, cj) that contains xi, the bilinear
    combination of the four corner values (linear in 1-D)."""
    h.trust('scipy.interpolate.interpn contract: out-of-bounds xi raises ValueError; otherwise multilinear interpolation in the cell containing xi')
    log = []
    n = [0]

    def interpn(I_, points, values, xi, method='linear', **kw):
        n[0] += 1
        log.append((points, values, xi, method))
        ctx = I_.ctx
        if method != 'linear':
            raise Unsupported('interpn method ' + repr(method))
        if isinstance(values, Grid2):
            fls, ms = points
            fl, mass = (to_real(xi[0]), to_real(xi[1])) if isinstance(xi, tuple) else (None, None)
            if fl is None:
                raise Unsupported('2-D interpn with a non-tuple query')
            nf, nm = to_z3(I_.len_(fls)), to_z3(I_.len_(ms))
            inside = z3.And(to_real(fls.at(0)) <= fl, fl <= to_real(fls.at(nf - 1)), to_real(ms.at(0)) <= mass, mass <= to_real(ms.at(nm - 1)))
            if not ctx.branch(inside):
                I_.raise_('ValueError', 'One of the requested xi is out of bounds in dimension')
            ci, cj = ctx.fresh('cell_i', Z), ctx.fresh('cell_j', Z)
            f0, f1, m0, m1 = to_real(fls.at(ci)), to_real(fls.at(ci + 1)), to_real(ms.at(cj)), to_real(ms.at(cj + 1))
            ctx.assume(z3.And(ci >= 0, ci + 1 < nf, cj >= 0, cj + 1 < nm, f0 <= fl, fl <= f1, m0 <= mass, mass <= m1, f0 < f1, m0 < m1))
            t, s = (fl - f0) / (f1 - f0), (mass - m0) / (m1 - m0)
            v = (1 - t) * (1 - s) * values.at(ci, cj) + t * (1 - s) * values.at(ci + 1, cj) + (1 - t) * s * values.at(ci, cj + 1) + t * s * values.at(ci + 1, cj + 1)
            log[-1] = log[-1] + (dict(ci=ci, cj=cj, t=t, s=s),)
            return SArr.from_list([v])
        # 1-D
        (fls,) = points
        q = xi.at(0) if isinstance(xi, SArr) else xi
        fl = to_real(q)
        nf = to_z3(I_.len_(fls))
        inside = z3.And(to_real(fls.at(0)) <= fl, fl <= to_real(fls.at(nf - 1)))
        if not ctx.branch(inside):
            I_.raise_('ValueError', 'One of the requested xi is out of bounds in dimension 0')
        ci = ctx.fresh('cell_i', Z)
        f0, f1 = to_real(fls.at(ci)), to_real(fls.at(ci + 1))
        ctx.assume(z3.And(ci >= 0, ci + 1 < nf, f0 <= fl, fl <= f1, f0 < f1))
        t = (fl - f0) / (f1 - f0)
        v = (1 - t) * to_real(values.at(ci)) + t * to_real(values.at(ci + 1))
        log[-1] = log[-1] + (dict(ci=ci, t=t),)
        return SArr.from_list([v])
    h.I.models['scipy.interpolate.interpn'] = interpn
    return log


def strictly_increasing(h, arr, n):
    def inst(a, b):
        a, b = to_z3(a), to_z3(b)
        h.ctx.assume(z3.Implies(z3.And(a >= 0, a < b, b < n), to_real(arr.at(a)) < to_real(arr.at(b))))
    return inst


@unit('C06', 'interpolator.call', [PM + ':Interpolator.__call__'], replay='contracts.C06:replay_model')
def call_unit(h):
    """Interpolator.__call__ on any complete grid (any number of flight levels; three masses or one): each output is
    the interpn value of its own grid at (fl, mass) [or (fl) for a one-mass table]; at a node it is the node's value,
    inside a cell it lies between the cell's corner values, outside the grid the query is refused."""
    I = h.I
    log = install_interpn(h)
    nf = h.int('n_flight_levels')
    h.assume(nf >= 2, 'at least two flight levels in the phase sub-table')
    fls = SArr.symbolic(h.ctx, 'grid_fl', nf)
    two_d = h.choice(2) == 1
    it = h.new(PM + ':Interpolator', _partial=True)
    fl, mass = h.real('fl'), h.real('mass')
    grids = {}
    if two_d:
        nm = 3
        ms = SArr.symbolic(h.ctx, 'grid_mass', nm)
        h.assume(z3.And(to_real(ms.at(0)) < to_real(ms.at(1)), to_real(ms.at(1)) < to_real(ms.at(2))), 'three distinct masses, sorted')
        for name in ('tas', 'rocd', 'fuel_flow'):
            f = z3.Function('grid_' + name, Z, Z, R)
            grids[name] = Grid2(nf, nm, lambda i, j, f=f: f(i, j))
        it.attrs.update(n_masses=3, xs=(fls, ms), **grids)
    else:
        for name in ('tas', 'rocd', 'fuel_flow'):
            grids[name] = SArr.symbolic(h.ctx, 'grid_' + name, nf)
        it.attrs.update(n_masses=1, xs=(fls,), **grids)
    inc = strictly_increasing(h, fls, nf)
    inc(0, nf - 1)
    try:
        p = I.call(it, [fl, mass], {})
    except PyExc as e:
        out = z3.Or(fl < to_real(fls.at(0)), fl > to_real(fls.at(nf - 1)))
        if two_d:
            out = z3.Or(out, mass < to_real(ms.at(0)), mass > to_real(ms.at(2)))
        h.ensure('only-a-state-outside-the-table-is-refused', z3.And(h.exc_is(e, 'ValueError'), out), note=repr(e.inst))
        return
    ins = z3.And(fl >= to_real(fls.at(0)), fl <= to_real(fls.at(nf - 1)))
    if two_d:
        ins = z3.And(ins, mass >= to_real(ms.at(0)), mass <= to_real(ms.at(2)))
    h.ensure('a-state-outside-the-table-is-refused-not-extrapolated', ins)
    if len(log) != 3:
        h.fail('three-interpolations', f'{len(log)} interpn calls')
        return
    for (points, values, xi, method, cell), name, attr in zip(log, ('tas', 'rocd', 'fuel_flow'), ('true_airspeed', 'rate_of_climb', 'fuel_flow')):
        ok = values is grids[name] and points is it.attrs['xs']
        h.ensure('each-output-interpolates-its-own-grid-on-the-table-axes', bool(ok), note=name)
        if two_d:
            q_ok = isinstance(xi, tuple) and z3.is_expr(xi[0]) and z3.eq(xi[0], fl) and z3.eq(to_z3(xi[1]), mass)
        else:
            q_ok = isinstance(xi, SArr) and z3.eq(to_z3(xi.at(0)), fl)
        h.ensure('queried-at-the-given-flight-level-and-mass', bool(q_ok), note=name)
        v = to_real(I.getattr(p, attr))
        ci = cell['ci']
        inc(ci, ci + 1)
        # node exactness: at a tabulated flight level (and mass) the tabulated value
        i = h.int('node_i')
        h.assume(z3.And(i >= 0, i < nf))
        inc(ci, i), inc(i, ci), inc(ci + 1, i), inc(i, ci + 1)
        if two_d:
            cj = cell['cj']
            j = h.int('node_j')
            h.assume(z3.And(j >= 0, j < 3))
            at_node = z3.And(fl == to_real(fls.at(i)), mass == to_real(ms.at(j)))
            h.ensure('tabulated-value-at-a-tabulated-level-and-mass', z3.Implies(at_node, v == grids[name].at(i, j)), note=name)
            corners = [grids[name].at(ci, cj), grids[name].at(ci + 1, cj), grids[name].at(ci, cj + 1), grids[name].at(ci + 1, cj + 1)]
        else:
            at_node = fl == to_real(fls.at(i))
            h.ensure('tabulated-value-at-a-tabulated-level-and-mass', z3.Implies(at_node, v == to_real(grids[name].at(i))), note=name)
            corners = [to_real(grids[name].at(ci)), to_real(grids[name].at(ci + 1))]
        lo, hi = h.real('bound_lo_' + name), h.real('bound_hi_' + name)
        h.ctx.assume(z3.And(*[z3.And(lo <= c, c <= hi) for c in corners]))
        h.ensure('between-the-surrounding-table-values', z3.And(lo <= v, v <= hi), note=name)


# ------------------------------------------------------------------------------------------------
# Interpolator.__init__: the grid fill, any number of rows
class Col(Model):
    """A DataFrame column: values (numpy array), unique()."""

    def __init__(self, df, name):
        self.df, self.name = df, name

    def py_getattr(self, I, name):
        if name == 'values':
            return self.df.col[self.name]
        if name == 'unique':
            return Builtin('unique', lambda: SArr.symbolic(self.df.h.ctx, 'unique_' + self.name, self.df.count[self.name]))
        raise Unsupported('Series.' + name)


class Row(Model):
    def __init__(self, df, k):
        self.df, self.k = df, k

    def py_getattr(self, I, name):
        if name in self.df.col:
            return self.df.col[name].at(self.k)
        raise Unsupported('row.' + name)


class DF(Model):
    """A phase sub-table as a pandas DataFrame with n rows (n symbolic) and the five columns."""
    type_names = ('pandas.DataFrame',)

    def __init__(self, h, n, n_fl, n_mass):
        self.h, self.n = h, n
        self.col = {c: SArr.symbolic(h.ctx, 'col_' + c, n) for c in ('fl', 'mass', 'tas', 'rocd', 'fuel_flow')}
        # sorted unique coordinate values and the position of a value in them (list.index)
        self.axis = {'fl': SArr.symbolic(h.ctx, 'sorted_unique_fl', n_fl, kind='list'), 'mass': SArr.symbolic(h.ctx, 'sorted_unique_mass', n_mass, kind='list')}
        self.pos = {'fl': z3.Function('index_of_fl', R, Z), 'mass': z3.Function('index_of_mass', R, Z)}
        self.count = {'fl': n_fl, 'mass': n_mass}

    def py_len(self, I):
        return self.n

    def py_getattr(self, I, name):
        if name in self.col:
            return Col(self, name)
        if name == 'itertuples':
            return Builtin('itertuples', lambda: SArr(self.n, lambda k: Row(self, k), kind='list'))
        if name == 'sort_values':
            return Builtin('sort_values', lambda by, **kw: self.sorted_by(I, by, kw))
        raise Unsupported('DataFrame.' + name)

    def sorted_by(self, I, by, kw):
        hook = I.hooks.get('frame_sorted')
        """DataFrame.sort_values(by) by contract: the same rows, permuted (PERM, with inverse INV) so that the key column
        is non-decreasing; for a key column of pairwise distinct values it reads sorted(unique values)."""
        if kw or by not in self.axis:
            raise Unsupported(f'sort_values({by!r}, {kw})')
        import copy
        out = copy.copy(self)
        perm, inv = z3.Function('sort_perm', Z, Z), z3.Function('sort_perm_inverse', Z, Z)
        n, ctx, src = self.n, self.h.ctx, self.col
        out.perm, out.inv, out.parent = perm, inv, self

        def col(c):
            def fn(k):
                kz = to_z3(k)
                ctx.axiom(z3.Implies(z3.And(kz >= 0, kz < n), z3.And(perm(kz) >= 0, perm(kz) < n, inv(perm(kz)) == kz)))
                if c == by and self.h.ctx.entails(to_z3(self.count[by]) == n):
                    # distinct keys: the sorted key column is the sorted list of distinct values
                    ctx.axiom(z3.Implies(z3.And(kz >= 0, kz < n), to_real(src[by].at(perm(kz))) == to_real(self.axis[by].at(kz))))
                return src[c].at(perm(kz))
            return SArr(n, fn)
        out.col = {c: col(c) for c in src}
        if hook is not None:
            hook(out)
        return out


class SortedAxis(Model):
    """The result of sorted(float(v) for v in col.unique())."""
    type_names = ('list',)

    def __init__(self, df, name):
        self.df, self.name = df, name
        self.arr = df.axis[name]

    def py_len(self, I):
        return self.df.count[self.name]

    def py_getattr(self, I, name):
        if name == 'index':
            def index(v):
                v = to_real(v)
                p = self.df.pos[self.name](v)
                # precondition of list.index: v occurs -- true for a value taken from this column
                I.ctx.axiom(z3.And(p >= 0, p < to_z3(self.df.count[self.name]), to_real(self.arr.at(p)) == v))
                return p
            return Builtin('index', index)
        raise Unsupported('list.' + name)

    def as_array(self):
        return self.arr.as_kind('ndarray')


@unit('C06', 'interpolator.grid-fill', [PM + ':Interpolator.__init__'], replay='contracts.C06:replay_nodes', timeout_ms=30000)
def fill_unit(h):
    fill(h, 3)


@unit('C06', 'interpolator.grid-fill.one-mass', [PM + ':Interpolator.__init__'], replay='contracts.C06:replay_nodes', timeout_ms=30000)
def fill_unit_one_mass(h):
    """The descent sub-table (one mass): the value arrays must be aligned with the sorted flight levels."""
    fill(h, 1)


def fill(h, n_mass):
    """Interpolator.__init__ on a sub-table of any number of rows whose (flight level, mass) pairs are pairwise
    distinct (what PerformanceTable validation must guarantee): after the fill loop the grid holds, at the node of
    every row's flight level and mass, that row's TAS, ROCD and fuel flow; the axes are the sorted distinct
    flight levels and masses."""
    from pyvc.loops import invariant_for_range
    I = h.I
    n = h.int('n_rows')
    nf = h.int('n_flight_levels')
    nm = h.int('n_masses')
    h.assume(z3.And(n >= 1, nf >= 1, nm == n_mass, n == nf * n_mass), f'a complete sub-table: rows = flight levels x {n_mass}')
    df = DF(h, n, nf, nm)

    orig_sorted = I.builtins['sorted']

    def sorted_model(it, **kw):
        # sorted(float(v) for v in df.<c>.unique()): recognised by the element terms unique_<c>(k)
        if isinstance(it, SArr) and not isinstance(it.length, int):
            e = it.at(z3.IntVal(0))
            if z3.is_expr(e) and e.decl().name().startswith('unique_'):
                return SortedAxis(df, e.decl().name()[len('unique_'):])
        return orig_sorted.fn(it, **kw)
    I.builtins['sorted'] = Builtin('sorted', sorted_model)
    h.trust('pandas / builtins: Series.unique() are the distinct values of the column; sorted(float(v) for v in unique) is their strictly '
            'increasing list; list.index(v) is the position of v; DataFrame.itertuples() yields the rows in order; np.zeros((a, b)) is an a x b grid of zeros')
    def np_array(I_, x, **k):
        if isinstance(x, SortedAxis):
            return x.as_array()
        raise Unsupported('np.array of ' + type(x).__name__)
    I.models['numpy.array'] = np_array
    I.models['numpy.zeros'] = lambda I_, shape, **k: Grid2(shape[0], shape[1], lambda i, j: z3.RealVal(0)) if isinstance(shape, tuple) and len(shape) == 2 \
        else SArr(shape, lambda k_: Fraction(0))
    I.builtins['zip'] = Builtin('zip', lambda a, b: SArr(I.len_(a), lambda k: (a.at(k), b.at(k)), kind='list'))
    I.builtins['list'] = Builtin('list', lambda x=None: x if isinstance(x, SArr) else ([] if x is None else list(x)))

    # pairwise distinct (fl, mass) pairs: instances for the index pairs asked for
    def distinct(a, b):
        a, b = to_z3(a), to_z3(b)
        h.ctx.assume(z3.Implies(z3.And(a >= 0, b >= 0, a < n, b < n, a != b),
                                z3.Or(to_real(df.col['fl'].at(a)) != to_real(df.col['fl'].at(b)),
                                      to_real(df.col['mass'].at(a)) != to_real(df.col['mass'].at(b)))))
    r = h.int('any_row')
    h.assume(z3.And(r >= 0, r < n))
    state = {}
    I.hooks['frame_sorted'] = lambda f: state.__setitem__('sorted', f)

    def node(k):
        out = []
        for c in ('fl', 'mass'):
            v = to_real(df.col[c].at(k))
            p = df.pos[c](v)
            # list.index on a value of the column: its position in the sorted distinct values
            h.ctx.assume(z3.Implies(z3.And(to_z3(k) >= 0, to_z3(k) < n), z3.And(p >= 0, p < to_z3(df.count[c]), to_real(df.axis[c].at(p)) == v)))
            out.append(p)
        return tuple(out)

    def inv(I_, fr, i):
        it = fr.locals.get('self')
        g = {c: it.attrs.get(c) for c in ('tas', 'rocd', 'fuel_flow')}
        if not all(isinstance(v, Grid2) for v in g.values()):
            return z3.BoolVal(False)
        state['grids'] = g
        ni, nj = node(r)
        distinct(i, r)          # instance of the precondition for the row this iteration handles
        # the generic row r, once processed (r < i), is in place
        return z3.Implies(r < to_z3(i), z3.And(*[g[c].at(ni, nj) == to_real(df.col[c].at(r)) for c in g]))

    def havoc(I_, fr):
        it = fr.locals.get('self')
        state['hv'] = state.get('hv', 0) + 1
        for c in ('tas', 'rocd', 'fuel_flow'):
            f = z3.Function(f'havoc{state["hv"]}_grid_{c}', Z, Z, R)
            old = it.attrs[c]
            it.attrs[c] = Grid2(old.ni, old.nj, lambda i, j, f=f: f(i, j))
        for k in ('i', 'j', 'row'):
            fr.locals.pop(k, None)

    base = invariant_for_range('Interpolator.__init__.fill', inv, havoc)

    def handler(I_, st, fr):
        return base(I_, st, fr)
    I.loop_invariants[(PM + ':Interpolator.__init__', 0)] = handler
    # the arbitrary iteration k writes the node of row k: distinct from row r's node because the pairs differ and
    # index() is injective on the column's values (axis[index(v)] == v)
    try:
        it = h.construct(PM + ':Interpolator', df)
    except PyExc as e:
        h.fail('a-complete-sub-table-is-accepted', f'{e.inst!r} at {e.inst.where}')
        return
    ni, nj = node(r)
    g = {c: it.attrs.get(c) for c in ('tas', 'rocd', 'fuel_flow')}
    if n_mass == 1:
        xs = it.attrs.get('xs')
        h.ensure('axes-are-the-sorted-distinct-flight-levels-and-masses', isinstance(xs, tuple) and len(xs) == 1 and xs[0].fn is df.axis['fl'].fn)
        # if the frame was sorted: row r sits at position INV(r) of the sorted frame, PERM(INV(r)) == r
        srt = state.get('sorted')
        if srt is not None:
            k = srt.inv(r)
            h.ctx.assume(z3.And(k >= 0, k < n, srt.perm(k) == r))
            srt.col['fl'].at(k)          # instance of the sort contract at position k
            inc = strictly_increasing(h, df.axis['fl'], nf)
            inc(k, ni), inc(ni, k)
        for c in g:
            if not isinstance(g[c], SArr):
                h.fail('value-arrays-are-one-per-flight-level', c)
                return
            h.ensure('every-rows-values-sit-at-the-node-of-its-flight-level-and-mass', to_real(g[c].at(ni)) == to_real(df.col[c].at(r)), note=c)
        h.ensure('one-mass-recorded', to_z3(it.attrs.get('n_masses')) == 1)
        return
    for c in g:
        if not isinstance(g[c], Grid2):
            h.fail('grids-are-flight-level-by-mass', c)
            return
        h.ensure('every-rows-values-sit-at-the-node-of-its-flight-level-and-mass', g[c].at(ni, nj) == to_real(df.col[c].at(r)), note=c)
    xs = it.attrs.get('xs')
    h.ensure('axes-are-the-sorted-distinct-flight-levels-and-masses',
             isinstance(xs, tuple) and len(xs) == 2 and xs[0].fn is df.axis['fl'].fn and xs[1].fn is df.axis['mass'].fn)
    h.ensure('three-masses-recorded', to_z3(it.attrs.get('n_masses')) == 3)


# ------------------------------------------------------------------------------------------------
@unit('C06', 'build-performance-table', ['AEIC.commands.make_performance_model:build_performance_table'], replay='contracts.C06:replay_ptf')
def build_table_unit(h):
    """Every PTF climb row yields its three mass rows, every cruise row three (ROCD 0), every descent row one at the
    nominal mass, with the row's own values; nothing else is produced (1..2 rows per phase, values symbolic; rows are
    handled independently of each other)."""
    I = h.I
    h.trust('sorted(rows, key=...) returns a permutation of rows')
    I.builtins['sorted'] = Builtin('sorted', lambda it, **kw: list(it))
    for name in ('click', 'tomli_w'):
        pass
    lo, nom, hi = h.real('low_mass'), h.real('nominal_mass'), h.real('high_mass')
    P = 'AEIC.parsers.ptf_reader'
    ncl, ncr, nde = 1 + h.choice(2), 1 + h.choice(2), 1 + h.choice(2)
    climb = [h.new(P + ':ClimbPhaseData', fl=h.real(f'cl{i}_fl'), tas=h.real(f'cl{i}_tas'), rocd_low=h.real(f'cl{i}_rl'), rocd_nom=h.real(f'cl{i}_rn'),
                   rocd_high=h.real(f'cl{i}_rh'), fuel_flow_nom=h.real(f'cl{i}_ff')) for i in range(ncl)]
    cruise = [h.new(P + ':CruisePhaseData', fl=h.real(f'cr{i}_fl'), tas=h.real(f'cr{i}_tas'), fuel_flow_low=h.real(f'cr{i}_fl_'), fuel_flow_nom=h.real(f'cr{i}_fn'),
                    fuel_flow_high=h.real(f'cr{i}_fh')) for i in range(ncr)]
    descent = [h.new(P + ':DescentPhaseData', fl=h.real(f'de{i}_fl'), tas=h.real(f'de{i}_tas'), rocd_nom=h.real(f'de{i}_rn'), fuel_flow_nom=h.real(f'de{i}_ff'))
               for i in range(nde)]
    ptf = h.new(P + ':PTFData', _partial=True, low_mass=lo, nominal_mass=nom, high_mass=hi, climb=climb, cruise=cruise, descent=descent)
    fq = 'AEIC.commands.make_performance_model:build_performance_table'
    try:
        out = h.call(fq, ptf)
    except Unsupported:
        raise
    cols, data = out['cols'], out['data']
    ix = {c: cols.index(c) for c in ('fl', 'mass', 'tas', 'rocd', 'fuel_flow')}
    g = lambda o, a: o.attrs[a]   # noqa
    want = []
    for r in climb:
        want += [(g(r, 'fl'), lo, g(r, 'tas'), g(r, 'rocd_low'), g(r, 'fuel_flow_nom')), (g(r, 'fl'), nom, g(r, 'tas'), g(r, 'rocd_nom'), g(r, 'fuel_flow_nom')),
                 (g(r, 'fl'), hi, g(r, 'tas'), g(r, 'rocd_high'), g(r, 'fuel_flow_nom'))]
    for r in cruise:
        want += [(g(r, 'fl'), lo, g(r, 'tas'), z3.RealVal(0), g(r, 'fuel_flow_low')), (g(r, 'fl'), nom, g(r, 'tas'), z3.RealVal(0), g(r, 'fuel_flow_nom')),
                 (g(r, 'fl'), hi, g(r, 'tas'), z3.RealVal(0), g(r, 'fuel_flow_high'))]
    for r in descent:
        want += [(g(r, 'fl'), nom, g(r, 'tas'), g(r, 'rocd_nom'), g(r, 'fuel_flow_nom'))]
    h.ensure('one-table-row-per-ptf-row-and-mass', len(data) == len(want), note=f'{len(data)} rows, expected {len(want)}')
    if len(data) != len(want):
        return
    # the construction order is the order of `want` (sorted() is modelled as a permutation that keeps the list)
    conj = []
    for row, w in zip(data, want):
        conj.append(z3.And(*[to_real(row[ix[c]]) == to_real(w[k]) for k, c in enumerate(('fl', 'mass', 'tas', 'rocd', 'fuel_flow'))]))
    h.ensure('table-rows-carry-the-ptf-rows-values', z3.And(*conj))


# ------------------------------------------------------------------------------------------------
def _base_model_dict(root):
    import os
    import tomllib
    with open(os.environ.get('AEIC_SRC', '/repo/src') + '/AEIC/data/performance/sample_performance_model.toml', 'rb') as f:
        return tomllib.load(f)


def _gen_table(rnd, n_fl=None, order='random'):
    """A valid legacy table: FL set, three masses, values obeying the documented single-variable dependencies."""
    n_fl = n_fl or rnd.randint(2, 5)
    fls = sorted(rnd.sample(range(0, 450, 10), n_fl))
    masses = sorted(rnd.sample(range(40000, 90000, 500), 3))
    rows = []
    for fl in fls:
        tas_c, tas_z, tas_d = (100 + rnd.random() * 150 for _ in range(3))
        ffc, ffd = 1 + rnd.random(), 0.1 + rnd.random() * 0.3
        rd = -(3 + rnd.random() * 10)
        for m in masses:
            rows.append([fl, m, tas_c, 5 + rnd.random() * 20, ffc])          # climb: rocd by (fl, mass), ff by fl
            rows.append([fl, m, tas_z, 0.0, 0.5 + rnd.random()])             # cruise: ff by (fl, mass)
        rows.append([fl, masses[1], tas_d, rd, ffd])                          # descent: nominal mass only
    if order == 'random':
        rnd.shuffle(rows)
    elif order == 'fl-major':
        rows.sort(key=lambda r: (r[0], r[1]))
    elif order == 'descending':
        rows.sort(key=lambda r: (-r[1], -r[0]))
    else:
        rows.sort(key=lambda r: (r[1], r[0], -r[3]))
    return fls, masses, rows


def native_model_check(payload):
    import math
    import os
    import random
    root = os.environ.get('AEIC_SRC', '/repo/src').rsplit('/src', 1)[0]
    if not os.path.isdir(root + '/tests/data'):
        root = '/repo'
    os.environ['AEIC_PATH'] = root + '/tests/data'
    from AEIC.config import Config
    Config.reset()
    Config.load(data_path_overrides=[root + '/tests/data'])
    from AEIC.performance.models import PerformanceModel
    from AEIC.performance.types import AircraftState, SimpleFlightRules as SFR
    from AEIC.units import FL_TO_METERS, METERS_TO_FL
    rnd = random.Random((payload or {}).get('seed', 0))
    n = (payload or {}).get('n', 12)
    only = (payload or {}).get('only')
    base = _base_model_dict(root)
    viol, cases = [], 0

    def add(what, **kw):
        if only is None or what in only:
            viol.append(dict(what=what, **kw))

    def phase_of(r):
        return SFR.CLIMB if r[3] > 1e-6 else SFR.DESCEND if r[3] < -1e-6 else SFR.CRUISE
    try:
        for case in range(n):
            order = ['random', 'fl-major', 'descending', 'mass-major'][case % 4]
            fls, masses, rows = _gen_table(rnd, order=order)
            if case < 3:
                # tables whose lowest / highest level is one of those that the metre conversion does not return exactly
                # (e.g. FL90 -> 89.99999999999999, FL230 -> 230.00000000000003 with the library's factors)
                lows = [f for f in range(0, 300, 5) if f * FL_TO_METERS * METERS_TO_FL < f]
                highs = [f for f in range(100, 600, 5) if f * FL_TO_METERS * METERS_TO_FL > f]
                if lows and highs:
                    lo_fl = rnd.choice(lows)
                    hi_fl = rnd.choice([f for f in highs if f > lo_fl])
                    mid = sorted(rnd.sample(range(lo_fl + 1, hi_fl), min(2, hi_fl - lo_fl - 1)))
                    remap = dict(zip(fls, sorted({lo_fl, hi_fl, *mid})[:len(fls) - 1] + [hi_fl])) if len(fls) >= 2 else {}
                    if len(set(remap.values())) == len(fls):
                        rows = [[remap[r[0]]] + list(r[1:]) for r in rows]
                        fls = sorted(remap.values())
            d = dict(base)
            d['flight_performance'] = dict(cols=['fl', 'mass', 'tas', 'rocd', 'fuel_flow'], data=[list(r) for r in rows])
            d['maximum_altitude_ft'] = int(max(fls) * 100)
            cases += 1
            try:
                pm = PerformanceModel.from_data(d)
            except Exception as e:   # noqa
                add('valid-table-is-accepted', input=dict(order=order, fls=fls, masses=masses), observed=f'{type(e).__name__}: {e}')
                continue
            tag = dict(order=order, fls=fls, masses=masses)
            # nodes, flight level given in metres with the library's own factor
            for r in rows:
                ph = phase_of(r)
                alt = r[0] * FL_TO_METERS
                # exactly what the statement says: the tabulated level expressed in metres with the library's own factor (the few ulp
                # that the product may be off by are the library's business: the level must still be found, with its values)
                try:
                    p = pm.evaluate(AircraftState(altitude=alt, aircraft_mass=r[1]), ph)
                except Exception as e:   # noqa
                    add('tabulated-level-in-metres-is-inside-the-table', input=tag, observed=f'FL{r[0]} ({alt!r} m), mass {r[1]}, {ph.value}: {type(e).__name__}: {e}')
                    continue
                got, want = (p.true_airspeed, p.rate_of_climb, p.fuel_flow), (r[2], r[3], r[4])
                if not all(math.isclose(a, b, rel_tol=1e-6, abs_tol=1e-9) for a, b in zip(got, want)):
                    add('tabulated-value-at-a-tabulated-level-and-mass', input=tag, observed=f'FL{r[0]} mass {r[1]} {ph.value}: got {got}, table {want}')
            # symbolic masses
            for ph in (SFR.CLIMB, SFR.CRUISE):
                fl = fls[0]
                for sym, m in (('min', masses[0]), ('max', masses[2])):
                    a = pm.evaluate(AircraftState(altitude=fl * 30.48 + 0.5, aircraft_mass=sym), ph)
                    b = pm.evaluate(AircraftState(altitude=fl * 30.48 + 0.5, aircraft_mass=m), ph)
                    if a != b:
                        add('symbolic-min-max-mass', input=tag, observed=f'{sym}: {a} vs {b}')
            # between nodes: bounded by the cell's corner values; never extrapolated outside
            by = {(r[0], r[1], phase_of(r)): r for r in rows}
            for _ in range(6):
                k = rnd.randrange(len(fls) - 1)
                fl = fls[k] + rnd.random() * (fls[k + 1] - fls[k])
                j = rnd.randrange(2)
                m = masses[j] + rnd.random() * (masses[j + 1] - masses[j])
                for ph in (SFR.CLIMB, SFR.CRUISE, SFR.DESCEND):
                    ms = [masses[1]] if ph is SFR.DESCEND else [masses[j], masses[j + 1]]
                    corners = [by[(f, mm, ph)] for f in (fls[k], fls[k + 1]) for mm in ms]
                    p = pm.evaluate(AircraftState(altitude=fl * 30.48, aircraft_mass=m), ph)
                    for idx, v in ((2, p.true_airspeed), (3, p.rate_of_climb), (4, p.fuel_flow)):
                        lo, hi = min(c[idx] for c in corners), max(c[idx] for c in corners)
                        if not (lo - 1e-9 <= v <= hi + 1e-9):
                            add('between-the-surrounding-table-values', input=tag, observed=f'{ph.value} FL{fl:.2f} mass {m:.0f}: {v} outside [{lo}, {hi}]')
            for ph in (SFR.CLIMB, SFR.CRUISE, SFR.DESCEND):
                # "outside" starts right at the edge: a millimetre is seven orders of magnitude above the rounding residue of the
                # unit conversion (a few ulp), so it is outside for every reading of the statement
                for alt, m, why in tuple((fls[-1] * 30.48 + dz, masses[1], f'{dz} m above the top level') for dz in (50.0, 1.0, 0.05, 0.001)) + \
                        tuple((fls[0] * 30.48 - dz, masses[1], f'{dz} m below the bottom level') for dz in (50.0, 1.0, 0.05, 0.001)) + \
                        (((fls[0] * 30.48 + 1.0, masses[2] + 100.0, 'above the heaviest mass'), (fls[0] * 30.48 + 1.0, masses[0] - 100.0, 'below the lightest mass'))
                         if ph is not SFR.DESCEND else ()):
                    if alt < 0:
                        continue
                    try:
                        p = pm.evaluate(AircraftState(altitude=alt, aircraft_mass=m), ph)
                        add('a-state-outside-the-table-is-refused-not-extrapolated', input=tag, observed=f'{ph.value} {why}: returned {p}')
                    except ValueError:
                        pass
            # incomplete / duplicated grids must be refused at load time
            for kind in ('hole', 'duplicate-over-another'):
                for ph in (SFR.CLIMB, SFR.CRUISE, SFR.DESCEND):
                    cand = [i for i, r in enumerate(rows) if phase_of(r) is ph]
                    rows2 = [list(r) for r in rows]
                    i = rnd.choice(cand)
                    if kind == 'hole':
                        if ph is SFR.DESCEND:
                            continue        # one mass: the remaining levels still form a complete grid
                        del rows2[i]
                    else:
                        others = [q for q in cand if q != i and (rows[q][0], rows[q][1]) != (rows[i][0], rows[i][1])]
                        if not others:
                            continue
                        q = rnd.choice(others)
                        # row i now repeats row q's (fl, mass): one pair twice, one missing; keep the single-variable rules
                        rows2[i] = list(rows[q])
                    d2 = dict(d)
                    d2['flight_performance'] = dict(cols=['fl', 'mass', 'tas', 'rocd', 'fuel_flow'], data=rows2)
                    try:
                        PerformanceModel.from_data(d2)
                        add('incomplete-grid-is-refused-at-load-time', input=dict(tag, kind=kind, phase=ph.value, row=rows[i]), observed='accepted')
                    except Exception:   # noqa
                        pass
            if len(viol) >= 8:
                break
        return dict(cases=cases, violations=viol[:8], reproduced=bool(viol), observed=[f"{v['what']}: {v['observed']}" for v in viol[:6]])
    finally:
        Config.reset()


def replay_model(payload):
    return native_model_check(dict(seed=5, n=8))


def replay_nodes(payload):
    return native_model_check(dict(seed=5, n=8, only=['tabulated-value-at-a-tabulated-level-and-mass']))


def _ptf_text(rnd, n_rows):
    lo, nom, hi = sorted(rnd.sample(range(40000, 90000), 3))
    head = ['BADA PERFORMANCE FILE                                     Mar 09 2025', '', 'AC/Type: T' + str(rnd.randint(100, 999)) + '__', '',
            ' Speeds:   CAS(LO/HI)  Mach   Mass Levels [kg]         Temperature:  ISA',
            f' climb   - 250/300     0.80   low     -   {lo}',
            f' cruise  - 250/280     0.80   nominal -   {nom}        Max Alt. [ft]:  41,000',
            f' descent - 250/290     0.80   high    -   {hi}        Max Payload [kg]:  22422',
            '=' * 90, ' FL |          CRUISE           |               CLIMB               |       DESCENT', '=' * 90]
    rows, lines = [], []
    fls = sorted(rnd.sample(range(0, 430, 5), n_rows))
    if rnd.random() < 0.6:
        fls[0] = 0          # BADA tables start at flight level 0
    for fl in fls:
        has_cruise = fl >= 30 or rnd.random() < 0.3
        cr = (rnd.randint(200, 480), round(rnd.uniform(20, 90), 2), round(rnd.uniform(20, 90), 2), round(rnd.uniform(20, 90), 1)) if has_cruise else None
        cl = (rnd.randint(150, 480), rnd.randint(500, 8000), rnd.randint(500, 6000), rnd.randint(300, 5000), round(rnd.uniform(40, 100), 2))
        de = (rnd.randint(140, 480), rnd.randint(500, 3000), round(rnd.uniform(5, 30), 2))
        c_txt = f'  {cr[0]}    {cr[1]} {cr[2]} {cr[3]} ' if cr else ' ' * 27
        lines.append(f'{fl:3d} |{c_txt}|  {cl[0]}    {cl[1]}  {cl[2]}  {cl[3]}   {cl[4]}  |  {de[0]}   {de[1]}   {de[2]}')
        lines.append('    |                           |                                   |')
        rows.append((fl, cr, cl, de))
    return '\n'.join(head + lines) + '\n', (lo, nom, hi), rows


def native_ptf_check(payload):
    """Generated well-formed PTF files -> PTFData.load -> build_performance_table: every PTF row is reproduced."""
    import math
    import os
    import random
    import tempfile
    root = os.environ.get('AEIC_SRC', '/repo/src').rsplit('/src', 1)[0]
    if not os.path.isdir(root + '/tests/data'):
        root = '/repo'
    os.environ['AEIC_PATH'] = root + '/tests/data'
    from AEIC.config import Config
    Config.reset()
    viol, cases = [], 0
    try:
        # the command module loads the default configuration when it is imported
        from AEIC.commands.make_performance_model import build_performance_table
        from AEIC.parsers.ptf_reader import PTFData
        rnd = random.Random((payload or {}).get('seed', 0))
        KT, FPM = 0.514444, 0.3048 / 60
        for case in range((payload or {}).get('n', 10)):
            text, (lo, nom, hi), rows = _ptf_text(rnd, rnd.randint(2, 6))
            with tempfile.NamedTemporaryFile('w', suffix='.PTF', delete=False, dir=os.environ.get('VERIF_SCRATCH')) as f:
                f.write(text)
                path = f.name
            try:
                cases += 1
                ptf = PTFData.load(path)
                t = build_performance_table(ptf)
            except Exception as e:   # noqa
                viol.append(dict(what='well-formed-ptf-file-is-read', observed=f'{type(e).__name__}: {e}', input=text[:400]))
                continue
            finally:
                os.unlink(path)
            ix = {c: t['cols'].index(c) for c in ('fl', 'mass', 'tas', 'rocd', 'fuel_flow')}
            got = sorted(tuple(round(r[ix[c]], 9) for c in ('fl', 'mass', 'tas', 'rocd', 'fuel_flow')) for r in t['data'])
            want = []
            for fl, cr, cl, de in rows:
                for m, rocd in ((lo, cl[1]), (nom, cl[2]), (hi, cl[3])):
                    want.append((fl, m, cl[0] * KT, rocd * FPM, cl[4] / 60))
                if cr:
                    for m, ff in ((lo, cr[1]), (nom, cr[2]), (hi, cr[3])):
                        want.append((fl, m, cr[0] * KT, 0.0, ff / 60))
                want.append((fl, nom, de[0] * KT, -de[1] * FPM, de[2] / 60))
            want = sorted(tuple(round(x, 9) for x in w) for w in want)
            if len(got) != len(want) or any(not all(math.isclose(a, b, rel_tol=1e-9, abs_tol=1e-9) for a, b in zip(g, w)) for g, w in zip(got, want)):
                miss = [w for w in want if not any(all(math.isclose(a, b, rel_tol=1e-9, abs_tol=1e-9) for a, b in zip(g, w)) for g in got)][:2]
                viol.append(dict(what='model-table-reproduces-every-ptf-row', observed=f'{len(got)} rows, expected {len(want)}; not reproduced: {miss}', input=text[:600]))
            if (ptf.low_mass, ptf.nominal_mass, ptf.high_mass) != (lo, nom, hi) or ptf.maximum_altitude_ft != 41000:
                viol.append(dict(what='ptf-header-values', observed=[ptf.low_mass, ptf.nominal_mass, ptf.high_mass, ptf.maximum_altitude_ft], input=text[:400]))
        return dict(cases=cases, violations=viol[:6], reproduced=bool(viol), observed=[f"{v['what']}: {v['observed']}" for v in viol[:4]])
    finally:
        Config.reset()


def replay_ptf(payload):
    return native_ptf_check(dict(seed=2, n=6))


def bounded_checks(tier, seed):
    from pyvc.cli import run_native
    out = []
    r = run_native('contracts.C06', 'native_model_check', dict(seed=seed, n=(12 if tier == 'quick' else 200)))
    out.append(dict(name='generated valid tables (2..5 flight levels, three masses, four row orders) loaded by the real PerformanceModel.from_data and queried',
                    cases=r.get('cases', 0), distinct_nontrivial=r.get('cases', 0), bound=f"{r.get('cases', 0)} tables (seed {seed})",
                    rule='node exactness with levels given in metres, bounds inside cells, refusal outside, symbolic masses, holes / duplicated pairs refused at load',
                    violations=[dict(obligation='bounded/' + v['what'], input=v.get('input'), observed=v.get('observed'), replay_fn='contracts.C06:native_model_check')
                                for v in r.get('violations', [])[:4]], error=r.get('error')))
    r = run_native('contracts.C06', 'native_ptf_check', dict(seed=seed, n=(10 if tier == 'quick' else 200)))
    out.append(dict(name='generated well-formed PTF texts through the real PTFData.load and build_performance_table',
                    cases=r.get('cases', 0), distinct_nontrivial=r.get('cases', 0), bound=f"{r.get('cases', 0)} files of 2..6 levels (seed {seed})",
                    rule='every PTF row reproduced after unit conversion; header values', violations=[dict(obligation='bounded/' + v['what'], input=v.get('input'),
                    observed=v.get('observed'), replay_fn='contracts.C06:native_ptf_check') for v in r.get('violations', [])[:4]], error=r.get('error')))
    return out
