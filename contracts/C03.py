"""C03 -- what is stored in a trajectory store is what is read back (value layer).

Functions under contract: TrajectoryStore._write_to_nc_var, _read_from_nc_var (all six dimension
cases = the arms of their match statements), module _create_dimensions (species / thrust-mode
dimensions), executed on a ghost NetCDF variable: a map (row, species slot, thrust-mode slot) -> value
with a fill value for unwritten slots and a fixed species-dimension length (writing beyond it raises,
as netCDF4 does).  Values are the real SpeciesValues / ThrustModeValues classes of the repo holding
symbolic reals or symbolic-length arrays.

Species lists: the file's species list is one of a set of representative lists (empty, a prefix of the
enum, non-prefix lists, a single late member); the value's species are *every* subset of the file's
list (enumerated by path choices).  Thrust-mode maps are built in every rotation of insertion order.
"""
from __future__ import annotations

import z3

from contracts.storemodel import TS
from pyvc.models.arrays import SArr
from pyvc.source import Unsupported
from pyvc.values import Builtin, EnumMember, Ext, Model, Obj, PyExc, to_real, to_z3
from pyvc.verify import unit

LEVEL = 'other'
EXPLANATION = ('read(write(v)) = v for each of the six dimension cases over a ghost NetCDF variable, with key-set equality '
               '(none lost, none invented) and row/slot frame conditions; species lists enumerated over representative '
               'lists x all subsets.')
FUNCS = [TS + '._write_data', TS + '._write_to_nc_var', TS + '._read_from_nc_var', 'AEIC.trajectories.store:_create_dimensions']
FILL = z3.Real('netcdf_fill_value')
MASKED = z3.Real('numpy_ma_masked_constant')       # what an auto-masking variable returns for a fill slot: equal to nothing
SPECIES_LISTS = {
    'prefix(CO2,H2O)': ['CO2', 'H2O'],
    'non-prefix(CO2,NOx,SO4)': ['CO2', 'NOx', 'SO4'],
    'single-late(PMvol)': ['PMvol'],
    'gap(H2O,HC)': ['H2O', 'HC'],
}


class NcVar(Model):
    """Ghost netCDF4.Variable with dimensions (trajectory[, species][, thrust_mode])."""

    def __init__(self, I, n_species, n_modes, vlen=False):
        self.I = I
        self.vlen = vlen
        self.n_species, self.n_modes = n_species, n_modes
        I.ctx.assume(MASKED != FILL)
        self.cells = {}        # (si, ti) -> (row, value)   for the row under test
        self.rows_written = []
        # netCDF4 masks fill values on reading unless told otherwise (library default for every variable of a file that was
        # created or opened without further ado): an unwritten slot then reads as the masked constant, not as the fill value
        self.auto_mask = True

    def _split(self, idx):
        if not isinstance(idx, tuple):
            idx = (idx,)
        row = idx[0]
        rest = list(idx[1:])
        si = ti = None
        if self.n_species is not None:
            si = rest.pop(0) if rest else None
        if self.n_modes is not None:
            ti = rest.pop(0) if rest else None
        if rest:
            self.I.raise_('IndexError', 'too many indices for variable')
        return row, si, ti

    def py_setitem(self, I, idx, val):
        row, si, ti = self._split(idx)
        if self.n_species is not None:
            if si is None:
                raise Unsupported('whole-row write of a species variable')
            if not (0 <= si < self.n_species):
                I.raise_('RuntimeError', 'NetCDF: Index exceeds dimension bound')
        if self.n_modes is not None and ti is not None and not (0 <= ti < self.n_modes):
            I.raise_('RuntimeError', 'NetCDF: Index exceeds dimension bound')
        self.rows_written.append(row)
        self.cells[(si, ti)] = (row, val)

    def py_getitem(self, I, idx):
        row, si, ti = self._split(idx)
        if self.n_species is not None and si is not None and not (0 <= si < self.n_species):
            I.raise_('IndexError', 'index exceeds dimension bounds')
        if self.n_modes is not None and ti is not None and not (0 <= ti < self.n_modes):
            I.raise_('IndexError', 'index exceeds dimension bounds')
        if (si, ti) in self.cells:
            r, v = self.cells[(si, ti)]
            same = I.compare('==', r, row)
            if same is True:
                return v
            if same is False:
                return MASKED if self.auto_mask else FILL
            if I.ctx.branch(same):
                return v
        # never written: fill value, or an empty array for a variable-length cell (observed natively)
        if self.vlen:
            return SArr(0, lambda k: FILL)
        return MASKED if self.auto_mask else FILL

    def py_getattr(self, I, name):
        if name == 'set_auto_mask':
            def set_auto_mask(flag):
                self.auto_mask = bool(flag)
            return Builtin('set_auto_mask', set_auto_mask, pure=False)
        if name == 'get_fill_value':
            return Builtin('get_fill_value', lambda: None if self.vlen else FILL)
        raise Unsupported('Variable.' + name)


class FieldStub(Model):
    def __init__(self, dims, required=True):
        self.dims, self.required = dims, required

    def py_getattr(self, I, name):
        if name == 'dimensions':
            return self.dims
        if name == 'required':
            return self.required
        raise Unsupported('FieldMetadata.' + name)


def enums(h):
    I = h.I
    Species = I.lookup_fq('AEIC.types.species:Species')
    TM = I.lookup_fq('AEIC.performance.types:ThrustMode')
    Dimension = I.lookup_fq('AEIC.storage.dimensions:Dimension')
    Dimensions = I.lookup_fq('AEIC.storage.dimensions:Dimensions')
    sp = {m.name: m for m in Species.members}
    tm = list(TM.members)
    dm = {m.name: m for m in Dimension.members}
    return I, Species, TM, sp, tm, dm, Dimensions


def subsets_by_choice(h, items):
    return [x for x in items if h.choice(2) == 1]


def make_store_obj(h):
    return h.new(TS, _partial=True)


class FsOne(Model):
    def __init__(self, field):
        self.field = field

    def py_getitem(self, I, k):
        return self.field


class GroupOne(Model):
    def __init__(self, var):
        self.var = var

    def py_getattr(self, I, name):
        if name == 'variables':
            return {'field': self.var}
        raise Unsupported('Group.' + name)


class DataOne(Model):
    def __init__(self, val):
        self.val = val

    def py_getattr(self, I, name):
        if name == 'field':
            return self.val
        raise Unsupported('data.' + name)


class AnyIndexVar(Model):
    def py_setitem(self, I, idx, val):
        return None


def write_through_write_data(h, st, var, row, field, val, file_species):
    """Write via the real _write_data (the caller of _write_to_nc_var), so that whatever the two
    functions pass between them is theirs to decide."""
    I = h.I
    h.summary('AEIC.storage.field_sets:FieldSet.from_registry', lambda I_, fi, a, k: FsOne(field))
    NcFiles = I.lookup_fq(TS + '.NcFiles')
    ncf = I.call(NcFiles, [], dict(path=['f.nc'], fieldsets={'fs'}, dataset=[None], traj_dim=[None], traj_var=[AnyIndexVar()],
                                   species=file_species, groups={'fs': [GroupOne(var)]}, size_index=None))
    h.method(st, '_write_data', index=row, data=DataOne(val), single_nc_file=ncf, fieldsets=['fs'])


def scalar(h, name):
    v = h.real(name)
    h.assume(v != FILL, 'stored scalars differ from the variable\'s fill value')
    return v


def roundtrip(case):
    def u(h):
        I, Species, TM, sp, tm, dm, Dimensions = enums(h)
        st = make_store_obj(h)
        has_sp, has_tm, has_pt = case
        dims = [dm['TRAJECTORY']] + ([dm['SPECIES']] if has_sp else []) + ([dm['THRUST_MODE']] if has_tm else []) + \
               ([dm['POINT']] if has_pt else [])
        field = FieldStub(I.call(Dimensions, dims, {}))
        SV = I.lookup_fq('AEIC.types.species:SpeciesValues')
        TMV = I.lookup_fq('AEIC.performance.types:ThrustModeValues')
        keys = list(SPECIES_LISTS)
        file_species = [sp[n] for n in SPECIES_LISTS[keys[h.choice(len(keys))]]] if has_sp else []
        h.ctx.named['file_species'] = z3.StringVal(','.join(m.name for m in file_species))
        var = NcVar(I, len(file_species) if has_sp else None, len(tm) if has_tm else None, vlen=has_pt)
        row = h.int('row')
        h.assume(row >= 0)
        n_points = h.int('n_points')
        h.assume(n_points >= 1, 'a trajectory has at least one point')

        def leaf(tag):
            if has_pt:
                a = SArr.symbolic(h.ctx, 'points_' + tag, n_points)
                h.assume(a.at(0) != FILL, 'stored arrays are not entirely fill values')
                return a
            return scalar(h, 'value_' + tag)

        def mk_tmv(tag):
            # every rotation of the insertion order of the thrust-mode keys
            rot = h.choice(len(tm))
            order = tm[rot:] + tm[:rot]
            d = {}
            for m in order:
                d[m] = scalar(h, f'{tag}_{m.name}')
            return I.call(TMV, [d], {}), d
        written = {}
        if has_sp:
            present = subsets_by_choice(h, file_species)
            d = {}
            for s in present:
                if has_tm:
                    d[s], written[s.name] = mk_tmv('v_' + s.name)
                else:
                    d[s] = leaf(s.name)
                    written[s.name] = d[s]
            val = I.call(SV, [d], {})
        elif has_tm:
            val, written = mk_tmv('v')
        else:
            val = leaf('x')
            written = val
        h.ctx.named['written_species'] = z3.StringVal(','.join(sorted(written)) if isinstance(written, dict) and has_sp else '-')
        try:
            write_through_write_data(h, st, var, row, field, val, file_species if has_sp else None)
        except PyExc as e:
            h.fail('value-that-fits-its-field-set-can-be-written', f'{e.inst!r} at {e.inst.where}; file species '
                   f'{[m.name for m in file_species]}, value species {sorted(written) if has_sp else "-"}')
            return
        h.ensure('only-the-row-is-written', z3.And(*[to_z3(r) == row for r in var.rows_written]) if var.rows_written else True)
        try:
            got = h.method(st, '_read_from_nc_var', var, row, 'field', field, list(file_species))
        except PyExc as e:
            h.fail('stored-value-can-be-read-back', f'{e.inst!r} at {e.inst.where}')
            return
        # ---- compare, field for field, key set for key set
        def same_leaf(a, b):
            if isinstance(a, SArr) and isinstance(b, SArr):
                k = h.ctx.fresh('k', z3.IntSort())
                return z3.And(to_z3(a.length) == to_z3(b.length),
                              z3.Implies(z3.And(k >= 0, k < to_z3(a.length)), to_real(a.at(k)) == to_real(b.at(k))))
            if isinstance(a, SArr) or isinstance(b, SArr):
                return z3.BoolVal(False)
            return to_real(a) == to_real(b)

        def tmv_items(o):
            return dict(o.attrs['_data']) if isinstance(o, Obj) else None
        if has_sp:
            if not isinstance(got, Obj) or got.cls.name != 'SpeciesValues':
                h.fail('reads-back-a-species-map', repr(got))
                return
            gd = got.attrs['_data']
            gk = sorted(k.name for k in gd)
            h.ensure('exactly-the-species-that-were-present', gk == sorted(written),
                     note=f'written {sorted(written)}, read back {gk}; file species {[m.name for m in file_species]}')
            conj = []
            for s in gd:
                if s.name not in written:
                    continue
                if has_tm:
                    gi = tmv_items(gd[s])
                    wi = written[s.name]
                    if gi is None or set(gi) != set(wi):
                        h.fail('species-values-equal', f'thrust-mode keys differ for {s.name}')
                        return
                    conj += [same_leaf(gi[m], wi[m]) for m in wi]
                else:
                    conj.append(same_leaf(gd[s], written[s.name]))
            h.ensure('species-values-equal', z3.And(*conj) if conj else True)
        elif has_tm:
            gi = tmv_items(got)
            if gi is None or set(gi) != set(written):
                h.fail('thrust-mode-values-equal', 'thrust-mode keys differ: ' + repr(got))
                return
            h.ensure('thrust-mode-values-equal', z3.And(*[same_leaf(gi[m], written[m]) for m in written]))
        else:
            if got is None:
                h.fail('value-equal', 'a stored value read back as None')
                return
            h.ensure('value-equal', same_leaf(got, written))
        # another row is untouched (reads as unset)
        other = h.int('other_row')
        h.assume(z3.And(other >= 0, other != row))
        try:
            g2 = h.method(st, '_read_from_nc_var', var, other, 'field', field, list(file_species))
            if not has_sp and not has_tm and not has_pt:
                h.ensure('other-rows-unaffected', g2 is None)
        except PyExc as e:
            h.fail('other-rows-unaffected', repr(e.inst))
    return u


CASES = {'scalar(T)': (False, False, False), 'points(TP)': (False, False, True), 'species(TS)': (True, False, False),
         'species-points(TSP)': (True, False, True), 'thrust-modes(TM)': (False, True, False),
         'species-thrust-modes(TSM)': (True, True, False)}
for _n, _c in CASES.items():
    unit('C03', 'roundtrip.' + _n, FUNCS, replay='contracts.C03:replay', max_paths=20000)(roundtrip(_c))


class MappedResult(Model):
    """What a mapping function returns to create_associated: an object with FIELD_SETS and one attribute per field."""
    type_names = ('HasFieldSets',)

    def __init__(self, fieldsets, values):
        self.fieldsets, self.values = fieldsets, values

    def py_getattr(self, I, name):
        if name == 'FIELD_SETS':
            return list(self.fieldsets)
        if name in self.values:
            return self.values[name]
        raise Unsupported('mapped result.' + name)


class RegisteredFieldSet(Model):
    def __init__(self, name, fields):
        self.name, self.fields = name, fields

    def py_getattr(self, I, name):
        if name == 'fieldset_name':
            return self.name
        if name == 'fields':
            return dict(self.fields)
        if name == 'items':
            return Builtin('items', lambda: list(self.fields.items()))
        raise Unsupported('FieldSet.' + name)


@unit('C03', 'create-associated.species-of-the-first-result', [TS + '.create_associated'], replay='contracts.C03:replay_mapped_unset')
def create_associated_species(h):
    """"... or were produced by mapping a function over an existing store": the new file's species slots are collected
    from the first result.  An optional species field left unset (None) in that result is a value that fits its field set:
    the file must be created (its species = those of the fields that are set) and every result written."""
    from pyvc.models.fs import GhostFS, PathVal
    I, Species, TM, sp, tm, dm, Dimensions = enums(h)
    SV = I.lookup_fq('AEIC.types.species:SpeciesValues')
    fs = GhostFS()
    fs.dirs.add('/data')
    I.hooks['fs'] = fs
    dims_s = I.call(Dimensions, [dm['TRAJECTORY'], dm['SPECIES']], {})
    dims_t = I.call(Dimensions, [dm['TRAJECTORY']], {})
    rfs = RegisteredFieldSet('extra', {'e_opt': FieldStub(dims_s, required=False), 'e_set': FieldStub(dims_s), 'x': FieldStub(dims_t)})
    h.summary('AEIC.storage.field_sets:FieldSet.known', lambda I_, fi, a, k: True)
    h.summary('AEIC.storage.field_sets:FieldSet.from_registry', lambda I_, fi, a, k: rfs)
    first_unset = h.choice(2) == 0
    h.ctx.named['first_result_leaves_the_optional_field_unset'] = z3.BoolVal(first_unset)
    results = [MappedResult([rfs], dict(e_opt=(None if first_unset else I.call(SV, [{sp['NOx']: h.real('o0')}], {})),
                                        e_set=I.call(SV, [{sp['CO2']: h.real('s0')}], {}), x=h.real('x0'))),
               MappedResult([rfs], dict(e_opt=None, e_set=I.call(SV, [{sp['CO2']: h.real('s1')}], {}), x=h.real('x1')))]
    calls = []
    mapping = Builtin('mapping_function', lambda t, *a, **k: (calls.append(t), results[len(calls) - 1])[1], pure=False)
    created, written = [], []

    class DS(Model):
        def py_getattr(self, I_, name):
            if name == 'close':
                return Builtin('close', lambda: None, pure=False)
            if name == 'id_hash':
                return 'hash-of-base'
            raise Unsupported('Dataset.' + name)
    NcFiles = I.lookup_fq(TS + '.NcFiles')
    base = I.call(NcFiles, [], dict(path=['/data/base.nc'], fieldsets={'base'}, dataset=[DS()], traj_dim=[None], traj_var=[None],
                                    species=None, groups={}, size_index=None))

    def create_nc(I_, fi, a, k):
        args = list(a[1:])
        created.append(dict(species=list(args[2]) if len(args) > 2 else list(k.get('species', [])), fieldsets=args[1] if len(args) > 1 else k.get('fieldsets')))
        return I_.call(NcFiles, [], dict(path=['/data/a.nc'], fieldsets={'extra'}, dataset=[DS()], traj_dim=[None], traj_var=[None],
                                         species=created[-1]['species'], groups={}, size_index=None))
    h.summary(TS + '._create_nc_file', create_nc)
    h.summary(TS + '._write_data', lambda I_, fi, a, k: written.append(k.get('index')))
    st = h.new(TS, _partial=True, _nc_files=[base], _nc={'base': base})
    h.summary(TS + '.__len__', lambda I_, fi, a, k: 2)
    h.summary(TS + '.__getitem__', lambda I_, fi, a, k: ('trajectory', a[1]))
    try:
        h.method(st, 'create_associated', PathVal('/data/a.nc'), ['extra'], mapping)
    except PyExc as e:
        h.fail('results-that-fit-the-field-set-are-stored', f'{e.inst!r} at {e.inst.where} (first result leaves the optional species field unset: {first_unset})')
        return
    want = {'CO2'} | (set() if first_unset else {'NOx'})
    got = [m.name for m in created[0]['species']] if created else None
    h.ensure('file-created-with-a-slot-for-every-species-of-the-first-result', created and len(created) == 1 and set(got) >= want and len(set(got)) == len(got),
             note=f'species slots {got}, first result uses {sorted(want)}')
    h.ensure('every-result-written', written == [0, 1], note=f'rows written: {written}')


def replay_mapped_unset(payload):
    """Native: create_associated whose first mapped result leaves an optional species field unset."""
    import os
    import shutil
    import tempfile
    from AEIC.storage import Dimension as D, Dimensions, FieldMetadata, FieldSet
    from AEIC.trajectories import TrajectoryStore
    from AEIC.types import Species, SpeciesValues
    from contracts.C07 import _mk
    if not FieldSet.known('c03_mapped_opt'):
        FieldSet('c03_mapped_opt',
                 c03m_e=FieldMetadata(dimensions=Dimensions(D.TRAJECTORY, D.SPECIES), description='', units='', required=False),
                 c03m_s=FieldMetadata(dimensions=Dimensions(D.TRAJECTORY, D.SPECIES), description='', units=''),
                 c03m_x=FieldMetadata(dimensions=Dimensions(D.TRAJECTORY), description='', units=''))
    tmp = tempfile.mkdtemp(prefix='c03m-', dir=os.environ.get('VERIF_SCRATCH'))
    problems = []
    try:
        b, a = os.path.join(tmp, 'b.nc'), os.path.join(tmp, 'a.nc')
        TrajectoryStore.active_in_thread = None
        with TrajectoryStore.create(base_file=b) as ts:
            for i in range(2):
                ts.add(_mk(i))
        TrajectoryStore.active_in_thread = None

        class Extra:
            FIELD_SETS = [FieldSet.from_registry('c03_mapped_opt')]

            def __init__(self, i):
                self.c03m_e = None
                self.c03m_s = SpeciesValues({Species.CO2: 1.0 + i})
                self.c03m_x = 2.0 + i
        n = [0]

        def mapping(t):
            n[0] += 1
            return Extra(n[0] - 1)
        try:
            with TrajectoryStore.open(base_file=b) as ts:
                ts.create_associated(a, ['c03_mapped_opt'], mapping)
        except Exception as e:   # noqa
            problems.append(f'create_associated with an unset optional species field in the mapped result: {type(e).__name__}: {e}')
        TrajectoryStore.active_in_thread = None
        if not problems:
            with TrajectoryStore.open(base_file=b, associated_files=[a]) as ts:
                for i in range(2):
                    r = ts[i]
                    got = (r.c03m_e, {k.name: float(v) for k, v in r.c03m_s.items()}, float(r.c03m_x))
                    if got[1] != {'CO2': 1.0 + i} or got[2] != 2.0 + i or (got[0] is not None and len(got[0]) > 0):
                        problems.append(f'trajectory {i}: mapped values read back as {got}')
        return dict(reproduced=bool(problems), observed=problems[:3], required='mapped results that fit their field set are stored and read back')
    finally:
        TrajectoryStore.active_in_thread = None
        shutil.rmtree(tmp, ignore_errors=True)


@unit('C03', 'unset-optional-field', FUNCS, replay='contracts.C03:replay_unset')
def unset_optional(h):
    """An optional field left unset (None), of any of the six shapes: writing it stores nothing and reading it back gives an
    unset value again - None, or a species-indexed value without any species - never numbers; a required field left unset
    is refused."""
    I, Species, TM, sp, tm, dm, Dimensions = enums(h)
    st = make_store_obj(h)
    shape = ['T', 'TP', 'TS', 'TSP', 'TM', 'TSM'][h.choice(6)]
    h.ctx.named['shape'] = z3.StringVal(shape)
    dims = [dm['TRAJECTORY']] + ([dm['SPECIES']] if 'S' in shape else []) + ([dm['THRUST_MODE']] if 'M' in shape else []) + \
        ([dm['POINT']] if 'P' in shape else [])
    field = FieldStub(I.call(Dimensions, dims, {}), required=False)
    file_species = [sp['CO2'], sp['NOx']] if 'S' in shape else []
    var = NcVar(I, len(file_species) if 'S' in shape else None, len(tm) if 'M' in shape else None, vlen='P' in shape)
    row = h.int('row')
    h.method(st, '_write_to_nc_var', var, row, 'opt', field, None, file_species)
    h.ensure('unset-optional-field-stores-nothing', not var.cells)
    got = h.method(st, '_read_from_nc_var', var, row, 'opt', field, file_species)
    is_unset = got is None or (isinstance(got, Obj) and got.cls.name == 'SpeciesValues' and len(got.attrs['_data']) == 0)
    h.ensure('unset-optional-field-reads-back-unset', is_unset, note=repr(got))
    req = FieldStub(field.dims, required=True)
    try:
        h.method(st, '_write_to_nc_var', var, row, 'req', req, None, file_species)
        h.fail('missing-required-value-is-refused', 'accepted')
    except PyExc as e:
        h.ensure('missing-required-value-is-refused', h.exc_is(e, 'ValueError'))


@unit('C03', 'species-list-of-each-file', [TS + '._retrieve_nc_species_values', TS + '.__init__'], replay='contracts.C03:replay_two_files')
def species_of_each_file(h):
    """The files of one store (base and associated files, the parts of a mapped store) each have their own species dimension:
    _retrieve_nc_species_values returns the species coordinate of the data set it is given - whatever other data sets the same
    store object was asked about before."""
    from contracts.storemodel import DatasetStub, GhostFile, install_store_models, make_cache, make_store
    I = h.I
    install_store_models(h, I)
    st = make_store(h, I, 'READ', None, make_cache(h, I, in_memory=False), next_index=0)
    # whatever the constructor would have initialised on the store object (attributes this model does not know of)
    init = I.lookup_fq(TS + '.__init__')
    import ast as _ast
    for node in _ast.walk(init.node):
        if isinstance(node, (_ast.Assign, _ast.AnnAssign)):
            for tg in (node.targets if isinstance(node, _ast.Assign) else [node.target]):
                if isinstance(tg, _ast.Attribute) and isinstance(tg.value, _ast.Name) and tg.value.id == 'self' and tg.attr not in st.attrs \
                        and isinstance(node.value, _ast.Constant):
                    st.attrs[tg.attr] = node.value.value
    lists = [['CO2', 'H2O'], ['NOx', 'SO4', 'PMvol'], None, ['CO2']]
    order = [lists[(h.choice(4) + k) % 4] for k in range(3)]
    got = []
    for k, names in enumerate(order):
        f = GhostFile(f'file{k}.nc', h.int(f'rows_{k}'), lambda r: r)
        f.species = names
        got.append(h.method(st, '_retrieve_nc_species_values', DatasetStub(f)))
    ok = all((g is None and names is None) or (g is not None and names is not None and [m.name for m in g] == names) for g, names in zip(got, order))
    h.ensure('each-data-set-gives-its-own-species-list', ok,
             note='; '.join(f'file {k}: has {names}, reported {None if g is None else [m.name for m in g]}' for k, (g, names) in enumerate(zip(got, order))))


@unit('C03', 'container.species-of-a-trajectory', ['AEIC.storage.container:Container.species'], replay='contracts.C03:replay_unset')
def container_species(h):
    """Container.species (what decides the species dimension of a new file): the sorted union of the species of the
    species-indexed fields; an optional one that is unset (None) contributes nothing."""
    I, Species, TM, sp, tm, dm, Dimensions = enums(h)
    SV = I.lookup_fq('AEIC.types.species:SpeciesValues')
    d_ts = I.call(Dimensions, [dm['TRAJECTORY'], dm['SPECIES']], {})
    d_tsp = I.call(Dimensions, [dm['TRAJECTORY'], dm['SPECIES'], dm['POINT']], {})
    d_tp = I.call(Dimensions, [dm['TRAJECTORY'], dm['POINT']], {})
    a = subsets_by_choice(h, ['CO2', 'NOx', 'SO4'])
    b_unset = h.choice(2) == 1
    fields = {'plain': FieldStub(d_tp), 'per_species': FieldStub(d_ts), 'optional_per_species_per_point': FieldStub(d_tsp, required=False)}
    data = {'plain': SArr.symbolic(h.ctx, 'p', 3), 'per_species': I.call(SV, [{sp[x]: h.real('v_' + x) for x in a}], {}),
            'optional_per_species_per_point': None if b_unset else I.call(SV, [{sp['H2O']: SArr.symbolic(h.ctx, 'w', 3)}], {})}
    c = h.new('AEIC.storage.container:Container', _partial=True, _data_dictionary=fields, _data=data)
    try:
        r = h.I.getattr(c, 'species')
    except PyExc as e:
        h.fail('no-internal-error', f'{e.inst!r} at {e.inst.where}')
        return
    order = [m.name for m in Species.members]
    want = sorted(set(a) | (set() if b_unset else {'H2O'}), key=order.index)
    h.ensure('species-are-the-sorted-union-of-the-set-fields', [m.name for m in r] == want, note=repr(r))


# -------------------------------------------------------------------------------------------------
# what a trajectory keeps: values of the field's own type (so that what is added is what the file can hold)
NPTYPES = {'float32': ('f', 4), 'float64': ('f', 8), 'int32': ('i', 4), 'int64': ('i', 8), 'uint8': ('u', 1)}
KIND_RANK = {'u': 1, 'i': 2, 'f': 3}
CONVERTED = z3.Function('value_converted_to_type', z3.IntSort(), z3.RealSort(), z3.RealSort())


class NpDtype(Model):
    def __init__(self, tname):
        self.tname = tname

    def py_getattr(self, I, name):
        if name == 'kind':
            return NPTYPES[self.tname][0]
        if name == 'itemsize':
            return NPTYPES[self.tname][1]
        if name == 'name':
            return self.tname
        if name == 'shape':
            return ()
        raise Unsupported('dtype.' + name)

    def py_eq(self, I, other):
        return isinstance(other, NpDtype) and other.tname == self.tname


def _tname(t):
    n = getattr(t, 'name', None) or getattr(t, 'tname', None) or str(t)
    n = n.rsplit('.', 1)[-1]
    if n not in NPTYPES:
        raise Unsupported(f'numpy type {n}')
    return n


class TypedValue(Model):
    """Ghost numpy value: element type, payload (one symbolic real standing for the contents), array or scalar."""

    def __init__(self, tname, payload, ndarray, npoints=None):
        self.tname, self.payload, self.ndarray, self.npoints = tname, payload, ndarray, npoints
        self.type_names = ('numpy.ndarray',) if ndarray else ()
        self.py_type = Ext('numpy.ndarray' if ndarray else 'numpy.' + tname)

    def py_len(self, I):
        if self.npoints is None:
            I.raise_('TypeError', 'len() of unsized object')
        return self.npoints

    def py_getattr(self, I, name):
        if name == 'dtype':
            return NpDtype(self.tname)
        if name == 'size':
            return self.npoints if self.npoints is not None else 1
        if name == 'astype':
            def astype(t, casting='unsafe', **kw):
                tn = _tname(t)
                code = list(NPTYPES).index(tn)
                return TypedValue(tn, self.payload if tn == self.tname else CONVERTED(code, self.payload), True, self.npoints)
            return Builtin('ndarray.astype', astype)
        if name == 'item':
            return Builtin('ndarray.item', lambda: TypedValue(self.tname, self.payload, False, None))
        raise Unsupported('ndarray.' + name)


def install_typed_numpy(h):
    I = h.I

    def can_cast(I_, frm, to, casting='safe'):
        a, b = NPTYPES[_tname(frm)], NPTYPES[_tname(to)]
        if casting != 'same_kind':
            raise Unsupported('can_cast casting=' + str(casting))
        # numpy: same_kind = safe casts plus casts within a kind (narrowing allowed); never to a lower kind
        if a[0] == b[0]:
            return True
        return KIND_RANK[a[0]] < KIND_RANK[b[0]] and (b[0] == 'f' or a[1] < b[1])
    I.models['numpy.can_cast'] = can_cast
    I.models['numpy.dtype'] = lambda I_, t: NpDtype(_tname(t))
    I.models['numpy.asarray'] = lambda I_, x, dtype=None, **kw: x if x.ndarray else TypedValue(x.tname, x.payload, True, None)


def typed_field(h, I, dm, Dimensions, dims, tname):
    FM = I.lookup_fq('AEIC.storage.field_sets:FieldMetadata')
    ft = Ext('numpy.' + tname)
    return I.call(FM, [], dict(dimensions=I.call(Dimensions, [dm[d] for d in dims], {}), field_type=ft))


def has_field_type(v, tname, payload, ndarray):
    code = list(NPTYPES).index(tname)
    return (isinstance(v, TypedValue) and v.tname == tname and v.ndarray == ndarray,
            lambda src: v.payload == (payload if src == tname else CONVERTED(code, payload)))


@unit('C03', 'cast.kept-values-have-the-field-type', ['AEIC.storage.field_sets:FieldMetadata._cast'], replay='contracts.C03:replay_types')
def cast_unit(h):
    """FieldMetadata._cast: whatever same-kind type comes in, what comes out has the field's type (the value converted to it,
    unchanged when it already had it), an array for an array and a scalar for a scalar; other kinds are refused."""
    I, Species, TM, sp, tm, dm, Dimensions = enums(h)
    install_typed_numpy(h)
    names = list(NPTYPES)
    src = names[h.choice(len(names))]
    dst = names[h.choice(len(names))]
    arr = h.choice(2) == 1
    h.ctx.named['value_type'] = z3.StringVal(src)
    h.ctx.named['field_type'] = z3.StringVal(dst)
    h.ctx.named['value_is_array'] = z3.BoolVal(arr)
    payload = h.real('contents')
    fm = typed_field(h, I, dm, Dimensions, ['TRAJECTORY'] + (['POINT'] if arr else []), dst)
    a, b = NPTYPES[src], NPTYPES[dst]
    castable = a[0] == b[0] or (KIND_RANK[a[0]] < KIND_RANK[b[0]] and (b[0] == 'f' or a[1] < b[1]))
    try:
        r = h.method(fm, '_cast', TypedValue(src, payload, arr, h.int('npoints') if arr else None), 'x')
    except PyExc as e:
        h.ensure('only-values-of-another-kind-are-refused', (not castable) and h.exc_is(e, 'TypeError'))
        return
    h.ensure('only-values-of-another-kind-are-refused', castable)
    ok, val = has_field_type(r, dst, payload, arr)
    h.ensure('result-has-the-field-type', ok)
    if ok:
        h.ensure('result-is-the-value-converted-to-the-field-type', val(src))


@unit('C03', 'convert-in.every-element-goes-through-the-cast', ['AEIC.storage.field_sets:FieldMetadata.convert_in'],
      replay='contracts.C03:replay_types')
def convert_in_unit(h):
    """convert_in, all six shapes: every scalar / array inside the assigned value is replaced by _cast of it (contract of
    _cast above), keys unchanged."""
    I, Species, TM, sp, tm, dm, Dimensions = enums(h)
    install_typed_numpy(h)
    SV = I.lookup_fq('AEIC.types.species:SpeciesValues')
    TMV = I.lookup_fq('AEIC.performance.types:ThrustModeValues')
    shape = ['T', 'TP', 'TS', 'TSP', 'TM', 'TSM'][h.choice(6)]
    h.ctx.named['shape'] = z3.StringVal(shape)
    dims = {'T': ['TRAJECTORY'], 'TP': ['TRAJECTORY', 'POINT'], 'TS': ['TRAJECTORY', 'SPECIES'],
            'TSP': ['TRAJECTORY', 'SPECIES', 'POINT'], 'TM': ['TRAJECTORY', 'THRUST_MODE'],
            'TSM': ['TRAJECTORY', 'SPECIES', 'THRUST_MODE']}[shape]
    fm = typed_field(h, I, dm, Dimensions, dims, 'float32')
    n = h.int('npoints')
    h.assume(n >= 1)
    cast_calls = []

    def cast_contract(I_, fi, a, k):
        v = a[1]
        cast_calls.append(v)
        return TypedValue('float32', CONVERTED(0, v.payload), v.ndarray, v.npoints)
    h.summary('AEIC.storage.field_sets:FieldMetadata._cast', cast_contract)
    pointwise = 'P' in shape
    leaf = lambda nm: TypedValue('float64', h.real(nm), pointwise, n if pointwise else None)   # noqa
    species = [sp[x] for x in subsets_by_choice(h, ['CO2', 'NOx', 'SO4'])]
    if shape in ('T', 'TP'):
        val = leaf('v')
        leaves = {(): val}
    elif shape in ('TS', 'TSP'):
        d = {s: leaf('v_' + s.name) for s in species}
        val = I.call(SV, [dict(d)], {})
        leaves = {(s,): x for s, x in d.items()}
    elif shape == 'TM':
        d = {m: leaf('v_' + m.name) for m in tm}
        val = I.call(TMV, [dict(d)], {})
        leaves = {(m,): x for m, x in d.items()}
    else:
        d = {s: {m: leaf(f'v_{s.name}_{m.name}') for m in tm} for s in species}
        val = I.call(SV, [{s: I.call(TMV, [dict(x)], {}) for s, x in d.items()}], {})
        leaves = {(s, m): x for s, dd in d.items() for m, x in dd.items()}
    r = h.method(fm, 'convert_in', val, 'x', n)

    def at(v, path):
        for k in path:
            v = I.getitem(v, k)
        return v

    def keys(v, depth):
        if depth == 0:
            return {()}
        out = set()
        for k in I.iterate(I.call(I.getattr(v, 'keys'), [], {})):
            out |= {(k,) + rest for rest in keys(I.getitem(v, k), depth - 1)}
        return out
    depth = {'T': 0, 'TP': 0, 'TS': 1, 'TSP': 1, 'TM': 1, 'TSM': 2}[shape]
    h.ensure('same-keys-none-lost-none-invented', keys(r, depth) == set(leaves))
    good = []
    for path, x in leaves.items():
        try:
            y = at(r, path)
        except PyExc:
            good.append(z3.BoolVal(False))
            continue
        good.append(z3.BoolVal(isinstance(y, TypedValue) and y.tname == 'float32' and y.ndarray == x.ndarray))
        if isinstance(y, TypedValue):
            good.append(y.payload == CONVERTED(0, x.payload))
    h.ensure('every-element-is-the-cast-of-the-assigned-element', z3.And(*good) if good else z3.BoolVal(True))


@unit('C03', 'load-trajectory.number-of-points', [TS + '._load_trajectory'], replay='contracts.C03:replay')
def load_npoints(h):
    """_load_trajectory sizes the trajectory from its per-point fields, whatever their order and
    whichever of them carry no species at all."""
    I, Species, TM, sp, tm, dm, Dimensions = enums(h)
    SV = I.lookup_fq('AEIC.types.species:SpeciesValues')
    n = h.int('n_points')
    h.assume(n >= 1)
    d_tsp = I.call(Dimensions, [dm['TRAJECTORY'], dm['SPECIES'], dm['POINT']], {})
    d_tp = I.call(Dimensions, [dm['TRAJECTORY'], dm['POINT']], {})
    d_t = I.call(Dimensions, [dm['TRAJECTORY']], {})
    arr = SArr.symbolic(h.ctx, 'points', n)
    order = h.choice(2)
    empty_species = h.choice(2) == 1
    spv = I.call(SV, [{} if empty_species else {sp['CO2']: SArr.symbolic(h.ctx, 'sp_points', n)}], {})
    fields = [('sp_points', FieldStub(d_tsp), spv), ('plain_points', FieldStub(d_tp), arr), ('a_scalar', FieldStub(d_t), h.real('s'))]
    if order == 1:
        fields = [fields[1], fields[0], fields[2]]
    # optional fields that were never set are stored as missing and read as None: the loaded trajectory must say None,
    # not whatever a fresh trajectory holds by default
    where = h.choice(3)
    unset = [('unset_optional_scalar', FieldStub(d_t, required=False), None), ('unset_optional_points', FieldStub(d_tp, required=False), None)]
    if where == 1:
        fields = fields + unset
    elif where == 2:
        fields = unset + fields          # the first per-point field met is an unset one: it cannot size the trajectory
    h.ctx.named['unset_optional_fields'] = z3.StringVal(['none', 'after the others', 'before the others'][where])
    h.ctx.named['first_point_field_has_no_species'] = z3.BoolVal(order == 0 and empty_species)

    class Fs(Model):
        def py_getattr(self, I_, name):
            if name == 'items':
                return Builtin('items', lambda: [(nm, f) for nm, f, v in fields])
            raise Unsupported('FieldSet.' + name)
    h.summary('AEIC.storage.field_sets:FieldSet.from_registry', lambda I_, fi, a, k: Fs())
    values = {nm: v for nm, f, v in fields}
    h.summary(TS + '._read_from_nc_var', lambda I_, fi, a, k: values[a[3]])
    NcFiles = I.lookup_fq(TS + '.NcFiles')

    class G(Model):
        def py_getattr(self, I_, name):
            if name == 'variables':
                return {nm: None for nm, f, v in fields}
            raise Unsupported('Group.' + name)
    ncf = I.call(NcFiles, [], dict(path=['f.nc'], fieldsets={'base'}, dataset=[None], traj_dim=[None], traj_var=[None],
                                   species=[], groups={'base': [G()]}, size_index=None))
    made = []

    class T(Model):
        def __init__(self, npoints):
            self.npoints = npoints
            self.vals = {}

        def py_setattr(self, I_, name, val):
            self.vals[name] = val

        def py_getattr(self, I_, name):
            if name == 'nbytes':
                return 8
            if name == 'add_fields':
                return Builtin('add_fields', lambda fs: None)
            raise Unsupported('Trajectory.' + name)

    def new_traj(I_, cls, npoints=None, **kw):
        t = T(npoints)
        made.append(t)
        return t
    I.models['new:AEIC.trajectories.trajectory:Trajectory'] = new_traj
    st = h.new(TS, _partial=True, _nc={'base': ncf}, _trajectories={})
    try:
        h.method(st, '_load_trajectory', 0)
    except PyExc as e:
        h.fail('trajectory-can-be-loaded', f'{e.inst!r} at {e.inst.where}')
        return
    if not made or made[0].npoints is None:
        h.fail('sized-from-its-per-point-fields', 'no trajectory constructed')
        return
    h.ensure('sized-from-its-per-point-fields', to_z3(made[0].npoints) == n)
    h.ensure('every-field-set', set(made[0].vals) == set(values))
    h.ensure('every-field-gets-the-value-read-from-the-file-unset-ones-none',
             all(nm in made[0].vals and made[0].vals[nm] is v for nm, v in values.items()),
             note=repr({nm: (made[0].vals.get(nm, '<not assigned>') if v is None else '...') for nm, v in values.items()}))


@unit('C03', 'load-trajectory.each-file-read-with-its-own-species-list', [TS + '._load_trajectory'], replay='contracts.C03:replay_two_files')
def load_species_per_file(h):
    """_read_from_nc_var's precondition - `species` is the species list of the file the variable lives in (slot k of the
    variable is species[k]) - checked at its call sites in _load_trajectory: a store with a base file and an associated file,
    each with its own species list (any two of the representative lists, also of different lengths, also one of them empty)."""
    I, Species, TM, sp, tm, dm, Dimensions = enums(h)
    d_ts = I.call(Dimensions, [dm['TRAJECTORY'], dm['SPECIES']], {})
    d_tp = I.call(Dimensions, [dm['TRAJECTORY'], dm['POINT']], {})
    keys = sorted(SPECIES_LISTS)
    lists = {}
    for fsn in ('base', 'assoc'):
        ki = h.choice(len(keys) + 1)                       # the last choice: a file without a species dimension
        lists[fsn] = [sp[nm] for nm in SPECIES_LISTS[keys[ki]]] if ki < len(keys) else []
        h.ctx.named['species_of_' + fsn] = z3.StringVal(','.join(m.name for m in lists[fsn]))
    n = h.int('n_points')
    h.assume(n >= 1)
    fields = {'base': [('points', FieldStub(d_tp)), ('base_species_field', FieldStub(d_ts))],
              'assoc': [('assoc_species_field', FieldStub(d_ts))]}
    pts = SArr.symbolic(h.ctx, 'points', n)

    class Fs(Model):
        def __init__(self, name):
            self.name = name

        def py_getattr(self, I_, name):
            if name == 'items':
                return Builtin('items', lambda: list(fields[self.name]))
            raise Unsupported('FieldSet.' + name)
    h.summary('AEIC.storage.field_sets:FieldSet.from_registry', lambda I_, fi, a, k: Fs(a[-1]))

    class Var(Model):
        def __init__(self, owner):
            self.owner = owner

    class G(Model):
        def __init__(self, owner):
            self.vars = {nm: Var(owner) for nm, f in fields[owner]}

        def py_getattr(self, I_, name):
            if name == 'variables':
                return self.vars
            raise Unsupported('Group.' + name)
    log = []

    def read(I_, fi, a, k):
        log.append((a[1], a[3], a[5]))
        return pts if a[3] == 'points' else None
    h.summary(TS + '._read_from_nc_var', read)
    NcFiles = I.lookup_fq(TS + '.NcFiles')
    nc = {}
    for fsn in ('base', 'assoc'):
        nc[fsn] = I.call(NcFiles, [], dict(path=[fsn + '.nc'], fieldsets={fsn}, dataset=[None], traj_dim=[None], traj_var=[None],
                                           species=(list(lists[fsn]) if lists[fsn] else None), groups={fsn: [G(fsn)]}, size_index=None))

    class T(Model):
        def py_setattr(self, I_, name, val):
            pass

        def py_getattr(self, I_, name):
            if name == 'nbytes':
                return 8
            if name == 'add_fields':
                return Builtin('add_fields', lambda fs: None)
            raise Unsupported('Trajectory.' + name)
    I.models['new:AEIC.trajectories.trajectory:Trajectory'] = lambda I_, cls, npoints=None, **kw: T()
    st = h.new(TS, _partial=True, _nc=nc, _trajectories={})
    try:
        h.method(st, '_load_trajectory', 0)
    except PyExc as e:
        h.fail('trajectory-can-be-loaded', f'{e.inst!r} at {e.inst.where}')
        return
    h.ensure('every-field-of-every-file-is-read', sorted(nm for v, nm, s_ in log) == sorted(nm for fsn in fields for nm, f in fields[fsn]))
    bad = [(nm, v.owner, [m.name for m in (s_ or [])]) for v, nm, s_ in log
           if not isinstance(v, Var) or [m.name for m in (s_ or [])] != [m.name for m in lists[v.owner]]]
    h.ensure('each-variable-is-read-with-the-species-list-of-its-own-file', not bad,
             note=f'(field, file, species list passed): {bad}; file lists: ' + str({k: [m.name for m in v] for k, v in lists.items()}))


def later_species(h, expect_accept):
    I, Species, TM, sp, tm, dm, Dimensions = enums(h)
    st = make_store_obj(h)
    SV = I.lookup_fq('AEIC.types.species:SpeciesValues')
    field = FieldStub(I.call(Dimensions, [dm['TRAJECTORY'], dm['SPECIES']], {}))
    file_species = [sp['CO2']]                  # fixed by the first trajectory added / first mapped result
    var = NcVar(I, 1, None)
    val = I.call(SV, [{sp['CO2']: scalar(h, 'v_CO2'), sp['H2O']: scalar(h, 'v_H2O')}], {})
    row = h.int('row')
    h.assume(row >= 1)
    try:
        write_through_write_data(h, st, var, row, field, val, file_species)
    except PyExc as e:
        if expect_accept:
            h.fail('later-trajectory-with-a-new-species-can-be-added', f'{e.inst!r}')
        else:
            h.ensure('refused-by-name', h.exc_is(e, 'ValueError') and any('H2O' in str(p) for p in e.inst.message_parts()),
                     note=repr(e.inst))
            h.ensure('nothing-written-when-refused', not var.cells)
        return
    if expect_accept:
        got = h.method(st, '_read_from_nc_var', var, row, 'field', field, list(file_species))
        gd = got.attrs['_data'] if isinstance(got, Obj) else {}
        h.ensure('later-trajectory-with-a-new-species-can-be-added', sorted(k.name for k in gd) == ['CO2', 'H2O'])
    else:
        h.fail('refused-by-name', 'accepted')


@unit('C03', 'species-dimension.later-values', FUNCS, replay='contracts.C03:replay_later')
def later_species_unit(h):
    later_species(h, expect_accept=True)


@unit('C03', 'species-dimension.later-values.characterisation-of-known-limitation', FUNCS)
def later_species_char(h):
    # the recorded limitation, exactly: a value with a species the file has no slot for is refused by name,
    # before anything is written
    later_species(h, expect_accept=False)


class DimDataset(Model):
    def __init__(self):
        self.dims = {}
        self.vars = {}

    def py_getattr(self, I, name):
        if name == 'createDimension':
            def cd(n, size=None):
                self.dims[n] = size
                return ('dim', n)
            return Builtin('createDimension', cd, pure=False)
        if name == 'createVariable':
            def cv(n, typ=None, dims=None, **k):
                self.vars[n] = NameVar()
                return self.vars[n]
            return Builtin('createVariable', cv, pure=False)
        if name == 'variables':
            return self.vars
        raise Unsupported('Dataset.' + name)


class NameVar(Model):
    def __init__(self):
        self.items = {}

    def py_setitem(self, I, idx, val):
        self.items[idx] = val

    def py_getattr(self, I, name):
        if name in ('set_auto_mask', 'set_always_mask'):
            return Builtin(name, lambda *a: None)
        raise Unsupported('Variable.' + name)


class FsStub(Model):
    def __init__(self, dims):
        self.dims = dims

    def py_getattr(self, I, name):
        if name == 'dimensions':
            return self.dims
        raise Unsupported('FieldSet.' + name)


@unit('C03', 'create-dimensions.species-slots', FUNCS, replay='contracts.C03:replay')
def create_dimensions(h):
    I, Species, TM, sp, tm, dm, Dimensions = enums(h)
    keys = ['empty'] + list(SPECIES_LISTS)
    k = keys[h.choice(len(keys))]
    species = [] if k == 'empty' else [sp[n] for n in SPECIES_LISTS[k]]
    h.ctx.named['file_species'] = z3.StringVal(','.join(m.name for m in species))
    with_tm = h.choice(2) == 1
    h.summary('AEIC.storage.field_sets:FieldSet.from_registry',
              lambda I_, fi, a, kw: FsStub({dm['TRAJECTORY'], dm['SPECIES']} | ({dm['THRUST_MODE']} if with_tm else set())))
    ds = DimDataset()
    f = h.func('AEIC.trajectories.store:_create_dimensions')
    h.I.call_function(f, [ds, {'fs'}, species], {}, force_body=True)
    # what the round trip needs (writer and reader both locate a species by its position in this coordinate): every
    # species of the data has a slot, and the coordinate names exactly one distinct species per slot of the dimension.
    # (Whether species that are not in the data also get a slot is not the property's business.)
    names = ds.vars.get('species')
    listed = [names.items.get(i) for i in range(len(names.items))] if names is not None else []
    h.ensure('species-dimension-has-a-slot-for-every-species-of-the-data', names is not None and all(m.name in listed for m in species),
             note=f'coordinate {listed} for species list {[m.name for m in species]}')
    valid = {m.name for m in sp.values()}
    h.ensure('species-coordinate-names-one-distinct-species-per-slot',
             names is not None and ds.dims.get('species') == len(listed) and len(set(listed)) == len(listed) and all(x in valid for x in listed),
             note=f'dimension length {ds.dims.get("species")}, coordinate {listed}')
    if with_tm:
        h.ensure('thrust-mode-dimension-covers-all-modes', ds.dims.get('thrust_mode') == len(tm))


# ------------------------------------------------------------------------------------------------
def replay(payload):
    """Native round trip of species / thrust-mode fields through a real NetCDF file for the species
    lists of the counter-model (plus the standard set), in one file and reopened."""
    import os
    import shutil
    import tempfile
    import numpy as np
    from AEIC.performance.types import ThrustMode, ThrustModeValues
    from AEIC.storage import Dimension, Dimensions, FieldMetadata, FieldSet
    from AEIC.trajectories import Trajectory, TrajectoryStore
    from AEIC.types import Species, SpeciesValues
    from contracts.C07 import _mk
    m = payload.get('model', {})
    fs_name = 'c03_replay_fields'
    if not FieldSet.known(fs_name):
        FieldSet(fs_name,
                 sp_scalar=FieldMetadata(dimensions=Dimensions(Dimension.TRAJECTORY, Dimension.SPECIES), description='', units=''),
                 sp_scalar2=FieldMetadata(dimensions=Dimensions(Dimension.TRAJECTORY, Dimension.SPECIES), description='', units=''),
                 sp_points=FieldMetadata(dimensions=Dimensions(Dimension.TRAJECTORY, Dimension.SPECIES, Dimension.POINT), description='', units=''),
                 tm_vals=FieldMetadata(dimensions=Dimensions(Dimension.TRAJECTORY, Dimension.THRUST_MODE), description='', units=''),
                 sp_tm=FieldMetadata(dimensions=Dimensions(Dimension.TRAJECTORY, Dimension.SPECIES, Dimension.THRUST_MODE), description='', units=''))
    cases = []
    fsp = [s for s in str(m.get('file_species', '')).strip('"').split(',') if s]
    wsp = [s for s in str(m.get('written_species', '')).strip('"').split(',') if s and s != '-']
    if fsp:
        cases.append((fsp, wsp or fsp))
    cases += [(['CO2', 'H2O'], ['CO2', 'H2O']), (['CO2', 'NOx', 'SO4'], ['CO2', 'NOx', 'SO4']), (['CO2', 'NOx'], ['CO2']), ([], [])]
    problems = []
    tmp = tempfile.mkdtemp(prefix='c03-', dir=os.environ.get('VERIF_SCRATCH'))
    try:
        for ci, (file_sp, val_sp) in enumerate(cases):
            TrajectoryStore.active_in_thread = None
            path = os.path.join(tmp, f'c{ci}.nc')
            n = 4
            t = _mk(1, n=n)
            t.add_fields(FieldSet.from_registry(fs_name))
            fsp_e = [Species[s] for s in file_sp]
            vsp_e = [Species[s] for s in val_sp]
            t.sp_scalar = SpeciesValues({s: float(10 + s.value) for s in fsp_e})          # fixes the file's species
            t.sp_scalar2 = SpeciesValues({s: float(20 + s.value) for s in vsp_e})
            t.sp_points = SpeciesValues({s: np.arange(n) + float(s.value) for s in vsp_e})
            order = list(ThrustMode)[2:] + list(ThrustMode)[:2]
            t.tm_vals = ThrustModeValues({mo: float(i + 1) for i, mo in enumerate(order)})
            t.sp_tm = SpeciesValues({s: ThrustModeValues({mo: float(100 * s.value + i) for i, mo in enumerate(order)}) for s in vsp_e})
            def compare(g, when):
                for name in ('sp_scalar', 'sp_scalar2', 'sp_points', 'sp_tm'):
                    want, got = getattr(t, name), getattr(g, name)
                    if sorted(k.name for k in want.keys()) != sorted(k.name for k in got.keys()):
                        problems.append(f'file species {file_sp} ({when}): field {name} written with {sorted(k.name for k in want.keys())} '
                                        f'read back with {sorted(k.name for k in got.keys())}')
                    elif not want.__eq__(got) and name != 'sp_points':
                        problems.append(f'file species {file_sp} ({when}): field {name} values differ')
                if dict(g.tm_vals) != dict(t.tm_vals):
                    problems.append(f'({when}) thrust-mode field read back as {dict(g.tm_vals)} instead of {dict(t.tm_vals)}')
            try:
                with TrajectoryStore.create(base_file=path) as ts:
                    ts.add(t)
                    # read back from the file within the session that wrote it (what happens once the cache has evicted it)
                    ts._trajectories.clear()
                    compare(ts[0], 'read back in the writing session')
                TrajectoryStore.active_in_thread = None
                with TrajectoryStore.open(base_file=path) as r:
                    compare(r[0], 'reopened')
            except Exception as e:   # noqa
                problems.append(f'file species {file_sp}, value species {val_sp}: {type(e).__name__}: {e}')
        # unset optional fields: stored as missing, must read back as None (not as a fresh trajectory's default)
        opt_name = 'c03_replay_optional'
        if not FieldSet.known(opt_name):
            FieldSet(opt_name,
                     opt_points=FieldMetadata(dimensions=Dimensions(Dimension.TRAJECTORY, Dimension.POINT), description='', units='', required=False),
                     opt_scalar=FieldMetadata(dimensions=Dimensions(Dimension.TRAJECTORY), description='', units='', required=False, default=5.0))
        try:
            TrajectoryStore.active_in_thread = None
            path = os.path.join(tmp, 'optional.nc')
            t = _mk(3, n=4)
            t.add_fields(FieldSet.from_registry(opt_name))
            t.opt_points = None
            t.opt_scalar = None
            with TrajectoryStore.create(base_file=path) as ts:
                ts.add(t)
            TrajectoryStore.active_in_thread = None
            with TrajectoryStore.open(base_file=path) as r:
                g = r[0]
                for name in ('opt_points', 'opt_scalar'):
                    if getattr(g, name) is not None:
                        problems.append(f'optional field {name} stored unset (None) reads back as {getattr(g, name)!r}')
        except Exception as e:   # noqa
            problems.append(f'unset optional fields: {type(e).__name__}: {e}')
        return dict(reproduced=bool(problems), observed=problems[:6], required='read back equals what was added')
    finally:
        TrajectoryStore.active_in_thread = None
        shutil.rmtree(tmp, ignore_errors=True)


def replay_later(payload):
    import os
    import shutil
    import tempfile
    from AEIC.storage import Dimension, Dimensions, FieldMetadata, FieldSet
    from AEIC.trajectories import TrajectoryStore
    from AEIC.types import Species, SpeciesValues
    from contracts.C07 import _mk
    name = 'c03_later_fields'
    if not FieldSet.known(name):
        FieldSet(name, e=FieldMetadata(dimensions=Dimensions(Dimension.TRAJECTORY, Dimension.SPECIES), description='', units=''))
    tmp = tempfile.mkdtemp(prefix='c03l-', dir=os.environ.get('VERIF_SCRATCH'))
    TrajectoryStore.active_in_thread = None
    try:
        def mk(i, species):
            t = _mk(i)
            t.add_fields(FieldSet.from_registry(name))
            t.e = SpeciesValues({Species[s]: float(i) for s in species})
            return t
        with TrajectoryStore.create(base_file=os.path.join(tmp, 'l.nc')) as ts:
            ts.add(mk(0, ['CO2']))
            try:
                ts.add(mk(1, ['CO2', 'H2O']))
                return dict(reproduced=False, observed='second trajectory with an extra species accepted')
            except Exception as e:   # noqa
                return dict(reproduced=True, observed=f'{type(e).__name__}: {e}',
                            required='any trajectory whose values fit its field sets can be added')
    finally:
        TrajectoryStore.active_in_thread = None
        shutil.rmtree(tmp, ignore_errors=True)


def replay_types(payload):
    """Native: values of another same-kind type assigned to fields of every shape are kept with the field's type, so that
    what the trajectory holds is what the file returns (store round trip, exact equality, element types included)."""
    import os
    import shutil
    import tempfile
    import numpy as np
    from AEIC.performance.types import ThrustMode, ThrustModeValues
    from AEIC.storage import Dimension, Dimensions, FieldMetadata, FieldSet
    from AEIC.trajectories import TrajectoryStore
    from AEIC.types import Species, SpeciesValues
    from contracts.C07 import _mk
    D = Dimension
    problems = []
    types = dict(float32=np.float32, float64=np.float64, int32=np.int32, int64=np.int64, uint8=np.uint8)
    for dn, dt in types.items():
        for sn, st in types.items():
            for arr in (False, True):
                fm = FieldMetadata(dimensions=Dimensions(D.TRAJECTORY, D.POINT) if arr else Dimensions(D.TRAJECTORY), field_type=dt)
                v = np.array([3, 7], dtype=st) if arr else st(3)
                try:
                    r = fm._cast(v, 'x')
                except TypeError:
                    if np.can_cast(st, dt, casting='same_kind'):
                        problems.append(f'{sn} value refused by a {dn} field')
                    continue
                got = r.dtype if arr else np.asarray(r).dtype
                want = np.dtype(dt) if arr else np.asarray(dt(3).item()).dtype
                if got != want or isinstance(r, np.ndarray) != arr:
                    problems.append(f'{sn} {"array" if arr else "scalar"} kept as {got} in a {dn} field')
    name = 'c03_typed_fields'
    if not FieldSet.known(name):
        mk = lambda t, *d: FieldMetadata(dimensions=Dimensions(D.TRAJECTORY, *d), field_type=t, description='', units='')   # noqa
        FieldSet(name, t_f4=mk(np.float32), tp_f4=mk(np.float32, D.POINT), ts_f4=mk(np.float32, D.SPECIES),
                 tsp_f4=mk(np.float32, D.SPECIES, D.POINT), tm_f4=mk(np.float32, D.THRUST_MODE),
                 tsm_f4=mk(np.float32, D.SPECIES, D.THRUST_MODE), t_i4=mk(np.int32), tp_i4=mk(np.int32, D.POINT))
    tmp = tempfile.mkdtemp(prefix='c03t-', dir=os.environ.get('VERIF_SCRATCH'))
    TrajectoryStore.active_in_thread = None
    try:
        t = _mk(0, n=5)
        t.add_fields(FieldSet.from_registry(name))
        x = np.linspace(0.1, 0.9, 5)
        t.t_f4 = 0.1
        t.tp_f4 = x
        t.ts_f4 = SpeciesValues({Species.CO2: 0.1, Species.NOx: 0.3})
        t.tsp_f4 = SpeciesValues({Species.CO2: x, Species.NOx: x / 3})
        t.tm_f4 = ThrustModeValues({m: 0.1 * (i + 1) for i, m in enumerate(ThrustMode)})
        t.tsm_f4 = SpeciesValues({Species.CO2: ThrustModeValues({m: 0.7 * (i + 1) for i, m in enumerate(ThrustMode)})})
        t.t_i4 = np.int64(7)
        t.tp_i4 = np.arange(5, dtype=np.int64)
        path = os.path.join(tmp, 't.nc')
        with TrajectoryStore.create(base_file=path) as ts:
            ts.add(t)
        TrajectoryStore.active_in_thread = None
        with TrajectoryStore.open(base_file=path) as ts:
            r = ts[0]

            def leaves(v, pre=''):
                if isinstance(v, (SpeciesValues, ThrustModeValues)):
                    for k, e in v.items():
                        yield from leaves(e, pre + '[' + k.name + ']')
                else:
                    yield pre, v
            for f in ('t_f4', 'tp_f4', 'ts_f4', 'tsp_f4', 'tm_f4', 'tsm_f4', 't_i4', 'tp_i4'):
                a, b = dict(leaves(getattr(t, f))), dict(leaves(getattr(r, f)))
                if set(a) != set(b):
                    problems.append(f'{f}: keys differ')
                    continue
                for k in a:
                    if not np.array_equal(np.asarray(a[k]), np.asarray(b[k])):
                        problems.append(f'{f}{k}: added {np.asarray(a[k]).tolist()!r} reads back {np.asarray(b[k]).tolist()!r}')
                    elif isinstance(a[k], np.ndarray) and a[k].dtype != b[k].dtype:
                        problems.append(f'{f}{k}: added as {a[k].dtype}, reads back as {b[k].dtype}')
    except Exception as e:   # noqa
        problems.append(f'{type(e).__name__}: {e}')
    finally:
        TrajectoryStore.active_in_thread = None
        shutil.rmtree(tmp, ignore_errors=True)
    return dict(reproduced=bool(problems), observed=problems[:6], required='values kept with the field type and read back equal')


def replay_unset(payload):
    """Native: a trajectory with an optional field of each of the six shapes explicitly left unset (None) is added and read
    back (field set given first / last, any hash seed): every such field reads back unset (None, or no species), never numbers."""
    import os
    import shutil
    import tempfile
    from AEIC.performance.types import ThrustModeValues
    from AEIC.storage import Dimension as D, Dimensions, FieldMetadata, FieldSet
    from AEIC.trajectories import TrajectoryStore
    from AEIC.types import SpeciesValues
    from contracts.C07 import _mk
    shapes = dict(o_t=(), o_tp=(D.POINT,), o_ts=(D.SPECIES,), o_tsp=(D.SPECIES, D.POINT), o_tm=(D.THRUST_MODE,), o_tsm=(D.SPECIES, D.THRUST_MODE))
    problems = []
    for only in list(shapes) + ['all']:
        name = 'c03_unset_' + only
        if not FieldSet.known(name):
            FieldSet(name, **{k: FieldMetadata(dimensions=Dimensions(D.TRAJECTORY, *v), description='', units='', required=False)
                              for k, v in shapes.items() if only in (k, 'all')})
        tmp = tempfile.mkdtemp(prefix='c03u-', dir=os.environ.get('VERIF_SCRATCH'))
        TrajectoryStore.active_in_thread = None
        try:
            t = _mk(0)
            t.add_fields(FieldSet.from_registry(name))
            for k in shapes:
                if only in (k, 'all'):
                    setattr(t, k, None)
            p = os.path.join(tmp, 'o.nc')
            with TrajectoryStore.create(base_file=p) as ts:
                ts.add(t)
            TrajectoryStore.active_in_thread = None
            with TrajectoryStore.open(base_file=p) as ts:
                r = ts[0]
                for k in shapes:
                    if only in (k, 'all'):
                        v = getattr(r, k)
                        if not (v is None or (isinstance(v, SpeciesValues) and len(v) == 0)):
                            problems.append(f'optional field {k} left unset reads back as {v!r}')
        except Exception as e:   # noqa
            problems.append(f'trajectory with the optional field(s) {only} left unset: {type(e).__name__}: {e}')
        finally:
            TrajectoryStore.active_in_thread = None
            shutil.rmtree(tmp, ignore_errors=True)
    return dict(reproduced=bool(problems), observed=problems[:6], required='unset optional fields of every shape can be stored and read back unset')


def replay_two_files(payload):
    """Native: a base file with species {CO2, H2O} and a file made by create_associated with species {NOx, SO2}: after
    reopening both, every value carries the species it was stored under."""
    import os
    import shutil
    import tempfile
    from AEIC.storage import Dimension as D, Dimensions, FieldMetadata, FieldSet
    from AEIC.trajectories import TrajectoryStore
    from AEIC.types import Species, SpeciesValues
    from contracts.C07 import _mk
    for nm in ('c03_two_base', 'c03_two_assoc'):
        if not FieldSet.known(nm):
            FieldSet(nm, **{nm + '_e': FieldMetadata(dimensions=Dimensions(D.TRAJECTORY, D.SPECIES), description='', units='')})
    tmp = tempfile.mkdtemp(prefix='c03f-', dir=os.environ.get('VERIF_SCRATCH'))
    problems = []
    TrajectoryStore.active_in_thread = None
    try:
        b, a = os.path.join(tmp, 'b.nc'), os.path.join(tmp, 'a.nc')
        with TrajectoryStore.create(base_file=b) as ts:
            for i in range(2):
                t = _mk(i)
                t.add_fields(FieldSet.from_registry('c03_two_base'))
                t.c03_two_base_e = SpeciesValues({Species.CO2: 1.0 + i, Species.H2O: 2.0 + i})
                ts.add(t)
        TrajectoryStore.active_in_thread = None

        class Extra:
            def __init__(self, i):
                self.c03_two_assoc_e = SpeciesValues({Species.NOx: 10.0 + i, Species.SO2: 20.0 + i})
        count = [0]

        def mapping(traj):
            count[0] += 1
            return Extra(count[0])
        with TrajectoryStore.open(base_file=b) as ts:
            ts.create_associated(a, ['c03_two_assoc'], mapping)
        TrajectoryStore.active_in_thread = None
        with TrajectoryStore.open(base_file=b, associated_files=[a]) as ts:
            for i in range(2):
                r = ts[i]
                base = {k.name: float(v) for k, v in r.c03_two_base_e.items()}
                extra = {k.name for k in r.c03_two_assoc_e.keys()}
                if base != {'CO2': 1.0 + i, 'H2O': 2.0 + i}:
                    problems.append(f'trajectory {i}: base-file species values read back as {base}')
                if extra != {'NOx', 'SO2'}:
                    problems.append(f'trajectory {i}: associated-file values stored under NOx, SO2 read back under {sorted(extra)}')
    except Exception as e:   # noqa
        problems.append(f'{type(e).__name__}: {e}')
    finally:
        TrajectoryStore.active_in_thread = None
        shutil.rmtree(tmp, ignore_errors=True)
    return dict(reproduced=bool(problems), observed=problems[:4], required='each file of a store keeps its own species list')


WITNESSES = {
    'first={CO2},second={CO2,H2O}': dict(replay_fn='contracts.C03:replay_later', payload=dict(model={})),
}
