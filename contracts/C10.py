"""C10 -- rejected or interrupted store operations lose and corrupt nothing.

add: exceptional postconditions "state as in old" (length, rows, next index, cache) for every way
add can raise.  merge: the ghost file system makes every file-system call a step that may fail
(one injected OSError at each step in turn) and every validation rule a refusal; at each of these
exits the postconditions of the property are checked, and a retry with the cause corrected must
succeed.
"""
from __future__ import annotations

import z3

from contracts.storemodel import (TS, FieldSetStub, GhostFile, IndexGroup, TrajRec, install_ghost_os, install_store_models,
                                  make_cache, make_ncfiles, make_store, register_file)
from contracts.C09 import NAMES, ROWJ, OpenedStub, handle_clauses, setup_inputs
from pyvc.source import Unsupported
from pyvc.values import Model, PyExc, to_z3
from pyvc.verify import unit

LEVEL = 'proof'
EXPLANATION = ('Exceptional postconditions of add (every rejection) and of merge (every validation refusal and an injected '
               'OSError at every file-system step), with the retry clause checked by running merge again.')
FUNCS = [TS + '.' + m for m in ('add', '_write_trajectory', 'merge', '_check_merge_arguments')]
ROW = z3.Function('row_content', z3.IntSort(), z3.IntSort())


FieldedTraj = TrajRec


@unit('C10', 'add.rejections-leave-the-store-unchanged', FUNCS, replay='contracts.C10:replay_add')
def add_rejections(h):
    I = h.I
    install_store_models(h, I)
    in_memory = h.choice(2) == 1
    h.ctx.named['in_memory'] = z3.BoolVal(in_memory)
    fresh = False
    if in_memory:
        # a store that already holds trajectories, or a brand-new one (nothing added yet: its identifier mode is still open)
        fresh = h.choice(2) == 1
        h.ctx.named['fresh_store'] = z3.BoolVal(fresh)
        n = 0 if fresh else 2
        cache = make_cache(h, I, in_memory=True)
        for k in range(n):
            cache.attrs['__entries__'].append((k, TrajRec(ROW(z3.IntVal(k)), schema=7)))
        st = make_store(h, I, 'CREATE', None, cache, next_index=n, indexable=(None if fresh else False), in_memory=True)
        f = None
        length0 = z3.IntVal(n)
    else:
        n = h.int('rows')
        h.assume(n >= 1)
        f = GhostFile('store.nc', n, lambda k: ROW(to_z3(k)))
        ncf = make_ncfiles(h, I, [f], None)
        cache = make_cache(h, I, in_memory=False)
        # an append session that has just been opened has nothing in its cache yet; later the cache holds some trajectory
        cache_empty = h.choice(2) == 1
        h.ctx.named['cache_empty'] = z3.BoolVal(cache_empty)
        if not cache_empty:
            cache.attrs['__entries__'].append((0, TrajRec(ROW(z3.IntVal(0)), schema=7)))
        st = make_store(h, I, 'APPEND', ncf, cache, next_index=n, indexable=False)
        length0 = to_z3(f.length)
    rows0 = f.rows if f is not None else None
    entries0 = list(cache.attrs['__entries__'])
    # a store without a file also rejects a valid trajectory that no longer fits (nothing can be evicted to a file)
    kind = h.choice(4 if (in_memory and not fresh) else 3)
    if fresh:
        # a new store takes its field sets and its use of flight identifiers from the first trajectory: what is invalid for it
        # is a missing required value - or a trajectory that does not fit into the whole cache (kind 4)
        kind = [2, 4][h.choice(2)]
    h.ctx.named['rejection_kind'] = z3.IntVal(kind)
    indexable0 = st.attrs.get('indexable')
    if kind == 0:
        t = FieldedTraj(h.int('new_traj_id'), schema=8, fieldsets={'base', 'other_fields'})              # other field sets
    elif kind == 1:
        t = FieldedTraj(h.int('new_traj_id'), schema=7, fid=h.int('new_flight_id'))   # inconsistent identifier use
    elif kind == 3:
        t = FieldedTraj(h.int('new_traj_id'), schema=7)
        I.hooks['cache_full'] = True
    elif kind == 4:
        t = FieldedTraj(h.int('new_traj_id'), schema=7, fid=h.int('new_flight_id'))
        I.hooks['cache_smaller_than_a_trajectory'] = True
    else:
        t = FieldedTraj(h.int('new_traj_id'), schema=7, missing_required=True)

    def write_data(I_, fi, a, k):
        tr = k['traj']
        # by contract of _write_data/_write_to_nc_var (C03): variables are written one after the other; a
        # required value that is None raises ValueError when its variable is reached -- the row may
        # already have been extended by the variables written before it
        if getattr(tr, 'missing_required', False):
            f.write_row(k['index'], z3.IntVal(-1))
            I_.raise_('ValueError', 'Data field "f_scalar" is None at index')
        f.write_row(k['index'], tr.tid)
    if f is not None:
        h.summary(TS + '._write_data', write_data)
    try:
        r = h.method(st, 'add', t)
    except PyExc as e:
        h.ensure('rejection-is-a-named-refusal', h.exc_is(e, 'ValueError') or h.exc_is(e, 'RuntimeError'), note=repr(e.inst))
        h.ensure('rejected-addition-leaves-length', to_z3(h.I.len_(st)) == length0, note=repr(e.inst))
        h.ensure('rejected-addition-leaves-next-index', to_z3(h.getattr(st, '_next_index')) == to_z3(length0) if not in_memory
                 else to_z3(h.getattr(st, '_next_index')) == n, note=repr(e.inst))
        h.ensure('rejected-addition-leaves-cache', cache.attrs['__entries__'] == entries0, note=repr(e.inst))
        h.ensure('rejected-addition-leaves-the-identifier-mode', st.attrs.get('indexable') is indexable0,
                 note=f'indexable {indexable0!r} -> {st.attrs.get("indexable")!r} after {e.inst!r}')
        if f is not None:
            q = h.ctx.fresh('any_index', z3.IntSort())
            h.ensure('rejected-addition-leaves-every-row', z3.And(to_z3(f.length) == length0,
                                                                   z3.Implies(z3.And(q >= 0, q < length0), f.rows(q) == rows0(q))),
                     note=repr(e.inst))
        return
    h.fail('invalid-addition-is-rejected', ['different field sets', 'inconsistent identifier use', 'missing required value', 'a trajectory that no longer fits', 'a trajectory larger than the whole cache'][kind]
           + ' was accepted' + (' by an in-memory store' if in_memory else ''))


@unit('C10', 'add.first-addition-to-a-store-with-associated-files', FUNCS, replay='contracts.C10:replay_add')
def add_first_associated(h):
    """A new file store declared with an associated file for field set 'extra'; its first trajectory lacks that field set.
    The addition must be rejected as what it is (ValueError) before anything is created or counted."""
    I = h.I
    install_store_models(h, I)
    cache = make_cache(h, I, in_memory=False)
    st = make_store(h, I, 'CREATE', None, cache, next_index=0, indexable=None, pending=True)
    st.attrs['associated_fieldsets'] = {'extra'}
    st.attrs['associated_files'] = [('extra.nc', ['extra'])]
    created = []
    h.trust('TrajectoryStore._create by contract: creates the base and the associated NetCDF files (a state change)')
    h.summary(TS + '._create', lambda I_, fi, a, k: created.append('files'))

    def write_data(I_, fi, a, k):
        I_.raise_('AttributeError', "Container has no attribute 'x1'")       # what reading a field of an absent field set does
    h.summary(TS + '._write_data', write_data)
    t = FieldedTraj(h.int('new_traj_id'), schema=7, fieldsets={'base'})
    try:
        h.method(st, 'add', t)
    except PyExc as e:
        h.ensure('rejection-is-a-named-refusal', h.exc_is(e, 'ValueError') or h.exc_is(e, 'RuntimeError'), note=repr(e.inst))
        h.ensure('rejected-addition-creates-no-files', not created and st.attrs.get('_file_creation_pending') is True)
        h.ensure('rejected-addition-leaves-length-and-next-index', len(cache.attrs['__entries__']) == 0 and
                 z3.is_true(z3.simplify(to_z3(h.getattr(st, '_next_index')) == 0)))
        h.ensure('rejected-addition-leaves-the-identifier-mode', st.attrs.get('indexable') is None)
        return
    h.fail('invalid-addition-is-rejected', 'a trajectory without the field set of the associated file was accepted')


class SpeciesFieldStub(Model):
    """A field with a species dimension (what add() looks at: required, dimensions)."""

    def __init__(self, dims):
        self.dims = dims

    def py_getattr(self, I, name):
        if name == 'dimensions':
            return self.dims
        if name == 'required':
            return False
        raise Unsupported('FieldMetadata.' + name)


class OneFieldSet(Model):
    def __init__(self, name, field):
        self.name, self.field = name, field

    def py_getattr(self, I, name):
        from pyvc.values import Builtin
        if name == 'items':
            return Builtin('items', lambda: [(self.name, self.field)])
        raise Unsupported('FieldSet.' + name)


@unit('C10', 'add.species-outside-the-file-of-its-field-set', FUNCS, replay='contracts.C10:replay_add_two_files')
def add_species_two_files(h):
    """A store over two files with their own species dimensions - the base file {CO2, H2O}, a file made later by
    create_associated {CO2, H2O, NOx} - opened for appending.  A trajectory whose *base-file* field carries NOx cannot be
    stored in the base file: it must be refused before anything changes (it does not matter that another file of the store
    has a NOx slot); the same value in the other file's field is fine as far as this check goes."""
    I = h.I
    install_store_models(h, I)
    S = I.lookup_fq('AEIC.types.species:Species')
    sp = {m.name: m for m in S.members}
    Dimension = I.lookup_fq('AEIC.storage.dimensions:Dimension')
    Dimensions = I.lookup_fq('AEIC.storage.dimensions:Dimensions')
    dm = {m.name: m for m in Dimension.members}
    dims = I.call(Dimensions, [dm['TRAJECTORY'], dm['SPECIES']], {})
    SV = I.lookup_fq('AEIC.types.species:SpeciesValues')
    n = h.int('rows')
    h.assume(n >= 1)
    f0 = GhostFile('store.nc', n, lambda k: ROW(to_z3(k)))
    f1 = GhostFile('extra.nc', n, lambda k: ROW(to_z3(k)))
    ncf0 = make_ncfiles(h, I, [f0], None, fs_name='base')
    ncf1 = make_ncfiles(h, I, [f1], None, fs_name='extra')
    ncf0.attrs['species'] = [sp['CO2'], sp['H2O']]
    ncf1.attrs['species'] = [sp['CO2'], sp['H2O'], sp['NOx']]
    cache = make_cache(h, I, in_memory=False)
    st = make_store(h, I, 'APPEND', ncf0, cache, next_index=n, indexable=False)
    st.attrs['_nc_files'] = [ncf0, ncf1]
    st.attrs['_nc'] = {'base': ncf0, 'extra': ncf1}
    fields = {'base': OneFieldSet('e_base', SpeciesFieldStub(dims)), 'extra': OneFieldSet('e_extra', SpeciesFieldStub(dims))}
    h.summary('AEIC.storage.field_sets:FieldSet.from_registry', lambda I_, fi, a, k: fields[a[-1]])
    bad_in_base = h.choice(2) == 0
    h.ctx.named['nox_in_the_base_file_field'] = z3.BoolVal(bad_in_base)
    t = FieldedTraj(h.int('new_traj_id'), schema=7, fieldsets={'base', 'extra'})
    t.extra['e_base'] = I.call(SV, [{sp['CO2']: h.real('b_co2'), **({sp['NOx']: h.real('b_nox')} if bad_in_base else {})}], {})
    t.extra['e_extra'] = I.call(SV, [{sp['CO2']: h.real('x_co2'), sp['NOx']: h.real('x_nox')}], {})
    written = []

    def write_data(I_, fi, a, k):
        # by contract of the value layer (C03): a species without a slot in the file of its field set is refused by the
        # writer - but only when that variable is reached, i.e. after the store has counted the trajectory
        written.append('row')
        if bad_in_base:
            I_.raise_('ValueError', 'species NOx is not in the species dimension of the NetCDF file')
    h.summary(TS + '._write_data', write_data)
    entries0 = list(cache.attrs['__entries__'])
    try:
        h.method(st, 'add', t)
    except PyExc as e:
        if not bad_in_base:
            h.fail('valid-addition-is-accepted', repr(e.inst) + ' at ' + str(e.inst.where))
            return
        h.ensure('rejection-is-a-named-refusal', h.exc_is(e, 'ValueError'), note=repr(e.inst))
        h.ensure('rejected-before-anything-is-written-or-counted',
                 not written and cache.attrs['__entries__'] == entries0 and z3.is_true(z3.simplify(to_z3(h.getattr(st, '_next_index')) == n)),
                 note=f'written: {written}; cache entries {len(cache.attrs["__entries__"])}; next index {h.getattr(st, "_next_index")}; {e.inst!r}')
        return
    if bad_in_base:
        h.fail('invalid-addition-is-rejected', 'a species without a slot in the file of its own field set was accepted')


def replay_add_two_files(payload):
    """Native: base file with species {CO2, H2O}, a create_associated file with {CO2, H2O, NOx}, both opened for appending;
    a trajectory whose base-file species field carries NOx must be refused and leave the store as it was."""
    import os
    import shutil
    import tempfile
    from AEIC.storage import Dimension, Dimensions, FieldMetadata, FieldSet
    from AEIC.trajectories import TrajectoryStore
    from AEIC.types import Species, SpeciesValues
    from contracts.C07 import _mk
    problems = []
    for nm in ('c10_two_base', 'c10_two_extra'):
        if not FieldSet.known(nm):
            FieldSet(nm, **{nm + '_e': FieldMetadata(dimensions=Dimensions(Dimension.TRAJECTORY, Dimension.SPECIES), description='', units='')})
    tmp = tempfile.mkdtemp(prefix='c10s-', dir=os.environ.get('VERIF_SCRATCH'))
    try:
        base, extra = os.path.join(tmp, 'base.nc'), os.path.join(tmp, 'extra.nc')

        def traj(i, base_species):
            t = _mk(i)
            t.add_fields(FieldSet.from_registry('c10_two_base'))
            t.c10_two_base_e = SpeciesValues({Species[s]: float(i + k) for k, s in enumerate(base_species)})
            return t
        TrajectoryStore.active_in_thread = None
        with TrajectoryStore.create(base_file=base) as ts:
            for i in range(2):
                ts.add(traj(i, ['CO2', 'H2O']))

        class Extra:
            FIELD_SETS = [FieldSet.from_registry('c10_two_extra')]

            def __init__(self):
                self.c10_two_extra_e = SpeciesValues({Species.CO2: 1.0, Species.H2O: 2.0, Species.NOx: 3.0})

        def mapper(t):
            return Extra()
        TrajectoryStore.active_in_thread = None
        with TrajectoryStore.open(base_file=base) as ts:
            ts.create_associated(extra, ['c10_two_extra'], mapper)
        TrajectoryStore.active_in_thread = None
        with TrajectoryStore.append(base_file=base, associated_files=[extra]) as ts:
            bad = traj(7, ['CO2', 'NOx'])
            bad.add_fields(FieldSet.from_registry('c10_two_extra'))
            bad.c10_two_extra_e = SpeciesValues({Species.CO2: 1.0, Species.NOx: 3.0})
            n0 = len(ts)
            try:
                ts.add(bad)
                problems.append('a NOx value in a field of the base file (species CO2, H2O) was accepted')
            except Exception as e:   # noqa
                if not isinstance(e, ValueError):
                    problems.append(f'refused with {type(e).__name__}: {e}')
            if len(ts) != n0:
                problems.append(f'after the rejection the store has {len(ts)} trajectories, it had {n0}')
            good = traj(8, ['CO2', 'H2O'])
            good.add_fields(FieldSet.from_registry('c10_two_extra'))
            good.c10_two_extra_e = SpeciesValues({Species.CO2: 1.0, Species.NOx: 3.0})
            try:
                idx = ts.add(good)
                if idx != n0:
                    problems.append(f'the next valid addition got index {idx}, expected {n0}')
            except Exception as e:   # noqa
                problems.append(f'the next valid addition failed: {type(e).__name__}: {e}')
        TrajectoryStore.active_in_thread = None
        try:
            with TrajectoryStore.open(base_file=base, associated_files=[extra]) as ts:
                if len(ts) != 3:
                    problems.append(f'reopened: {len(ts)} trajectories, expected the 3 successful additions')
                for i in range(len(ts)):
                    ts[i]
        except Exception as e:   # noqa
            problems.append(f'reopened store cannot be read: {type(e).__name__}: {e}')
    except Exception as e:   # noqa
        import traceback
        problems.append('scenario failed: ' + traceback.format_exc()[-400:])
    finally:
        TrajectoryStore.active_in_thread = None
        shutil.rmtree(tmp, ignore_errors=True)
    return dict(reproduced=bool(problems), observed=problems[:5], required='rejected addition leaves the store exactly as it was')


def run_merge(h, files, kwargs=None):
    I = h.I
    cls = h.cls(TS)
    return I.call(I.getattr(cls, 'merge'), ['out.aeic-store', [f.name for f in files]], kwargs or {})


def readable_somewhere(I, names):
    nc = I.hooks['nc_files']
    return all((n in nc) or (('out.aeic-store/' + n) in nc) for n in names)


@unit('C10', 'merge.interrupted-at-every-file-system-step', FUNCS, replay='contracts.C10:replay_merge', max_paths=20000)
def merge_interrupted(h):
    k = 2
    indexed = h.choice(2) == 1
    files, gos, loaded, open_summary = setup_inputs(h, k, indexed=indexed)
    if indexed:
        for j, f in enumerate(files):
            f.index_ids, f.index_rows = [h.int(f'id_{j}')], [z3.IntVal(0)]
            h.assume(to_z3(f.length) >= 1)
        h.assume(f.index_ids[0] != files[0].index_ids[0] if j else True)
    h.summary(TS + '.open', open_summary)
    names = [f.name for f in files]
    # dry run to count the file-system steps of a successful merge, then fail each of them in turn
    nsteps = 10      # a fault-free merge takes 5 (6 with an index) steps; later steps = no fault
    step = 1 + h.choice(nsteps + 1)
    gos.fault_at = step
    h.ctx.named['fault_at_step'] = z3.IntVal(step)
    # the interruption is a failing call (OSError; RuntimeError is what netCDF4 raises for an HDF5-level failure such as a full
    # disk while the index is written; MemoryError while a large index is assembled), the user's interrupt arriving during that
    # call (KeyboardInterrupt) or the interpreter being told to exit from a signal handler (SystemExit): "interrupted at any
    # step" does not depend on the kind
    gos.fault_kind = ['OSError', 'KeyboardInterrupt', 'RuntimeError', 'MemoryError', 'SystemExit'][h.choice(5)]
    h.ctx.named['interrupted_by'] = z3.StringVal(gos.fault_kind)
    h.ctx.named['indexed'] = z3.BoolVal(indexed)
    I = h.I
    try:
        run_merge(h, files)
        failed = False
    except PyExc as e:
        failed = True
        exc = e
    handle_clauses(h, gos, '-also-when-interrupted')
    if not failed:
        h.ensure('fault-free-merge-completes', gos.step < step and 'out.aeic-store/metadata.json' in gos.json)
        return
    where = gos.log[-1] if gos.log else '?'
    h.ensure('every-trajectory-readable-after-an-interruption', readable_somewhere(I, names), note=f'failed at: {where}')
    md = gos.json.get('out.aeic-store/metadata.json')
    complete = all(('out.aeic-store/' + n) in I.hooks['nc_files'] for n in names) and \
        ((not indexed) or getattr(I.hooks['nc_files'].get('out.aeic-store/_index.nc'), 'f', None) is not None
         and I.hooks['nc_files']['out.aeic-store/_index.nc'].f.index_ids is not None)
    h.ensure('announced-complete-only-if-complete', (md is None) or complete, note=f'failed at: {where}')
    # retry after correcting the cause (the fault does not recur)
    gos.fault_at = None
    try:
        run_merge(h, files)
        h.ensure('retry-after-an-interruption-succeeds',
                 all(('out.aeic-store/' + n) in I.hooks['nc_files'] for n in names) and
                 gos.json.get('out.aeic-store/metadata.json') is not None, note=f'first attempt failed at: {where}')
    except PyExc as e2:
        h.fail('retry-after-an-interruption-succeeds', f'first attempt failed at: {where}; retry raised {e2.inst!r}')


@unit('C10', 'merge.crash-at-every-step', FUNCS, replay='contracts.C10:replay_merge')
def merge_crash_points(h):
    """A crash (no exception handler runs) immediately before any file-system step: what is on disk at
    that moment must keep every trajectory readable and must not announce an incomplete directory."""
    indexed = h.choice(2) == 1
    files, gos, loaded, open_summary = setup_inputs(h, 2, indexed=indexed)
    if indexed:
        for j, f in enumerate(files):
            f.index_ids, f.index_rows = [z3.IntVal(10 + j)], [z3.IntVal(0)]
            h.assume(to_z3(f.length) >= 1)
    h.summary(TS + '.open', open_summary)
    names = [f.name for f in files]
    I = h.I
    bad_readable, bad_complete = [], []

    def snapshot(what):
        nc = I.hooks['nc_files']
        if not readable_somewhere(I, names):
            bad_readable.append(what)
        if gos.json.get('out.aeic-store/metadata.json') is not None:
            idx = nc.get('out.aeic-store/_index.nc')
            complete = all(('out.aeic-store/' + n) in nc for n in names) and \
                ((not indexed) or (idx is not None and idx.f.index_ids is not None and idx.closed))
            if not complete:
                bad_complete.append(what)
    gos.on_tick.append(snapshot)
    run_merge(h, files)
    snapshot('end')
    h.ensure('every-trajectory-readable-at-every-crash-point', not bad_readable, note=f'unreadable before: {bad_readable}')
    h.ensure('announced-complete-only-if-complete-at-every-crash-point', not bad_complete,
             note=f'metadata.json present but parts missing before: {bad_complete}')


@unit('C10', 'merge.refused-then-retried', FUNCS, replay='contracts.C10:replay_merge')
def merge_refused(h):
    kind = h.choice(3)
    h.ctx.named['refusal_kind'] = z3.IntVal(kind)
    if kind == 0:
        files, gos, loaded, open_summary = setup_inputs(h, 2, fsnames={0: ('base',), 1: ('base', 'emissions')})
    else:
        files, gos, loaded, open_summary = setup_inputs(h, 2)
    I = h.I
    if kind == 1:
        I.hooks['nc_files'][NAMES[1]].groups['_index'] = IndexGroup(files[1])      # mixed indexability
    h.summary(TS + '.open', open_summary)
    names = [f.name for f in files]
    if kind == 2:
        gos.dirs.add('out.aeic-store')            # output already exists
    try:
        run_merge(h, files)
        h.fail('invalid-merge-is-refused', 'merge returned')
        return
    except PyExc as e:
        h.ensure('refusal-is-a-named-error', h.exc_is(e, 'ValueError'), note=repr(e.inst))
    h.ensure('refused-merge-leaves-inputs-in-place', all(n in I.hooks['nc_files'] for n in names))
    handle_clauses(h, gos, '-also-when-refused')
    h.ensure('refused-merge-announces-nothing', 'out.aeic-store/metadata.json' not in gos.json)
    # correct the cause and retry
    if kind == 0:
        open2 = setup_fs = None
        def open_fixed(I_, fi, a, kw):
            s = open_summary(I_, fi, a, kw)
            s.fsnames = ('base',)
            return s
        h.summary(TS + '.open', open_fixed)
    elif kind == 1:
        del I.hooks['nc_files'][NAMES[1]].groups['_index']
    else:
        gos.dirs.discard('out.aeic-store')
    try:
        run_merge(h, files)
        h.ensure('corrected-retry-succeeds', gos.json.get('out.aeic-store/metadata.json') is not None)
    except PyExc as e2:
        h.fail('corrected-retry-succeeds', f'retry raised {e2.inst!r}')


# "a merged directory that announces itself as complete really contains all parts": inputs that would be moved onto one
# another (same file name, from a list or from a numbered pattern) are C09's unit; it is an obligation of this property too
from contracts import C09 as _c09   # noqa: E402
from pyvc.verify import UNITS as _UNITS   # noqa: E402
for _u in list(_UNITS.get('C09', [])):
    if _u.name == 'merge.inputs-with-the-same-file-name':
        unit('C10', _u.name, _u.func, replay=_u.replay, max_paths=_u.max_paths)(_u.fn)


# ------------------------------------------------------------------------------------------------
def replay_add(payload):
    import os
    import shutil
    import tempfile
    from AEIC.trajectories import TrajectoryStore
    from contracts.C07 import _mk
    TrajectoryStore.active_in_thread = None
    tmp = tempfile.mkdtemp(prefix='c10-', dir=os.environ.get('VERIF_SCRATCH'))
    problems = []
    try:
        for in_memory in (False, True):
            path = os.path.join(tmp, 'a.nc')
            ts = TrajectoryStore.create() if in_memory else TrajectoryStore.create(base_file=path)
            model = []
            for i in range(2):
                ts.add(_mk(i))
                model.append(float(1000 + i))
            bad = _mk(50)
            del bad._data['starting_mass']          # a required per-trajectory value that was never set
            bad2 = _mk(51, fid=4)
            for b, what in ((bad, 'missing required value'), (bad2, 'inconsistent identifier use')):
                try:
                    ts.add(b)
                    problems.append(f'{"in-memory" if in_memory else "file"}: {what} accepted')
                except Exception:   # noqa
                    pass
                if len(ts) != len(model):
                    problems.append(f'{"in-memory" if in_memory else "file"}: length {len(ts)} after rejected add ({what}), expected {len(model)}')
            try:
                idx = ts.add(_mk(2))
                if idx != len(model):
                    problems.append(f'next good add got index {idx}, expected {len(model)}')
                model.append(1002.0)
            except Exception as e:   # noqa
                problems.append(f'good add after rejections raised {type(e).__name__}')
            try:
                ts.close()
            except Exception as e:   # noqa
                problems.append(f'close raised {type(e).__name__}: {e}')
            if not in_memory:
                with TrajectoryStore.open(base_file=path) as r:
                    if len(r) != len(model):
                        problems.append(f'reopen shows {len(r)} rows, expected {len(model)}')
            TrajectoryStore.active_in_thread = None
        # a brand-new store: its first addition is rejected; it must still accept either kind of trajectory afterwards
        for in_memory in (False, True):
            for with_id in (True, False):
                TrajectoryStore.active_in_thread = None
                path = os.path.join(tmp, f'fresh-{in_memory}-{with_id}.nc')
                ts = TrajectoryStore.create() if in_memory else TrajectoryStore.create(base_file=path)
                bad = _mk(60, fid=(None if with_id else 9))
                del bad._data['starting_mass']
                try:
                    ts.add(bad)
                    problems.append('missing required value accepted by a new store')
                except Exception:   # noqa
                    pass
                try:
                    ts.add(_mk(0, fid=(5 if with_id else None)))
                except Exception as e:   # noqa
                    problems.append(f'{"in-memory" if in_memory else "file"} store: after a rejected first addition a valid trajectory '
                                    f'{"with" if with_id else "without"} a flight id is refused: {type(e).__name__}: {e}')
                try:
                    ts.close()
                except Exception:   # noqa
                    pass
        # additions that can only be judged against the existing files: an append session straight after opening (empty
        # cache) offered other field sets, and a species outside the file's species dimension
        from AEIC.storage import Dimension, Dimensions, FieldMetadata, FieldSet
        from AEIC.types import Species, SpeciesValues
        if not FieldSet.known('c10_extra'):
            FieldSet('c10_extra', x1=FieldMetadata(dimensions=Dimensions(Dimension.TRAJECTORY), description='', units=''))
        if not FieldSet.known('c10_species'):
            FieldSet('c10_species', e=FieldMetadata(dimensions=Dimensions(Dimension.TRAJECTORY, Dimension.SPECIES), description='', units=''))

        def with_extra(i):
            t = _mk(i)
            t.add_fields(FieldSet.from_registry('c10_extra'))
            t.x1 = float(i)
            return t

        def with_species(i, names):
            t = _mk(i)
            t.add_fields(FieldSet.from_registry('c10_species'))
            t.e = SpeciesValues({Species[n]: float(i) for n in names})
            return t
        scenarios = [('append to a base-only file a trajectory with an extra field set', lambda i: _mk(i), with_extra(50), True),
                     ('append to a file with an extra field set a base-only trajectory', with_extra, _mk(51), True),
                     ('add a species outside the species dimension of the file', lambda i: with_species(i, ['CO2']), with_species(52, ['CO2', 'H2O']), False)]
        for what, good, bad, reopen in scenarios:
            TrajectoryStore.active_in_thread = None
            path = os.path.join(tmp, f'late-{scenarios.index((what, good, bad, reopen))}.nc')
            ts = TrajectoryStore.create(base_file=path)
            ts.add(good(0))
            ts.add(good(1))
            if reopen:
                ts.close()
                TrajectoryStore.active_in_thread = None
                ts = TrajectoryStore.append(base_file=path)
            n0 = len(ts)
            try:
                ts.add(bad)
                problems.append(f'{what}: accepted')
            except (ValueError, RuntimeError):
                pass
            except Exception as e:   # noqa
                problems.append(f'{what}: surfaced as {type(e).__name__}: {e}')
            if len(ts) != n0 or ts._next_index != n0:
                problems.append(f'{what}: length {len(ts)}, next index {ts._next_index} after the rejected addition, expected {n0}')
            try:
                idx = ts.add(good(2))
                if idx != n0:
                    problems.append(f'{what}: the next valid addition got index {idx}, expected {n0}')
            except Exception as e:   # noqa
                problems.append(f'{what}: the next valid addition is refused: {type(e).__name__}: {e}')
            try:
                ts.close()
                TrajectoryStore.active_in_thread = None
                with TrajectoryStore.open(base_file=path) as r:
                    if len(r) != n0 + 1:
                        problems.append(f'{what}: reopened store has {len(r)} trajectories, {n0 + 1} were added successfully')
            except Exception as e:   # noqa
                problems.append(f'{what}: close / reopen failed: {type(e).__name__}: {e}')
        # a new file store declared with an associated file: a first trajectory without that field set
        TrajectoryStore.active_in_thread = None
        b, a_ = os.path.join(tmp, 'assoc-b.nc'), os.path.join(tmp, 'assoc-a.nc')
        ts = TrajectoryStore.create(base_file=b, associated_files=[(a_, ['c10_extra'])])
        try:
            try:
                ts.add(_mk(0))
                problems.append('first trajectory without the field set of the associated file: accepted')
            except (ValueError, RuntimeError):
                pass
            except Exception as e:   # noqa
                problems.append(f'first trajectory without the field set of the associated file: surfaced as {type(e).__name__}: {e}')
            if len(ts) != 0 or ts._next_index != 0 or os.path.exists(b) or os.path.exists(a_):
                problems.append(f'after that rejected first addition: length {len(ts)}, next index {ts._next_index}, files created: '
                                f'{[os.path.basename(p) for p in (b, a_) if os.path.exists(p)]}')
            try:
                if ts.add(with_extra(1)) != 0:
                    problems.append('the valid first addition after it did not get index 0')
            except Exception as e:   # noqa
                problems.append(f'the valid first addition after it is refused: {type(e).__name__}: {e}')
        finally:
            try:
                ts.close()
            except Exception:   # noqa
                pass
        # a new in-memory store whose first trajectory (with a flight id) is larger than the whole cache
        TrajectoryStore.active_in_thread = None
        ts = TrajectoryStore.create(cache_size_mb=1)
        try:
            try:
                ts.add(_mk(0, n=40000, fid=5))
                problems.append('a 40000-point trajectory accepted by a 1 MiB in-memory store')
            except (ValueError, RuntimeError):
                pass
            try:
                ts.add(_mk(1))
            except Exception as e:   # noqa
                problems.append(f'after a first trajectory that was too large (and had a flight id), a valid trajectory without one is refused: {type(e).__name__}: {e}')
        finally:
            try:
                ts.close()
            except Exception:   # noqa
                pass
        # an in-memory store that is full: the trajectory that no longer fits is rejected, the others stay
        TrajectoryStore.active_in_thread = None
        ts = TrajectoryStore.create(cache_size_mb=1)
        kept = 0
        try:
            for i in range(40):
                try:
                    ts.add(_mk(i, n=1000))
                    kept += 1
                except RuntimeError:
                    break
            if kept == 40:
                problems.append('in-memory store of 1 MiB accepted 40 trajectories of 1000 points')
            if len(ts) != kept or ts._next_index != kept:
                problems.append(f'full in-memory store: length {len(ts)}, next index {ts._next_index} after the rejected addition, {kept} were accepted')
            for i in range(kept):
                try:
                    if ts[i].starting_mass != float(1000 + i):
                        problems.append(f'full in-memory store: index {i} holds another trajectory after the rejected addition')
                except Exception as e:   # noqa
                    problems.append(f'full in-memory store: index {i} no longer readable after the rejected addition: {type(e).__name__}: {e}')
                    break
        finally:
            try:
                ts.close()
            except Exception:   # noqa
                pass
        return dict(reproduced=bool(problems), observed=problems[:6], required='rejected additions leave the store unchanged')
    finally:
        TrajectoryStore.active_in_thread = None
        shutil.rmtree(tmp, ignore_errors=True)


def replay_merge(payload):
    """Native fault injection: os.rename / os.mkdir / open / the index writer are made to fail at
    each step in turn; plus refused merges followed by a corrected retry."""
    import os
    import shutil
    import tempfile
    from unittest import mock
    from AEIC.trajectories import TrajectoryStore
    from contracts.C07 import _mk
    problems = []
    if 'holds-it-open' in str(payload.get('clause')) or 'closes-every-store' in str(payload.get('clause')):
        # what an input moved while merge() still holds it open does natively: the completed merged directory cannot be read
        # in the process that made it (C09's child-process scenario)
        from contracts.C09 import native_merge_then_open
        problems += native_merge_then_open(6)
        return dict(reproduced=bool(problems), observed=problems, required='every trajectory readable from the merged directory once merge() has returned')
    tmp = tempfile.mkdtemp(prefix='c10m-', dir=os.environ.get('VERIF_SCRATCH'))
    try:
        def make_inputs(d, extra_fs=False, ids=True):
            os.mkdir(d)
            names = []
            for j in range(2):
                TrajectoryStore.active_in_thread = None
                p = os.path.join(d, f's{2 - j}.nc')
                with TrajectoryStore.create(base_file=p) as ts:
                    for i in range(2):
                        ts.add(_mk(10 * j + i, fid=(100 + 10 * j + i) if ids else None))
                names.append(p)
            return names

        def all_readable(names, out):
            ok = True
            for p in names:
                q = p if os.path.exists(p) else os.path.join(out, os.path.basename(p))
                if not os.path.exists(q):
                    ok = False
                    continue
                TrajectoryStore.active_in_thread = None
                with TrajectoryStore.open(base_file=q) as ts:
                    ok = ok and len(ts) == 2
            return ok
        real_rename, real_mkdir = os.rename, os.mkdir
        for step, kind in [(s_, k_) for k_ in (OSError, KeyboardInterrupt) for s_ in range(1, 5)]:
            d = os.path.join(tmp, f'case{step}{kind.__name__}')
            names = make_inputs(d)
            out = os.path.join(d, 'out.aeic-store')
            calls = dict(n=0)

            def failing_rename(a, b, _c=calls, _s=step, _k=kind):
                _c['n'] += 1
                if _c['n'] == _s:
                    raise _k('injected')
                return real_rename(a, b)
            TrajectoryStore.active_in_thread = None
            with mock.patch('os.rename', failing_rename):
                try:
                    TrajectoryStore.merge(out, list(names))
                    failed = False
                except (OSError, KeyboardInterrupt):
                    failed = True
            if not failed:
                continue
            if not all_readable(names, out):
                problems.append(f'rename #{step} interrupted by {kind.__name__}: some input no longer readable')
            if os.path.exists(os.path.join(out, 'metadata.json')):
                problems.append(f'rename #{step} interrupted by {kind.__name__}: metadata.json present')
            TrajectoryStore.active_in_thread = None
            try:
                TrajectoryStore.merge(out, list(names))
            except Exception as e:   # noqa
                problems.append(f'rename #{step} interrupted by {kind.__name__}: retry raised {type(e).__name__}: {e}')
        # interruptions of other kinds inside the index writer and the metadata writer (an HDF5-level failure surfaces as
        # RuntimeError, an exhausted memory as MemoryError, a signal handler's sys.exit as SystemExit)
        real_index = TrajectoryStore._create_merged_store_index
        for point in ('index', 'metadata'):
            for kind in (RuntimeError, MemoryError, SystemExit):
                d = os.path.join(tmp, f'case-{point}-{kind.__name__}')
                names = make_inputs(d)
                out = os.path.join(d, 'out.aeic-store')

                def boom(*a, _k=kind, **k):
                    raise _k('NetCDF: HDF error' if _k is RuntimeError else 'injected')
                TrajectoryStore.active_in_thread = None
                patch = mock.patch.object(TrajectoryStore, '_create_merged_store_index', staticmethod(boom)) if point == 'index' \
                    else mock.patch('json.dump', boom)
                with patch:
                    try:
                        TrajectoryStore.merge(out, list(names))
                        continue
                    except BaseException:   # noqa
                        pass
                if not all_readable(names, out):
                    problems.append(f'{point} step interrupted by {kind.__name__}: some input is readable neither from its original file nor from a complete merged directory')
                if os.path.exists(os.path.join(out, 'metadata.json')):
                    problems.append(f'{point} step interrupted by {kind.__name__}: metadata.json announces a merged store')
                TrajectoryStore.active_in_thread = None
                try:
                    TrajectoryStore.merge(out, list(names))
                except Exception as e:   # noqa
                    problems.append(f'{point} step interrupted by {kind.__name__}: retry raised {type(e).__name__}: {e}')
        # refused merge (mixed indexability), then corrected retry
        d = os.path.join(tmp, 'refused')
        names = make_inputs(d)
        TrajectoryStore.active_in_thread = None
        extra = os.path.join(d, 'noid.nc')
        with TrajectoryStore.create(base_file=extra) as ts:
            ts.add(_mk(77))
        out = os.path.join(d, 'out.aeic-store')
        TrajectoryStore.active_in_thread = None
        try:
            TrajectoryStore.merge(out, names + [extra])
            problems.append('mixed indexability accepted')
        except ValueError:
            pass
        TrajectoryStore.active_in_thread = None
        try:
            TrajectoryStore.merge(out, names)
        except Exception as e:   # noqa
            problems.append(f'corrected retry after a refused merge raised {type(e).__name__}: {e}')
        # hard crashes (the process dies, no handler runs) at the index-building and at the metadata step: a child
        # process performs the merge and is killed there; what it left on disk must not announce a complete store
        # unless every part is there
        import subprocess
        import sys
        for point in ('_create_merged_store_index', 'json.dump'):
            d = os.path.join(tmp, 'crash-' + point.replace('.', '-'))
            names = make_inputs(d)
            out = os.path.join(d, 'out.aeic-store')
            code = ('import os, sys, json\n'
                    'from unittest import mock\n'
                    'from AEIC.trajectories import TrajectoryStore\n'
                    'def die(*a, **k):\n    os._exit(7)\n'
                    + ("TrajectoryStore._create_merged_store_index = staticmethod(die)\n" if point == '_create_merged_store_index'
                       else "json.dump = die\nimport AEIC.trajectories.store as st\nst.json.dump = die\n")
                    + f'TrajectoryStore.merge({out!r}, {list(names)!r})\n')
            subprocess.run([sys.executable, '-c', code], capture_output=True, text=True, timeout=300, env=dict(os.environ))
            meta = os.path.join(out, 'metadata.json')
            if os.path.exists(meta) and os.path.getsize(meta) > 0:
                have_all = all(os.path.exists(os.path.join(out, os.path.basename(p))) for p in names)
                have_index = os.path.exists(os.path.join(out, '_index.nc'))
                if not (have_all and have_index):
                    problems.append(f'crash inside {point}: metadata.json announces a complete merged store but '
                                    f'{"the flight-id index" if not have_index else "an input file"} is missing')
            if not all_readable(names, out):
                problems.append(f'crash inside {point}: some input no longer readable from either place')
        return dict(reproduced=bool(problems), observed=problems[:6],
                    required='inputs readable, no premature metadata, retry possible')
    finally:
        TrajectoryStore.active_in_thread = None
        shutil.rmtree(tmp, ignore_errors=True)
