"""C17 -- each simulated flight is independent of the builder's history and failures.

Functions under contract (bodies executed): Builder.__init__, __getattr__, __setattr__, fly,
_iterate_mass, _fly_iteration; LegacyBuilder.__init__.
Callee contracts (assumed here, proved under C02/C06/C15): LegacyContext.__init__ (sets the
context fields or raises the rejection reason), LegacyBuilder.calc_starting_mass / fly_climb /
fly_cruise / fly_descent (may raise the rejection reason), Trajectory (opaque record).

History independence is reduced to frame + write-before-read: every exit of fly leaves the
builder's constructor-time state untouched and removes the transient context; whatever else a flight
leaves behind on the builder (or its class) is *poisoned* for the next flight, and a flight that reads
poisoned state before overwriting it fails the obligation.
"""
from __future__ import annotations

import z3

from pyvc.loops import invariant_while
from pyvc.source import Unsupported
from pyvc.values import Builtin, Model, Obj, Poison, PoisonRead, PyExc, to_real
from pyvc.verify import unit

LEVEL = 'proof'
EXPLANATION = ('fly() executed symbolically with every callee allowed to raise its rejection reason at every call; '
               'exceptional postcondition: the surfaced exception is the callee\'s; frame: constructor-time fields '
               'unchanged, context removed, leftovers never read before written (two consecutive flights, second one '
               'from poisoned leftovers); _iterate_mass by loop invariant (unbounded iteration count).')
B = 'AEIC.trajectories.builders.base'
L = 'AEIC.trajectories.builders.legacy'
FUNCS = [f'{B}:Builder.__init__', f'{B}:Builder.__getattr__', f'{B}:Builder.__setattr__', f'{B}:Builder.fly',
         f'{B}:Builder._iterate_mass', f'{B}:Builder._fly_iteration', f'{L}:LegacyBuilder.__init__']

REASONS = ['unknown-airport', 'airport-above-cruise', 'out-of-envelope', 'missing-weather', 'outside-weather-domain']


class Traj(Model):
    """Trajectory as an opaque record (its container behaviour is C02's subject)."""
    type_names = ('Trajectory',)

    def __init__(self, final_mass, tag):
        self.attrs = {}
        self.final_mass = final_mass
        self.tag = tag

    def py_getattr(self, I, name):
        if name == 'fix':
            return Builtin('fix', lambda: None)
        if name == 'aircraft_mass':
            return MassArr(self)
        if name in self.attrs:
            return self.attrs[name]
        raise Unsupported('Trajectory.' + name)

    def py_setattr(self, I, name, val):
        self.attrs[name] = val


class MassArr(Model):
    def __init__(self, t):
        self.t = t

    def py_getitem(self, I, idx):
        if idx == -1:
            ba = I.hooks.get('burn_assumption')
            if ba is not None:
                ba(self.t.final_mass)
            return self.t.final_mass
        raise Unsupported('aircraft_mass[...]')


class OpenDs(Model):
    def py_getattr(self, I, name):
        if name == 'close':
            return Builtin('close', lambda: None)
        raise Unsupported('Dataset.' + name)


class World:
    """Callee contracts with nondeterministic rejections, one fresh world per flight."""

    def __init__(self, h, tag, slim=False):
        self.h, self.tag, self.slim = h, tag, slim
        self.raised = []
        self.n = 0

    def maybe_raise(self, I, reasons, where):
        k = self.h.choice(len(reasons) + 1)
        if k == 0:
            return
        r = reasons[k - 1]
        cls = {'missing-weather': 'FileNotFoundError'}.get(r, 'ValueError')
        inst = I.mk_exc(cls, f'{r} ({where}, flight {self.tag})')
        self.raised.append(inst)
        from pyvc.values import PyExc as PE
        raise PE(inst)

    def fresh_real(self, base):
        self.n += 1
        return self.h.real(f'{base}_{self.tag}_{self.n}')

    def install(self, given_mass):
        h, I = self.h, self.h.I

        def ctx_init(I_, fi, a, k):
            selfobj = a[0]
            kw = dict(k)
            self.maybe_raise(I_, ['unknown-airport'] if self.slim else ['unknown-airport', 'airport-above-cruise', 'missing-weather'],
                             'context construction')
            for name in ('builder', 'ac_performance', 'mission'):
                selfobj.attrs[name] = kw[name]
            selfobj.attrs['starting_mass'] = kw.get('starting_mass')
            selfobj.attrs['total_fuel_mass'] = None
            selfobj.attrs['ground_track'] = 'ground-track'
            selfobj.attrs['initial_altitude'] = self.fresh_real('initial_altitude')
            # weather is a Weather object (no file opened yet) iff options.use_weather
            uw = I_.getattr(I_.getattr(kw['builder'], 'options'), 'use_weather')
            if I_.truth(uw):
                selfobj.attrs['weather'] = self.h.new('AEIC.weather:Weather', data_dir='weather-dir', _main_ds=None,
                                                      _ds_date=None, _ds=None, _ds_time_idx=None)
            else:
                selfobj.attrs['weather'] = None
            return None
        h.summary(f'{L}:LegacyContext.__init__', ctx_init)

        def calc_mass(I_, fi, a, k):
            b = a[0]
            self.maybe_raise(I_, ['out-of-envelope'], 'calc_starting_mass')
            fuel = self.fresh_real('fuel')
            self.h.assume(fuel > 0, 'calc_starting_mass: trip fuel > 0 (positive distance and fuel flow)')
            I_.setattr(b, 'total_fuel_mass', fuel)
            return self.fresh_real('starting_mass')
        h.summary(f'{L}:LegacyBuilder.calc_starting_mass', calc_mass)

        def phase(name):
            def f(I_, fi, a, k):
                wx = I_.getattr(a[0], 'weather')
                if wx is not None and not self.slim and name == 'fly_climb' and self.h.choice(2) == 1:
                    wx.attrs['_main_ds'] = OpenDs()      # a ground-speed query opened the day's file
                    wx.attrs['_ds'] = wx.attrs['_main_ds']
                self.maybe_raise(I_, ['out-of-envelope'] if self.slim else ['out-of-envelope', 'outside-weather-domain'], name)
                if name == 'fly_climb' and len(a) > 1 and isinstance(a[1], Traj):
                    # C02 (level-change.climb): the first appended point carries the builder's current starting mass and trip fuel
                    a[1].attrs['__first__'] = (I_.getattr(a[0], 'starting_mass'), I_.getattr(a[0], 'total_fuel_mass'))
                return None
            return f
        for ph in ('fly_climb', 'fly_cruise', 'fly_descent'):
            h.summary(f'{L}:LegacyBuilder.{ph}', phase(ph))
        h.model('new:AEIC.trajectories.trajectory:Trajectory',
                lambda I_, cls, **kw: Traj(self.fresh_real('final_mass'), self.tag))


def make_builder(h, max_iters=None):
    it = h.bool('opt_iterate_mass')
    opt = h.bool('opt_optimize_traj')
    iters = h.int('opt_max_mass_iters') if max_iters is None else max_iters
    tol = h.real('opt_mass_iter_reltol')
    h.assume(tol > 0, 'mass_iter_reltol > 0')
    options = h.construct(f'{B}:Options', optimize_traj=opt, iterate_mass=it,
                          use_weather=(h.bool('opt_use_weather') if max_iters is None else False),
                          max_mass_iters=iters, mass_iter_reltol=tol)
    b = h.construct(f'{L}:LegacyBuilder', options=options)
    return b, options, tol


def mission(h, tag, with_id_choice=True):
    fid = None if (not with_id_choice or h.choice(2) == 0) else h.int('flight_id_' + tag)
    return h.new('AEIC.missions.mission:Mission', origin='AAA', destination='BBB', departure=None, arrival=None,
                 load_factor=h.real('load_factor_' + tag), aircraft_type='B738', flight_id=fid), fid


def loop_contract(h, tol):
    """_iterate_mass's while loop, by invariant (unbounded iteration count).  The roles of the loop's
    variables are discovered from their values, not from their names: t = the local holding the
    trajectory, r = the local equal to that trajectory's residual (ghost field set by _fly_iteration),
    flags = the Boolean locals / builder attributes assigned inside the loop.
    Invariant: r is t's residual; any raised flag => |r| < tol; trip fuel > 0; r < 1."""
    import ast as _ast

    def roles(I, st, fr):
        loc = fr.locals
        b = loc.get('self')
        names, attrs = set(), set()
        for n in _ast.walk(st):
            tg = []
            if isinstance(n, _ast.Assign):
                tg = n.targets
            elif isinstance(n, (_ast.AugAssign, _ast.AnnAssign)):
                tg = [n.target]
            for t in tg:
                for e in ([t] if not isinstance(t, (_ast.Tuple, _ast.List)) else t.elts):
                    if isinstance(e, _ast.Name):
                        names.add(e.id)
                    elif isinstance(e, _ast.Attribute) and isinstance(e.value, _ast.Name) and e.value.id == 'self':
                        attrs.add(e.attr)
        ts = [k for k, v in loc.items() if isinstance(v, Traj)]
        if len(ts) != 1 or ts[0] not in names:
            raise Unsupported('_iterate_mass loop: cannot identify the trajectory variable')
        t = ts[0]
        res = loc[t].attrs.get('__res__')
        rs = [k for k, v in loc.items() if k in names and z3.is_expr(v) and res is not None and z3.eq(v, res)]
        if len(rs) != 1:
            raise Unsupported('_iterate_mass loop: cannot identify the residual variable')
        return b, t, rs[0], names, attrs

    state = {}

    def is_bool(v):
        return isinstance(v, bool) or z3.is_bool(v)

    def inv(I, fr):
        b, t, r, names, attrs = state['roles']
        loc = fr.locals
        tv, rv = loc[t], to_real(loc[r])
        if not isinstance(tv, Traj) or tv.attrs.get('__res__') is None:
            return z3.BoolVal(False)
        fuel = I.getattr(b, 'total_fuel_mass')
        if fuel is None:
            return z3.BoolVal(False)
        conj = [to_real(tv.attrs['__res__']) == rv, to_real(fuel) > 0, rv < 1]
        first = tv.attrs.get('__first__')
        if first is not None:
            # the trajectory in hand was flown from the builder's current starting mass and trip fuel
            conj += [to_real(first[0]) == to_real(I.getattr(b, 'starting_mass')), to_real(first[1]) == to_real(fuel)]
        for k in names:
            if k in loc and is_bool(loc[k]):
                f = loc[k] if z3.is_expr(loc[k]) else z3.BoolVal(loc[k])
                conj.append(z3.Implies(f, z3.And(rv < tol, rv > -tol)))
        for a in attrs:
            v = I.getattr(b, a)
            if is_bool(v):
                f = v if z3.is_expr(v) else z3.BoolVal(v)
                conj.append(z3.Implies(f, z3.And(rv < tol, rv > -tol)))
        return z3.And(*conj)

    def havoc(I, fr):
        w = h.I.hooks['world']
        b, t, r, names, attrs = state['roles']
        loc = fr.locals
        for k in sorted(names):
            v = loc.get(k)
            if k == t:
                nt = Traj(w.fresh_real('havoc_final_mass'), w.tag)
                nt.attrs['__res__'] = w.fresh_real('havoc_res')
                if isinstance(v, Traj) and '__first__' in v.attrs:
                    nt.attrs['__first__'] = (w.fresh_real('havoc_first_mass'), w.fresh_real('havoc_first_fuel'))
                loc[k] = nt
            elif is_bool(v):
                w.n += 1
                loc[k] = h.bool(f'havoc_{k}_{w.tag}_{w.n}')
            elif isinstance(v, int):
                w.n += 1
                loc[k] = h.int(f'havoc_{k}_{w.tag}_{w.n}')
            elif z3.is_expr(v) and v.sort() == z3.IntSort():
                w.n += 1
                loc[k] = h.int(f'havoc_{k}_{w.tag}_{w.n}')
            else:
                loc[k] = w.fresh_real('havoc_' + k)
        loc[r] = loc[t].attrs['__res__']
        for a in sorted(attrs):
            v = I.getattr(b, a)
            if is_bool(v):
                w.n += 1
                I.setattr(b, a, h.bool(f'havoc_attr_{a}_{w.tag}_{w.n}'))
            else:
                I.setattr(b, a, w.fresh_real('havoc_attr_' + a))

    base = invariant_while('_iterate_mass.loop', inv, havoc)

    def handler(I, st, fr):
        state['roles'] = roles(I, st, fr)
        return base(I, st, fr)
    h.I.loop_invariants[(f'{B}:Builder._iterate_mass', 0)] = handler


def tag_residual(h):
    """_fly_iteration returns (traj, residual): remember which residual belongs to which trajectory
    (ghost field) so that _iterate_mass's postcondition can talk about 'the returned trajectory'."""
    fi = h.func(f'{B}:Builder._fly_iteration')

    def wrapped(I, fi_, a, k):
        # a flown trajectory burns fuel: final mass < starting mass (C02's guarantee for valid tables)
        h.I.hooks['burn_assumption'] = lambda final: h.assume(final < to_real(I.getattr(a[0], 'starting_mass')),
                                                                 'a flown trajectory burns fuel (final mass < starting mass)')
        t, r = I.call_function(fi_, a, k, force_body=True)
        if isinstance(t, Traj):
            t.attrs['__res__'] = r
        return (t, r)
    h.summary(fi.fq, wrapped)


def snapshot(b):
    return dict(b.attrs)


def deep_snapshot(b):
    """The builder's attributes and, one level down, the fields of the objects they hold (the options object is
    shared by every later flight: a flight must not reconfigure it)."""
    return {k: dict(v.attrs) for k, v in b.attrs.items() if isinstance(v, Obj)}


def deep_changes(b, deep):
    out = []
    for k, fields in deep.items():
        v = b.attrs.get(k)
        if not isinstance(v, Obj):
            continue
        for f, old in fields.items():
            new = v.attrs.get(f)
            same = new is old or (z3.is_expr(new) and z3.is_expr(old) and z3.eq(new, old)) or \
                (not z3.is_expr(new) and not z3.is_expr(old) and type(new) is type(old) and new == old)
            if not same:
                out.append(f'{k}.{f}: {old!r} -> {new!r}')
    return out


def one_flight(h, b, tag, given_mass_choice=True, slim=False):
    w = World(h, tag, slim=slim)
    h.I.hooks['world'] = w
    m, fid = mission(h, tag, with_id_choice=not slim)
    sm = None
    if given_mass_choice and h.choice(2) == 1:
        sm = h.real('given_starting_mass_' + tag)
    w.install(sm)
    perf = h.new('AEIC.performance.models.legacy:LegacyPerformanceModel') if False else 'performance-model'
    try:
        r = h.I.call(h.I.getattr(b, 'fly'), [perf, m], dict(starting_mass=sm))
        return w, ('return', r, fid)
    except PyExc as e:
        return w, ('raise', e, fid)


@unit('C17', 'fly.exceptions-and-frame', FUNCS, replay='contracts.C17:replay')
def fly_unit(h):
    h.trust('callee contracts: LegacyContext.__init__ sets the Context fields or raises the rejection reason; '
            'calc_starting_mass / fly_climb / fly_cruise / fly_descent may raise the rejection reason (C02, C06, C15, C16)')
    b, options, tol = make_builder(h)
    loop_contract(h, tol)
    tag_residual(h)
    before = snapshot(b)
    deep = deep_snapshot(b)
    try:
        w, out = one_flight(h, b, 'f1')
    except PoisonRead as p:
        h.fail('no-stale-state-read', str(p))
        return
    # ---- frame, on every exit
    h.ensure('context-removed-on-every-exit', 'ctx' not in b.attrs)
    same = all(k in b.attrs and b.attrs[k] is v for k, v in before.items())
    h.ensure('constructor-time-state-unchanged', same,
             note='changed: ' + repr([k for k, v in before.items() if b.attrs.get(k) is not v]))
    changed = deep_changes(b, deep)
    h.ensure('options-and-other-shared-objects-not-reconfigured', not changed, note='changed: ' + '; '.join(changed))
    if out[0] == 'raise':
        e = out[1]
        if w.raised:
            h.ensure('rejection-surfaces-the-original-reason', e.inst is w.raised[-1],
                     note=f'callee raised {w.raised[-1]!r}; fly surfaced {e.inst!r} (raised at {e.inst.where})')
        else:
            # fly's own refusals: optimisation not implemented, mass iteration not converged
            ok = h.exc_is(e, 'NotImplementedError') or h.exc_is(e, 'RuntimeError')
            h.ensure('own-refusals-are-documented-ones', ok, note=repr(e.inst) + ' at ' + str(e.inst.where))
    else:
        t, fid = out[1], out[2]
        h.ensure('no-rejection-is-swallowed', not w.raised)
        if not isinstance(t, Traj):
            h.fail('returns-the-trajectory', repr(t))
            return
        res = t.attrs.get('__res__')
        it = options.attrs['iterate_mass']
        if res is not None:
            r = to_real(res)
            h.ensure('mass-iteration-result-within-tolerance', z3.Implies(it, z3.And(r < tol, r > -tol)))
        else:
            h.fail('mass-iteration-result-within-tolerance', 'returned trajectory is not one produced by _fly_iteration')
        h.ensure('flight-id-recorded', (fid is None and 'flight_id' not in t.attrs) or
                 (fid is not None and t.attrs.get('flight_id') is fid))
        h.ensure('reports-starting-mass-and-fuel', 'starting_mass' in t.attrs and 'total_fuel_mass' in t.attrs)


@unit('C17', 'fly.history-independence', FUNCS, replay='contracts.C17:replay', max_paths=20000)
def history_unit(h):
    h.trust('callee contracts as in fly.exceptions-and-frame')
    # the loop of _iterate_mass is unrolled here (max_mass_iters = 3): this unit is about state that
    # leaks from one flight into the next, and only reads made by the program itself may count
    b, options, tol = make_builder(h, max_iters=3)
    tag_residual(h)
    before = snapshot(b)
    cls_before = {c: dict(c.attrs) for c in b.cls.mro()}
    try:
        one_flight(h, b, 'f1', given_mass_choice=False, slim=True)
    except PoisonRead as p:
        h.fail('no-stale-state-read', str(p))
        return
    except Exception as e:   # LoopDone of the invariant loop ends the path
        raise
    leftovers = [k for k in b.attrs if k not in before or b.attrs[k] is not before[k]]
    for k in leftovers:
        b.attrs[k] = Poison(f'builder attribute {k!r} left behind by the previous flight')
    for c, old in cls_before.items():
        for k in list(c.attrs):
            if k not in old or c.attrs[k] is not old[k]:
                c.attrs[k] = Poison(f'class attribute {c.name}.{k} changed by the previous flight')
                leftovers.append(c.name + '.' + k)
    h.ctx.notes.append(f'leftovers poisoned: {leftovers}')
    try:
        one_flight(h, b, 'f2', given_mass_choice=False, slim=True)
    except PoisonRead as p:
        h.fail('second-flight-never-reads-leftovers-of-the-first', str(p))
        return
    h.ensure('second-flight-never-reads-leftovers-of-the-first', True, note=f'leftovers poisoned: {leftovers}')


# the callee contracts assumed by the two units above include a frame: a phase of a flight writes the trajectory and its
# own fields of the per-flight context, and nothing on the builder itself (no memo tables, no reconfigured options).
# These frames are proved on the real bodies by C02's units; they are obligations of this property too.
from contracts import C02 as _c02   # noqa: E402
from pyvc.verify import UNITS as _UNITS   # noqa: E402
for _u in list(_UNITS.get('C02', [])):
    if _u.name in ('calc-starting-mass', 'phase-wrappers', 'level-change.climb', 'level-change.descent', 'cruise', 'context.altitudes'):
        unit('C17', 'callee-frame.' + _u.name, _u.func, replay='contracts.C17:replay', max_paths=_u.max_paths,
             timeout_ms=_u.timeout_ms)(_u.fn)


# ------------------------------------------------------------------------------------------------
def replay(payload):
    """Native scenarios: a rejected flight must surface its reason and leave the builder usable;
    flights after any history must equal a fresh builder's bit for bit."""
    import os
    root = os.environ.get('AEIC_SRC', '/repo/src').rsplit('/src', 1)[0]
    os.environ['AEIC_PATH'] = root + '/tests/data'
    import numpy as np
    import tomllib
    from AEIC.config import Config, config
    from AEIC.missions import Mission
    from AEIC.performance.models import PerformanceModel
    from AEIC.trajectories.builders import LegacyBuilder, Options
    Config.reset()
    Config.load(data_path_overrides=[root + '/tests/data'])
    try:
        pm = PerformanceModel.load(config.file_location('performance/sample_performance_model.toml'))
        with open(config.file_location('missions/sample_missions_10.toml'), 'rb') as f:
            missions = Mission.from_toml(tomllib.load(f))
        problems = []
        for iterate in (False, True):
            opts = Options(iterate_mass=iterate, use_weather=False)
            b = LegacyBuilder(options=opts)
            fresh = [LegacyBuilder(options=Options(iterate_mass=iterate, use_weather=False)).fly(pm, m) for m in missions[:3]]
            bad = Mission('XXX', 'BOS', missions[0].departure, missions[0].arrival, 1.0, 'B738')
            try:
                b.fly(pm, bad)
                problems.append('unknown airport accepted')
            except ValueError:
                pass
            except Exception as e:   # noqa
                problems.append(f'unknown airport surfaced as {type(e).__name__}: {e}')
            if hasattr(b, 'ctx'):
                problems.append('context left on the builder after a rejected flight')
            for m, f0 in zip(missions[:3], fresh):
                try:
                    t = b.fly(pm, m)
                except Exception as e:   # noqa
                    problems.append(f'flight after a rejected one failed: {type(e).__name__}: {e}')
                    continue
                for name in ('aircraft_mass', 'fuel_mass', 'flight_time', 'ground_distance', 'altitude'):
                    if not np.array_equal(getattr(t, name), getattr(f0, name)):
                        problems.append(f'{m.label} iterate_mass={iterate}: {name} differs from a fresh builder')
                        break
                if t.starting_mass != f0.starting_mass:
                    problems.append(f'{m.label}: starting_mass differs from a fresh builder')
        # a flight with a caller-supplied starting mass must not reconfigure the builder for the flights after it
        ib = LegacyBuilder(options=Options(iterate_mass=True, use_weather=False))
        ref = LegacyBuilder(options=Options(iterate_mass=True, use_weather=False)).fly(pm, missions[1])
        try:
            ib.fly(pm, missions[0], starting_mass=float(ref.starting_mass))
        except Exception:   # noqa
            pass
        try:
            after = ib.fly(pm, missions[1])
            for name in ('aircraft_mass', 'fuel_mass', 'flight_time'):
                if not np.array_equal(getattr(after, name), getattr(ref, name)):
                    problems.append(f'{missions[1].label}: after a flight with a given starting mass, {name} differs from a fresh builder '
                                    f'(iterate_mass now {ib.options.iterate_mass})')
                    break
        except Exception as e:   # noqa
            problems.append(f'flight after one with a given starting mass failed: {type(e).__name__}: {e}')
        # one builder, two performance models for the same aircraft type (the second with 25 % more cruise fuel flow): the
        # second flight must be what a fresh builder makes of the second model
        import copy
        with open(config.file_location('performance/sample_performance_model.toml'), 'rb') as f:
            d2 = tomllib.load(f)

        def scale(node):
            if isinstance(node, dict):
                if 'cols' in node and 'data' in node and 'fuel_flow' in node['cols']:
                    j = node['cols'].index('fuel_flow')
                    node['data'] = [[(v * 1.25 if i == j else v) for i, v in enumerate(row)] for row in node['data']]
                for v in node.values():
                    scale(v)
            elif isinstance(node, list):
                for v in node:
                    scale(v)
        scale(d2)
        try:
            pm2 = PerformanceModel.from_data(copy.deepcopy(d2))
            for iterate in (False, True):
                hb = LegacyBuilder(options=Options(iterate_mass=iterate, use_weather=False))
                hb.fly(pm, missions[0])
                got = hb.fly(pm2, missions[0])
                ref2 = LegacyBuilder(options=Options(iterate_mass=iterate, use_weather=False)).fly(pm2, missions[0])
                if got.starting_mass != ref2.starting_mass or not np.array_equal(got.fuel_mass, ref2.fuel_mass):
                    problems.append(f'{missions[0].label} iterate_mass={iterate}: flown with a second performance model after a flight with the '
                                    f'first, starting mass {got.starting_mass!r} / fuel differ from a fresh builder ({ref2.starting_mass!r})')
        except Exception as e:   # noqa
            problems.append(f'two performance models on one builder: {type(e).__name__}: {e}')
        # mass iteration: whatever trajectory is returned, its own leftover-fuel residual is within the requested relative
        # tolerance -- tried with tolerances just below each residual the iteration passes through
        log = []

        class Recording(LegacyBuilder):
            def _fly_iteration(self):
                t, r = super()._fly_iteration()
                log.append((t, float(r)))
                return t, r
        for m in missions[:2]:
            log.clear()
            try:
                Recording(options=Options(iterate_mass=True, use_weather=False, mass_iter_reltol=1e-13, max_mass_iters=8)).fly(pm, m)
            except Exception:   # noqa
                pass
            residuals = [abs(r) for _, r in log]
            for k, rk in enumerate(residuals[:6]):
                if rk == 0.0:
                    continue
                for tol in (rk * 0.995, rk * 1.005):
                    log.clear()
                    try:
                        t = Recording(options=Options(iterate_mass=True, use_weather=False, mass_iter_reltol=tol, max_mass_iters=12)).fly(pm, m)
                    except RuntimeError:
                        continue
                    except Exception as e:   # noqa
                        problems.append(f'{m.label}: mass iteration with tolerance {tol!r} failed: {type(e).__name__}: {e}')
                        continue
                    own = [r for tt, r in log if tt is t]
                    if not own or not abs(own[0]) < tol:
                        problems.append(f'{m.label}: mass iteration with relative tolerance {tol!r} returned a trajectory whose leftover-fuel '
                                        f'residual is {own[0] if own else None!r}')
        # an airport above the cruise level (a performance model with a low ceiling): the original reason, as a ValueError
        try:
            d3 = copy.deepcopy(d2)
            low = []
            for ceiling in (9000, 7000, 12000):
                d3['maximum_altitude_ft'] = ceiling
                low.append(PerformanceModel.from_data(copy.deepcopy(d3)))
            hb = LegacyBuilder(options=Options(iterate_mass=False, use_weather=False))
            for pml in low:
                for m in missions:
                    try:
                        hb.fly(pml, m)
                    except ValueError:
                        pass
                    except (AttributeError, TypeError, NameError, UnboundLocalError, KeyError) as e:
                        problems.append(f'{m.label} with a ceiling of {pml.maximum_altitude_ft} ft: the rejection surfaced as the internal error {type(e).__name__}: {e}')
                        break
                    except Exception:   # noqa
                        pass
        except Exception as e:   # noqa
            problems.append(f'low-ceiling models: {type(e).__name__}: {e}')
        # weather-enabled flights rejected before any weather file was opened: missing weather for the departure date,
        # and an out-of-envelope state at the first climb point
        wb = LegacyBuilder(options=Options(iterate_mass=False, use_weather=True))
        m0 = missions[0]
        for what, mission, ok_types in (('no weather file for the departure date', m0, (FileNotFoundError, ValueError, OSError, KeyError)),
                                        ('load factor 0 (below the table masses) with weather enabled',
                                         Mission(m0.origin, m0.destination, m0.departure, m0.arrival, 0.0, m0.aircraft_type), (ValueError, FileNotFoundError, OSError))):
            try:
                wb.fly(pm, mission)
            except ok_types:
                pass
            except (AttributeError, TypeError, NameError, UnboundLocalError) as e:
                problems.append(f'{what}: the rejection surfaced as the internal error {type(e).__name__}: {e}')
            except Exception:   # noqa
                pass
            if 'ctx' in wb.__dict__:
                problems.append(f'{what}: context left on the builder after the rejected flight')
                del wb.__dict__['ctx']
        return dict(reproduced=bool(problems), observed=problems[:6],
                    required='rejections surface their reason; flights equal a fresh builder bit for bit')
    finally:
        Config.reset()
