"""C16 -- ground speed = | airspeed vector + wind vector |.

Functions under contract: Weather.get_ground_speed, Weather._require_data,
Weather._require_main_ds (executed inline, so their bodies are part of every path).
The Weather object is entered in an arbitrary state satisfying its representation invariant
(any earlier date/hour may be cached), so the postcondition holds after every call history.
"""
from __future__ import annotations

import z3

from pyvc.models import mathfn
from pyvc.models.fs import PathVal
from pyvc.source import Unsupported
from pyvc.values import Builtin, FStr, Model, PyExc, to_real
from pyvc.verify import unit

LEVEL = 'other'
EXPLANATION = ('Postcondition of Weather.get_ground_speed taken from the property statement, proved for all '
               'headings / airspeeds / winds and for every cached state of the Weather object (representation '
               'invariant + preservation = every call history).')
W = 'AEIC.weather:Weather'

R, Z, B = z3.RealSort(), z3.IntSort(), z3.BoolSort()
WU = z3.Function('wind_u', Z, Z, R, R, R, R)      # (day, hour or -1, pressure level, lat, lon)
WV = z3.Function('wind_v', Z, Z, R, R, R, R)
NANU = z3.Function('wind_u_outside', Z, Z, R, R, R, B)
NANV = z3.Function('wind_v_outside', Z, Z, R, R, R, B)
HASVT = z3.Function('file_has_valid_time', Z, B)
ISA_P = z3.Function('isa_pressure', R, R)


class Ts(Model):
    """pandas.Timestamp: (day number, hour)."""
    type_names = ('pandas.Timestamp',)

    def __init__(self, day, hour):
        self.day, self.hour = day, hour

    def py_getattr(self, I, name):
        if name == 'hour':
            return self.hour
        if name == 'strftime':
            return Builtin('strftime', lambda fmt: FStr([fmt, self.day]))
        if name == 'normalize':
            return Builtin('normalize', lambda: Ts(self.day, z3.IntVal(0)))
        if name == 'date':
            return Builtin('date', lambda: Ts(self.day, z3.IntVal(0)))
        raise Unsupported('Timestamp.' + name)

    def py_cmp(self, I, op, o):
        if op in ('==', '!='):
            if not isinstance(o, Ts):
                return op == '!='
            e = z3.And(self.day == o.day, self.hour == o.hour)
            return e if op == '==' else z3.Not(e)
        return NotImplemented


class Ds(Model):
    """xarray.Dataset of one daily file, optionally sliced at one valid_time index."""
    type_names = ('xarray.Dataset',)

    def __init__(self, day, hour=None):
        self.day, self.hour = day, hour

    def key(self):
        # a file without a valid_time axis holds one field; with the axis, the slice selects it
        return self.hour if self.hour is not None else z3.IntVal(-1)

    def py_getattr(self, I, name):
        if name == 'dims':
            return Dims(self)
        if name == 'isel':
            def isel(valid_time=None):
                return Ds(self.day, to_int(valid_time))
            return Builtin('isel', isel)
        if name == 'close':
            return Builtin('close', lambda: None)
        raise Unsupported('Dataset.' + name)

    def py_getitem(self, I, k):
        if k in ('u', 'v'):
            return Da(self, k)
        raise Unsupported(f'Dataset[{k!r}]')


def to_int(v):
    return z3.IntVal(v) if isinstance(v, int) else v


class Dims(Model):
    def __init__(self, ds):
        self.ds = ds

    def py_contains(self, I, item):
        if item == 'valid_time':
            if self.ds.hour is not None:
                return False          # isel drops the dimension
            return HASVT(self.ds.day)
        return item in ('pressure_level', 'latitude', 'longitude')


class Da(Model):
    def __init__(self, ds, var):
        self.ds, self.var = ds, var

    def py_getattr(self, I, name):
        if name == 'interp':
            def interp(pressure_level=None, latitude=None, longitude=None):
                p = pressure_level
                from pyvc.models.arrays import SArr
                if isinstance(p, SArr):
                    p = p.at(0)
                args = (self.ds.day, self.ds.key(), to_real(p), to_real(latitude), to_real(longitude))
                f, n = (WU, NANU) if self.var == 'u' else (WV, NANV)
                return Wind(f(*args), n(*args))
            return Builtin('interp', interp)
        raise Unsupported('DataArray.' + name)


class Wind(Model):
    """Result of DataArray.interp: a 0-d value; NaN outside the hull of the data (assumed
    xarray contract: linear interpolation, NaN outside)."""

    def __init__(self, val, nan):
        self.val, self.nan = val, nan

    def py_getattr(self, I, name):
        if name == 'isnull':
            return Builtin('isnull', lambda: NullFlag(self.nan))
        if name == 'values':
            return self.val
        raise Unsupported('interp result.' + name)

    def py_binop(self, I, op, other, reflected):
        if isinstance(other, Wind):
            other = other.val
        return I.binop(op, other, self.val) if reflected else I.binop(op, self.val, other)

    def py_float(self, I):
        return self.val


class NullFlag(Model):
    def __init__(self, b):
        self.b = b

    def py_getattr(self, I, name):
        if name == 'values':
            return self
        if name == 'any':
            return Builtin('any', lambda: self.b)
        raise Unsupported('isnull().' + name)


def setup(h):
    """Symbolic inputs + an arbitrary Weather object satisfying the representation invariant."""
    I = h.I
    day, hour = h.int('day'), h.int('hour')
    h.assume(z3.And(hour >= 0, hour <= 23), 'departure hour in 0..23')
    tas, alt = h.real('tas'), h.real('altitude')
    lat, lon = h.real('lat'), h.real('lon')
    gt_az = h.real('gt_azimuth')
    h.assume(tas >= 0, 'true airspeed >= 0')
    h.trust('xarray: Dataset.isel(valid_time=i) selects hour i; DataArray.interp is linear interpolation, NaN outside the data hull')
    h.trust('Weather._nc_path maps distinct dates to distinct files, each holding that date\'s data (file naming YYYYMMDD.nc)')
    h.trust('pressure_at_altitude_isa_bada4 by its own contract (C12): a function of altitude only')
    h.model('xarray.open_dataset', lambda I, p, **k: Ds(next(x for x in p.s.parts if z3.is_expr(x))))
    h.summary('AEIC.weather:Weather._nc_path', lambda I, fi, a, k: PathVal(FStr(['weather-file-of-day:', a[1].day])))
    h.summary('AEIC.utils.standard_atmosphere:pressure_at_altitude_isa_bada4',
              lambda I, fi, a, k: ISA_P(to_real(a[0])))
    # ---- state of the object on entry
    st = h.choice(3)
    d0, h0, idx = h.int('cached_day'), h.int('cached_hour'), h.int('cached_slice_index')
    h.ctx.named['state_kind'] = z3.IntVal(st)
    w = h.new(W, data_dir=PathVal('/weather'), _main_ds=None, _ds_date=None, _ds=None, _ds_time_idx=None)
    if st >= 1:
        h.assume(z3.And(h0 >= 0, h0 <= 23, idx >= 0, idx <= 23))
        w.attrs['_main_ds'] = Ds(d0)
        w.attrs['_ds_date'] = Ts(d0, h0)
    if st == 2:
        if h.ctx.branch(HASVT(d0)):
            w.attrs['_ds'] = Ds(d0, idx)
            w.attrs['_ds_time_idx'] = idx
        else:
            w.attrs['_ds'] = w.attrs['_main_ds']
            w.attrs['_ds_time_idx'] = None
    # ---- heading: explicit azimuth or the ground-track point's
    Loc = h.new('AEIC.types.spatial:Location', longitude=lon, latitude=lat)
    pt = h.new('AEIC.trajectories.ground_track:GroundTrack.Point', location=Loc, azimuth=gt_az)
    if h.choice(2) == 0:
        az_arg = None
        heading = gt_az
        h.ctx.named['azimuth_given'] = z3.BoolVal(False)
    else:
        az_arg = h.real('azimuth')
        heading = az_arg
        h.ctx.named['azimuth_given'] = z3.BoolVal(True)
    key = z3.If(HASVT(day), hour, -1)
    args = (day, key, ISA_P(alt) / 100, lat, lon)
    U, V = WU(*args), WV(*args)
    h.ctx.named['wind_u'] = U
    h.ctx.named['wind_v'] = V
    h.ctx.named['has_valid_time'] = HASVT(day)
    h.ctx.named['cached_has_valid_time'] = HASVT(d0)
    if st >= 1:
        sk = (d0, z3.If(HASVT(d0), idx, -1), ISA_P(alt) / 100, lat, lon)
        h.ctx.named['stale_wind_u'] = WU(*sk)
        h.ctx.named['stale_wind_v'] = WV(*sk)
    hr_ = heading * mathfn.PI / 180
    h.ctx.named['sin_heading'] = mathfn.F_SIN(hr_)
    h.ctx.named['cos_heading'] = mathfn.F_COS(hr_)
    outside = z3.Or(NANU(*args), NANV(*args))
    return dict(w=w, t=Ts(day, hour), pt=pt, alt=alt, tas=tas, az=az_arg, heading=heading, U=U, V=V,
                outside=outside, day=day, hour=hour)


def ground_speed_unit(h, east, north):
    """east/north: functions (tas, sin h, cos h) -> airspeed components used in the postcondition."""
    s = setup(h)
    I = h.I
    hr = s['heading'] * mathfn.PI / 180
    try:
        r = h.method(s['w'], 'get_ground_speed', s['t'], s['pt'], s['alt'], s['tas'], s['az'])
    except PyExc as e:
        if h.exc_is(e, 'ValueError'):
            h.ensure('refuses-only-outside-domain', s['outside'], note=repr(e.inst))
        else:
            h.fail('no-internal-error', repr(e.inst))
        return
    h.ensure('outside-domain-is-refused', z3.Not(s['outside']))
    sn, cs = mathfn.F_SIN(hr), mathfn.F_COS(hr)
    r = to_real(r)
    h.ensure('non-negative', r >= 0)
    h.ensure('vector-sum', r * r == (east(s['tas'], sn, cs) + s['U']) ** 2 + (north(s['tas'], sn, cs) + s['V']) ** 2)
    # representation invariant re-established for the requested time (history induction step)
    w = s['w']
    m, dsd, ds = w.attrs['_main_ds'], w.attrs['_ds_date'], w.attrs['_ds']
    ok = isinstance(m, Ds) and isinstance(dsd, Ts) and isinstance(ds, Ds)
    if not ok:
        h.fail('invariant-preserved', 'cached datasets missing after the call')
    else:
        h.ensure('invariant-preserved', z3.And(m.day == s['day'], dsd.day == s['day'], dsd.hour == s['hour'],
                                               ds.day == s['day'],
                                               ds.key() == z3.If(HASVT(s['day']), s['hour'], -1)))


@unit('C16', 'get_ground_speed', ['AEIC.weather:Weather.get_ground_speed', 'AEIC.weather:Weather._require_data',
                                  'AEIC.weather:Weather._require_main_ds'],
      replay='contracts.C16:replay')
def gs_post(h):
    # heading in degrees clockwise from north: east component = TAS sin h, north = TAS cos h
    ground_speed_unit(h, east=lambda tas, s, c: tas * s, north=lambda tas, s, c: tas * c)


@unit('C16', 'get_ground_speed.characterisation-of-known-defect',
      ['AEIC.weather:Weather.get_ground_speed'], characterises='get_ground_speed/vector-sum',
      replay='contracts.C16:replay_defect')
def gs_defect(h):
    # the recorded defect, exactly: east and north airspeed components exchanged
    ground_speed_unit(h, east=lambda tas, s, c: tas * c, north=lambda tas, s, c: tas * s)


@unit('C16', 'spec-lemmas', [])
def spec_lemmas(h):
    """The postcondition formula says what the property says (lemmas about the spec itself)."""
    tas, u, v, s, c = (h.real(n) for n in ('tas', 'u', 'v', 'sin_h', 'cos_h'))
    g = h.real('gs')
    h.assume(z3.And(tas >= 0, s * s + c * c == 1, g >= 0, g * g == (tas * s + u) ** 2 + (tas * c + v) ** 2))
    h.ensure('no-wind-gives-airspeed', z3.Implies(z3.And(u == 0, v == 0), g == tas))
    wspd = h.real('w')
    h.assume(z3.And(wspd >= 0, wspd * wspd == u * u + v * v))
    h.ensure('pure-tailwind-adds', z3.Implies(z3.And(u == wspd * s, v == wspd * c), g == tas + wspd))
    h.ensure('pure-headwind-subtracts', z3.Implies(z3.And(u == -wspd * s, v == -wspd * c, tas >= wspd), g == tas - wspd))
    h.ensure('upper-bound', g <= tas + wspd)
    h.ensure('lower-bound', z3.And(g >= tas - wspd, g >= wspd - tas))
    # joint rotation by an angle with (cos, sin) = (cr, sr)
    cr, sr = h.real('cos_rot'), h.real('sin_rot')
    h.assume(cr * cr + sr * sr == 1)
    s2, c2 = s * cr + c * sr, c * cr - s * sr           # heading + rot (clockwise)
    u2, v2 = u * cr + v * sr, v * cr - u * sr           # wind vector rotated clockwise by the same angle
    h.ensure('rotation-invariance', (tas * s2 + u2) ** 2 + (tas * c2 + v2) ** 2 == g * g)


# ------------------------------------------------------------------------------------------------
# native replay: the counter-model is turned into synthetic weather files and the real
# Weather.get_ground_speed is run; the oracle is the formula of the property statement.

# "the interpolated wind" is the wind at the pressure level of the point's altitude: the altitude -> pressure conversion
# (utils/standard_atmosphere.py, one of this property's anchors) is used by its contract in the units above; that contract is
# C12's ISA unit, and it is an obligation of this property too
from contracts import C12 as _c12   # noqa: E402
from pyvc.verify import UNITS as _UNITS   # noqa: E402
for _u in list(_UNITS.get('C12', [])):
    if _u.name == 'isa.temperature-and-pressure':
        unit('C16', 'callee.' + _u.name, _u.func, replay=_u.replay, max_paths=_u.max_paths, timeout_ms=_u.timeout_ms)(_u.fn)


def replay(payload, defect_oracle=False):
    import math
    import os
    import shutil
    import tempfile

    import numpy as np
    import pandas as pd
    import xarray as xr
    m = payload['model']
    root = os.environ.get('AEIC_SRC', '/repo/src').rsplit('/src', 1)[0]
    os.environ['AEIC_PATH'] = root + '/tests/data'
    from AEIC.config import Config
    from AEIC.trajectories.ground_track import GroundTrack
    from AEIC.types import Location
    from AEIC.weather import Weather

    def f(x, d=0.0):
        try:
            return float(x)
        except (TypeError, ValueError):
            return d
    tas = f(m.get('tas'), 200.0)
    U, V = f(m.get('wind_u')), f(m.get('wind_v'))
    su, sv = f(m.get('stale_wind_u'), U + 37.0), f(m.get('stale_wind_v'), V - 23.0)
    az_given = bool(m.get('azimuth_given'))
    gt_az = f(m.get('gt_azimuth'))
    heading = f(m.get('azimuth')) if az_given else gt_az
    day, hour = int(f(m.get('day'))), int(f(m.get('hour'))) % 24
    st = int(f(m.get('state_kind')))
    d0, h0 = int(f(m.get('cached_day'))), int(f(m.get('cached_hour'))) % 24
    has_vt, c_has_vt = bool(m.get('has_valid_time')), bool(m.get('cached_has_valid_time'))
    if d0 == day:
        c_has_vt = has_vt
    base = pd.Timestamp('2024-03-01')

    def ts(d, hh):
        return base + pd.Timedelta(days=(d % 200)) + pd.Timedelta(hours=hh)
    tmp = tempfile.mkdtemp(prefix='c16-', dir=os.environ.get('VERIF_SCRATCH'))
    try:
        plev = np.array([1000.0, 500.0, 200.0, 100.0])
        lats = np.array([-10.0, 10.0])
        lons = np.array([-10.0, 10.0])

        def write(d, vt, wind_of_hour):
            shape = (len(plev), len(lats), len(lons))
            if vt:
                u = np.stack([np.full(shape, wind_of_hour(hh)[0]) for hh in range(24)])
                v = np.stack([np.full(shape, wind_of_hour(hh)[1]) for hh in range(24)])
                dims = ('valid_time', 'pressure_level', 'latitude', 'longitude')
                coords = dict(valid_time=np.arange(24), pressure_level=plev, latitude=lats, longitude=lons)
            else:
                u = np.full(shape, wind_of_hour(None)[0])
                v = np.full(shape, wind_of_hour(None)[1])
                dims = ('pressure_level', 'latitude', 'longitude')
                coords = dict(pressure_level=plev, latitude=lats, longitude=lons)
            ds = xr.Dataset(dict(u=(dims, u), v=(dims, v), t=(dims, np.zeros_like(u))), coords=coords)
            ds.to_netcdf(os.path.join(tmp, ts(d, 0).strftime('%Y%m%d.nc')))
        write(day, has_vt, lambda hh: (U, V) if (hh is None or hh == hour) else (su, sv))
        if st >= 1 and (d0 % 200) != (day % 200):
            write(d0, c_has_vt, lambda hh: (su, sv))
        Config.reset()
        Config.load(data_path_overrides=[root + '/tests/data'])
        # sin/cos are uninterpreted in the VC: the model's (sin, cos) pair is mapped back to a genuine
        # heading with atan2; the model's own heading value is tried first (it matters when the
        # violation depends on the heading argument itself, e.g. an explicit 0.0)
        cands = [heading]
        if m.get('sin_heading') is not None and m.get('cos_heading') is not None:
            cands.append(math.degrees(math.atan2(f(m['sin_heading']), f(m['cos_heading']))) % 360.0)
        last = None
        for hd in cands:
            w = Weather(tmp)
            pt = GroundTrack.Point(Location(0.0, 0.0), hd if not az_given else gt_az)
            if st >= 1:
                w.get_ground_speed(ts(d0, h0), pt, 9000.0, tas, None)
            got = w.get_ground_speed(ts(day, hour), pt, 9000.0, tas, hd if az_given else None)
            hr = math.radians(hd)
            want = (math.hypot(tas * math.cos(hr) + U, tas * math.sin(hr) + V) if defect_oracle else
                    math.hypot(tas * math.sin(hr) + U, tas * math.cos(hr) + V))
            bad = not math.isclose(got, want, rel_tol=1e-9, abs_tol=1e-9)
            last = dict(reproduced=bad, observed=got, required=want,
                        input=dict(tas=tas, heading_deg=hd, wind_east=U, wind_north=V, azimuth_given=az_given,
                                   gt_azimuth=(hd if not az_given else gt_az),
                                   prior_call=(None if st == 0 else str(ts(d0, h0))), call=str(ts(day, hour)),
                                   has_valid_time=has_vt))
            if bad:
                return last
        return last
    finally:
        try:
            Config.reset()
        except Exception:   # noqa
            pass
        shutil.rmtree(tmp, ignore_errors=True)


def replay_defect(payload):
    """oracle = the recorded defective formula: reproduces when the code differs from the known defect"""
    return replay(payload, defect_oracle=True)


WITNESSES = {
    'heading=90,tas=200,wind=(30,0)': dict(
        replay_fn='contracts.C16:replay',
        payload=dict(model=dict(tas=200.0, wind_u=30.0, wind_v=0.0, azimuth_given=True, azimuth=90.0,
                                gt_azimuth=0.0, day=0, hour=0, state_kind=0, has_valid_time=False))),
}
