"""C20 -- trajectory stores are confined to one thread under every interleaving.

Function under contract: TrajectoryStore.__init__ (the thread-ownership protocol in it).

Method.  The constructor body is executed symbolically; every load / store of the class attribute
``active_in_thread`` is one *atomic action* (conservative for CPython), a ``with <Lock>:`` block
makes its actions one indivisible group (Lock contract: mutual exclusion).  Statements that do not
mention the shared attribute are local steps: they are abstracted to 'continue or raise' (the
abstraction is listed in the evidence).  That gives, per thread, a finite tree of action sequences
with path conditions over the values read.  Obligations:

* sequential (per call, any outcome, from any state satisfying the invariant
  ``first_owner is not None  =>  active_in_thread == first_owner``): the invariant is preserved and a
  call that returns normally is by ``first_owner`` (or there was none) -- induction over call
  histories, including failing constructors and stores opened after others were closed;
* interference freedom: for every pair of action sequences of two *different* threads and every
  interleaving of their atomic actions (Owicki-Gries style: each intermediate assertion 'the value
  I read is still current' is checked against every action of the other thread), the same
  invariant / refusal postcondition holds.  Thread ids and the initial state are symbolic.

A refuted interference obligation *is* a schedule; it is replayed against the real constructor with
a sys.settrace line scheduler.
"""
from __future__ import annotations

import ast
import itertools

import z3

from pyvc.core import PathCtx, explore
from pyvc.interp import Interp
from pyvc import models as models_pkg
from pyvc.rt import MISSING
from pyvc.source import Unsupported
from pyvc.values import Model, Obj, PyExc, SymOpt
from pyvc.verify import unit

LEVEL = 'proof'
EXPLANATION = ('Interference-freedom and sequential invariant obligations over the atomic actions extracted from the '
               'real constructor; thread ids and initial state symbolic; all interleavings of two constructor calls.')
INIT = 'AEIC.trajectories.store:TrajectoryStore.__init__'
SHARED = 'active_in_thread'


def mentions(node):
    return any(isinstance(n, ast.Attribute) and n.attr == SHARED for n in ast.walk(node)) or \
        any(isinstance(n, ast.Name) and n.id == SHARED for n in ast.walk(node))


from pyvc.models import Lock  # noqa: E402  (threading.Lock model: one indivisible action group)


class ThreadPath:
    def __init__(self, actions, outcome, pc, tid, abstracted):
        self.actions, self.outcome, self.pc, self.tid, self.abstracted = actions, outcome, pc, tid, abstracted

    def groups(self):
        """actions grouped into indivisible units (lock regions)."""
        out = []
        for a in self.actions:
            if out and a['group'] is not None and out[-1][-1]['group'] == a['group']:
                out[-1].append(a)
            else:
                out.append([a])
        return out


def thread_paths(repo, prefix, fq=None):
    """All action sequences of one call of the constructor (or of another method ``fq``) by thread  <prefix>_tid."""
    fq = fq or INIT
    abstracted_lines = set()
    inlined_lines = set()
    out = []

    def body(ctx):
        I = Interp(repo, ctx, models_pkg.default_models())
        tid = ctx.const(prefix + '_tid', z3.IntSort())
        I.hooks['thread_ident'] = lambda I_: tid
        actions = []
        fi = I.lookup_fq(fq)
        cls = I.lookup_fq(INIT).cls
        nreads = [0]

        def class_get(I_, c, name):
            if name != SHARED or c is not cls:
                return MISSING
            nreads[0] += 1
            v = SymOpt(ctx.const(f'{prefix}_r{nreads[0]}_none', z3.BoolSort()),
                       ctx.const(f'{prefix}_r{nreads[0]}_val', z3.IntSort()))
            actions.append(dict(kind='read', val=v, line=I_.hooks.get('cur_line'),
                                group=I_.hooks.get('group_counter') if I_.hooks.get('atomic_depth') else None))
            return v

        def class_set(I_, c, name, val):
            if name != SHARED or c is not cls:
                return False
            if val is None:
                w = SymOpt(z3.BoolVal(True), z3.IntVal(0))
            elif isinstance(val, SymOpt):
                w = val
            else:
                w = SymOpt(z3.BoolVal(False), val if z3.is_expr(val) else z3.IntVal(val))
            actions.append(dict(kind='write', val=w, line=I_.hooks.get('cur_line'),
                                group=I_.hooks.get('group_counter') if I_.hooks.get('atomic_depth') else None))
            return True

        def stmt_hook(I_, st, fr):
            if fr.func is not fi:
                if fr.module is fi.module:
                    I_.hooks['cur_line'] = st.lineno      # a helper of the same module executed for real: its own line
                return False
            I_.hooks['cur_line'] = st.lineno
            if mentions(st):
                if isinstance(st, (ast.For, ast.While)):
                    raise Unsupported('loop touching the shared ownership attribute')
                if isinstance(st, ast.If) and not mentions(st.test):
                    c = ctx.choose(2, lambda i: True)
                    I_.exec_block(st.body if c == 0 else st.orelse, fr)
                    return True
                if isinstance(st, ast.With):
                    for item in st.items:
                        if not mentions(item.context_expr) and not _is_lock_expr(item.context_expr):
                            raise Unsupported('with-statement around the shared attribute is not a lock')
                        why = _lock_not_shared(item.context_expr, fi.module)
                        if why:
                            # the Lock contract gives mutual exclusion among holders of one lock object only
                            I_.hooks['lock_not_shared'] = True
                            LOCK_NOTES.add(f'line {st.lineno}: `with {ast.unparse(item.context_expr)}` - {why}')
                return False
            if isinstance(st, (ast.Return, ast.Pass, ast.Global, ast.Nonlocal, ast.Raise, ast.Break, ast.Continue)):
                return False
            # local step: abstracted to 'continue or raise'
            if _calls_method_touching_shared(st, cls):
                # a helper that reads / writes the ownership attribute is not a local step: it is executed for real, so that its
                # loads and stores (and its lock regions) become atomic actions of this constructor call, attributed to the
                # calling line; whatever else the helper does must be within the engine's reach, else the unit is undecided
                inlined_lines.add(st.lineno)
                return False
            abstracted_lines.add(st.lineno)
            if ctx.choose(2, lambda i: True) == 1:
                I_.raise_('Exception', f'local step at line {st.lineno} fails')
            return True
        I.hooks['stmt_hook'] = stmt_hook
        I.hooks['class_attr_get'] = class_get
        I.hooks['class_attr_set'] = class_set
        self_obj = Obj(cls)
        kwargs = {}
        try:
            nparams = len([a for a in fi.node.args.args]) if hasattr(fi.node, 'args') else 1
            I.call_function(fi, [self_obj] * min(1, nparams), kwargs, force_body=True)
            outcome = 'return'
        except PyExc as e:
            outcome = 'raise ' + e.cls.name
        out.append(ThreadPath(actions, outcome, list(ctx.pc), tid, sorted(abstracted_lines)))
    explore(body, lambda trace: PathCtx(trace, timeout_ms=5000), max_paths=3000)
    # merge paths with identical action sequences / outcome class (abstract local failures)
    uniq = {}
    for p in out:
        key = (tuple((a['kind'], a['line'], a['group'] is not None) for a in p.actions), p.outcome == 'return',
               tuple(str(c) for c in p.pc))
        uniq.setdefault(key, p)
    return list(uniq.values()), sorted(abstracted_lines)


LOCK_NOTES = set()


def _lock_not_shared(e, module):
    """None if the context expression denotes one lock object shared by all threads - a class attribute initialised to
    threading.Lock() / RLock() in the class body and assigned nowhere else in the module -, else the reason."""
    if not (isinstance(e, ast.Attribute) and isinstance(e.value, ast.Name)):
        return 'not a plain class attribute: which lock object a thread gets is decided at run time'
    name, owner = e.attr, e.value.id
    tree = module.tree if hasattr(module, 'tree') else None
    if tree is None:
        return 'module source not available'
    init_ok = False
    for c in [n for n in ast.walk(tree) if isinstance(n, ast.ClassDef)]:
        if owner not in (c.name, 'cls', 'self'):
            continue
        for stn in c.body:
            tg = stn.targets[0] if isinstance(stn, ast.Assign) and len(stn.targets) == 1 else (stn.target if isinstance(stn, ast.AnnAssign) else None)
            if isinstance(tg, ast.Name) and tg.id == name and getattr(stn, 'value', None) is not None:
                if ast.unparse(stn.value).replace(' ', '') in ('threading.Lock()', 'threading.RLock()', 'Lock()', 'RLock()'):
                    init_ok = True
                else:
                    return f'class attribute {name} is not initialised to a Lock() in the class body'
    if not init_ok:
        return f'no class-level `{name} = threading.Lock()` found'
    for n in ast.walk(tree):
        if isinstance(n, ast.Attribute) and n.attr == name and isinstance(n.ctx, (ast.Store, ast.Del)):
            return f'{name} is assigned again at line {n.lineno}: threads may hold different lock objects'
        if isinstance(n, ast.Call) and isinstance(n.func, ast.Name) and n.func.id in ('setattr', 'delattr') and len(n.args) >= 2 \
                and isinstance(n.args[1], ast.Constant) and n.args[1].value == name:
            return f'{name} is re-bound through {n.func.id} at line {n.lineno}'
    return None


def _is_lock_expr(e):
    s = ast.unparse(e).lower()
    return 'lock' in s or 'mutex' in s


def _calls_method_touching_shared(st, cls):
    names = set()
    for n in ast.walk(st):
        if isinstance(n, ast.Call) and isinstance(n.func, ast.Attribute) and isinstance(n.func.value, ast.Name) \
                and n.func.value.id in ('self', 'cls', 'TrajectoryStore'):
            names.add(n.func.attr)
    seen = set()
    work = list(names)
    from pyvc.source import FuncInfo
    from pyvc.values import ClassMethodVal, PropertyVal, StaticMethodVal
    while work:
        nm = work.pop()
        if nm in seen:
            continue
        seen.add(nm)
        v, _ = cls.lookup(nm)
        if isinstance(v, (ClassMethodVal, StaticMethodVal)):
            v = v.func
        if isinstance(v, PropertyVal):
            v = v.fget
        if isinstance(v, FuncInfo) and v.name != '__init__' and v.node is not getattr(st, '_own_function', None):
            if mentions(v.node):
                return True
            for n in ast.walk(v.node):
                if isinstance(n, ast.Call) and isinstance(n.func, ast.Attribute) and isinstance(n.func.value, ast.Name) \
                        and n.func.value.id in ('self', 'cls'):
                    work.append(n.func.attr)
    return False


def opt_eq(a: SymOpt, b: SymOpt):
    return a.eq(b)


def inv(shared: SymOpt, owner: SymOpt):
    # first_owner is not None  =>  active_in_thread == first_owner
    return z3.Implies(z3.Not(owner.is_none), opt_eq(shared, owner))


def simulate(h, order, paths, shared0, owner0):
    """Run the atomic action groups in the given order; returns (constraints, final shared, final owner,
    safety condition)."""
    cons = []
    shared, owner = shared0, owner0
    safe = []
    remaining = {id(p): len(p.groups()) for p in paths}
    pos = {id(p): 0 for p in paths}
    for p in order:
        g = p.groups()[pos[id(p)]]
        pos[id(p)] += 1
        for a in g:
            if a['kind'] == 'read':
                cons.append(opt_eq(a['val'], shared))
            else:
                shared = a['val']
        if pos[id(p)] == remaining[id(p)]:
            shared, owner = finish(p, shared, owner, safe)
    return cons, shared, owner, safe


def finish(p, shared, owner, safe):
    """Thread p leaves its constructor: on normal return it has 'created a store'."""
    if p.outcome == 'return':
        me = SymOpt(z3.BoolVal(False), p.tid)
        safe.append(z3.Or(owner.is_none, opt_eq(owner, me)))     # refusal clause
        owner = SymOpt(z3.BoolVal(False), z3.If(owner.is_none, p.tid, owner.val))
    return shared, owner


def schedule_of(order, paths):
    names = {id(paths[0]): 'A'}
    if len(paths) > 1:
        names[id(paths[1])] = 'B'
    pos = {id(p): 0 for p in paths}
    out = []
    for p in order:
        g = p.groups()[pos[id(p)]]
        pos[id(p)] += 1
        out.append([names[id(p)], [(a['kind'], a['line']) for a in g]])
    return out


@unit('C20', 'constructor.sequential', [INIT])
def sequential(h):
    paths, abstracted = thread_paths(h.repo, 'A')
    h.trust('atomicity: each load/store of TrajectoryStore.active_in_thread is one atomic action; '
            'a `with <Lock>:` block is indivisible (threading.Lock contract); threading.get_ident is distinct per live thread')
    h.trust(f'local steps of __init__ abstracted to "continue or raise" (lines {abstracted}); they do not mention {SHARED} '
            '(checked transitively over self.* methods)')
    if not paths:
        raise Unsupported('no constructor paths extracted')
    s0 = SymOpt(h.bool('shared0_none'), h.int('shared0_val'))
    o0 = SymOpt(h.bool('owner0_none'), h.int('owner0_val'))
    h.assume(inv(s0, o0), 'representation invariant on entry: first_owner set => active_in_thread == first_owner')
    saw_return = False
    for i, p in enumerate(paths):
        if not p.actions and p.outcome != 'return':
            continue
        order = [p] * len(p.groups())
        cons, s1, o1, safe = simulate(h, order, [p], s0, o0)
        if not p.groups():
            s1, o1 = finish(p, s0, o0, safe)
        hyp = z3.And(*(p.pc + cons)) if (p.pc or cons) else z3.BoolVal(True)
        if p.outcome == 'return':
            saw_return = True
        h.ensure('invariant-preserved-by-every-call', z3.Implies(hyp, inv(s1, o1)),
                 note=f'path outcome={p.outcome} actions={[(a["kind"], a["line"]) for a in p.actions]}')
        for sc in safe:
            h.ensure('other-thread-refused-after-first-creation', z3.Implies(hyp, sc),
                     note=f'actions={[(a["kind"], a["line"]) for a in p.actions]}')
    if not saw_return:
        h.fail('constructor-can-succeed', 'no path of __init__ returns normally')
    else:
        h.ensure('constructor-can-succeed', True)


@unit('C20', 'constructor.interference-freedom', [INIT], replay='contracts.C20:replay')
def interference(h):
    pa, abstracted = thread_paths(h.repo, 'A')
    pb, _ = thread_paths(h.repo, 'B')
    h.trust('atomicity: each load/store of TrajectoryStore.active_in_thread is one atomic action; '
            'a `with <Lock>:` block is indivisible (threading.Lock contract); threading.get_ident is distinct per live thread')
    s0 = SymOpt(h.bool('shared0_none'), h.int('shared0_val'))
    o0 = SymOpt(h.bool('owner0_none'), h.int('owner0_val'))
    h.assume(inv(s0, o0), 'representation invariant on entry')
    n_inter = 0
    for A in pa:
        for B in pb:
            ga, gb = len(A.groups()), len(B.groups())
            if ga == 0 or gb == 0:
                continue       # a thread without shared actions cannot interfere / be interfered with
            h.ctx.solver.push()
            saved = len(h.ctx.pc)
            try:
                h.ctx.assume(A.tid != B.tid)
                for c in A.pc + B.pc:
                    h.ctx.assume(c)
                for combo in itertools.combinations(range(ga + gb), ga):
                    order = [A if i in combo else B for i in range(ga + gb)]
                    n_inter += 1
                    cons, s1, o1, safe = simulate(h, order, [A, B], s0, o0)
                    hyp = z3.And(*cons) if cons else z3.BoolVal(True)
                    sched = schedule_of(order, [A, B])
                    h.ctx.named['schedule'] = z3.StringVal(repr(sched))
                    h.ensure('no-interleaving-lets-two-threads-create', z3.Implies(hyp, z3.And(*safe) if safe else True),
                             note='schedule=' + repr(sched))
                    h.ensure('invariant-stable-under-interference', z3.Implies(hyp, inv(s1, o1)),
                             note='schedule=' + repr(sched))
            finally:
                del h.ctx.pc[saved:]
                h.ctx.solver.pop()
    h.ctx.named.pop('schedule', None)
    # the Lock contract's precondition (what the grouping of the guarded block rests on)
    h.ensure('the-guard-is-one-lock-object-shared-by-all-threads', not LOCK_NOTES, note='; '.join(sorted(LOCK_NOTES)))
    h.ctx.notes.append(f'{n_inter} interleavings of {len(pa)}x{len(pb)} action sequences')
    if n_inter == 0:
        raise Unsupported('no interleavings generated (zero obligations is an error)')


def _other_functions_mentioning_shared(repo):
    """Every function of the store module other than the constructor whose body mentions the ownership attribute."""
    mod = repo.module('AEIC.trajectories.store')
    out = []
    for cls in [n for n in ast.walk(mod.tree) if isinstance(n, ast.ClassDef)]:
        for fn in cls.body:
            if isinstance(fn, (ast.FunctionDef, ast.AsyncFunctionDef)) and mentions(fn) and not (cls.name == 'TrajectoryStore' and fn.name == '__init__'):
                out.append((cls.name, fn.name))
    for fn in mod.tree.body:
        if isinstance(fn, (ast.FunctionDef, ast.AsyncFunctionDef)) and mentions(fn):
            out.append((None, fn.name))
    return out


@unit('C20', 'other-methods.leave-the-ownership-to-the-constructor', ['AEIC.trajectories.store:TrajectoryStore.close', 'AEIC.trajectories.store:TrajectoryStore.sync',
                                                                         'AEIC.trajectories.store:TrajectoryStore.add', 'AEIC.trajectories.store:TrajectoryStore.merge'],
      replay='contracts.C20:replay_sequential')
def other_methods(h):
    """The two constructor units are an induction over constructor calls; between them, any other method of the store may
    run (close, sync, add, ...).  Obligation: none of them changes the ownership attribute -- either it does not mention it
    at all (syntactic frame), or, if it does, every action sequence of it preserves the invariant
    ``first_owner is not None => active_in_thread == first_owner`` from any state (so that 'before / after close' is covered)."""
    h.trust('syntactic frame: "a function whose body does not mention active_in_thread (by attribute or name) cannot change it" is decided '
            'by a scan of the AST of every class and function of AEIC.trajectories.store, not by the solver; setattr / globals() tricks are not looked for')
    touching = _other_functions_mentioning_shared(h.repo)
    h.ctx.notes.append(f'functions other than the constructor that mention {SHARED}: {touching or "none"}')
    h.ensure('every-other-function-examined', True)
    if not touching:
        h.ensure('ownership-invariant-preserved-by-every-other-method', True, note='no other function mentions the attribute')
        return
    s0 = SymOpt(h.bool('shared0_none'), h.int('shared0_val'))
    o0 = SymOpt(h.bool('owner0_none'), h.int('owner0_val'))
    h.assume(inv(s0, o0), 'representation invariant on entry: first_owner set => active_in_thread == first_owner')
    for cname, fname in touching:
        if cname != 'TrajectoryStore':
            raise Unsupported(f'{cname or "module"}.{fname} mentions {SHARED}')
        paths, _ = thread_paths(h.repo, 'A', fq=f'AEIC.trajectories.store:TrajectoryStore.{fname}')
        for p in paths:
            if not p.actions:
                continue
            cons, shared = [], s0
            for a in p.actions:
                if a['kind'] == 'read':
                    cons.append(opt_eq(a['val'], shared))
                else:
                    shared = a['val']
            hyp = z3.And(*(p.pc + cons)) if (p.pc or cons) else z3.BoolVal(True)
            h.ctx.named['method'] = z3.StringVal(fname)
            h.ensure('ownership-invariant-preserved-by-every-other-method', z3.Implies(hyp, inv(shared, o0)),
                     note=f'{fname}: actions={[(a["kind"], a["line"]) for a in p.actions]} outcome={p.outcome}')
    h.ctx.named.pop('method', None)


# ------------------------------------------------------------------------------------------------
def sequential_faults():
    """No racing needed: thread T1 owns a store, a later constructor call of T1 fails (open on a file that is not
    NetCDF / does not exist); a second thread must still be refused afterwards."""
    import os
    import shutil
    import tempfile
    import threading
    from AEIC.trajectories.store import TrajectoryStore
    problems = []
    tmp = tempfile.mkdtemp(prefix='c20s-', dir=os.environ.get('VERIF_SCRATCH'))
    TrajectoryStore.active_in_thread = None
    keep = {}
    try:
        bad = os.path.join(tmp, 'not-netcdf.nc')
        with open(bad, 'wb') as f:
            f.write(b'this is not a NetCDF file')

        def t1():
            keep['s1'] = TrajectoryStore.create(base_file=os.path.join(tmp, 'one.nc'))
            for how in ('open', 'append'):
                try:
                    getattr(TrajectoryStore, how)(base_file=bad)
                    keep['opened_bad'] = True
                except Exception as e:   # noqa
                    keep.setdefault('errors', []).append(type(e).__name__)
            t1_done.set()
            release.wait(60)          # stay alive: a finished thread's identifier may be reused by the next thread

        def t2():
            try:
                keep['s2'] = TrajectoryStore.create(base_file=os.path.join(tmp, 'two.nc'))
                keep['t2'] = 'created'
            except Exception as e:   # noqa
                keep['t2'] = 'refused: ' + type(e).__name__
        t1_done, release = threading.Event(), threading.Event()
        a = threading.Thread(target=t1)
        a.start()
        t1_done.wait(60)
        b = threading.Thread(target=t2)
        b.start()
        b.join(60)
        release.set()
        a.join(60)
        if keep.get('t2') == 'created':
            problems.append(f'thread 1 owns an open store; after its failed open of an invalid file ({keep.get("errors")}) a second thread was allowed to create a store')
        return problems
    finally:
        for k in ('s1', 's2'):
            try:
                keep[k].close()
            except Exception:   # noqa
                pass
        TrajectoryStore.active_in_thread = None
        shutil.rmtree(tmp, ignore_errors=True)


def closed_then_other_thread():
    """Thread T1 creates stores and closes them (an in-memory one, a file-backed one, both) and stays alive; a second
    thread must still be refused."""
    import os
    import shutil
    import tempfile
    import threading
    from AEIC.trajectories.store import TrajectoryStore
    problems = []
    for what in ('in-memory store closed', 'file-backed store closed', 'in-memory store closed while a file-backed one is open'):
        tmp = tempfile.mkdtemp(prefix='c20c-', dir=os.environ.get('VERIF_SCRATCH'))
        TrajectoryStore.active_in_thread = None
        keep = {}
        done, release = threading.Event(), threading.Event()

        def t1():
            try:
                if what.startswith('in-memory'):
                    if 'while' in what:
                        keep['open'] = TrajectoryStore.create(base_file=os.path.join(tmp, 'one.nc'))
                    TrajectoryStore.create().close()
                else:
                    TrajectoryStore.create(base_file=os.path.join(tmp, 'one.nc')).close()
            except Exception as e:   # noqa
                keep['t1_error'] = f'{type(e).__name__}: {e}'
            done.set()
            release.wait(60)

        def t2():
            try:
                keep['s2'] = TrajectoryStore.create()
                keep['t2'] = 'created'
            except Exception as e:   # noqa
                keep['t2'] = 'refused: ' + type(e).__name__
        a = threading.Thread(target=t1)
        a.start()
        done.wait(60)
        b = threading.Thread(target=t2)
        b.start()
        b.join(60)
        release.set()
        a.join(60)
        if keep.get('t2') == 'created':
            problems.append(f'{what} by the owning thread (still alive): a second thread was then allowed to create a store')
        for k in ('open', 's2'):
            try:
                keep[k].close()
            except Exception:   # noqa
                pass
        TrajectoryStore.active_in_thread = None
        shutil.rmtree(tmp, ignore_errors=True)
    return problems


def replay_sequential(payload):
    seq = closed_then_other_thread() + sequential_faults()
    return dict(reproduced=bool(seq), observed=seq[:4], required='once a thread has created a store, every other thread is refused -- before and after close')


def racing_lock_creation():
    """Two first-time creators, with the schedule that a guard lock made on demand needs in order to fail: thread X is held
    inside the creation of its lock; thread Y makes its own lock, enters the guard and is held just before it records itself
    as the owner; X then finishes - with a lock of its own - and claims; Y claims too.  The scheduling points are the calls
    of threading.Lock() and threading.get_ident() made by the store module while a constructor runs.  With one lock made at
    class definition no Lock() is created during construction, nobody is held, and the scenario is the plain race."""
    import threading
    import AEIC.trajectories.store as store_mod
    from AEIC.trajectories.store import TrajectoryStore
    TrajectoryStore.active_in_thread = None
    real_lock, real_ident = threading.Lock, threading.get_ident
    state = dict(x=None, locks=0)
    y_in_guard, x_done = threading.Event(), threading.Event()
    meta = real_lock()

    class ThreadingProxy:
        def __getattr__(self, name):
            return getattr(threading, name)

        @staticmethod
        def Lock():
            with meta:
                state['locks'] += 1
                first = state['x'] is None
                if first:
                    state['x'] = real_ident()
            if first:
                y_in_guard.wait(3)            # X is held inside "make the lock" until Y is about to claim
            return real_lock()

        @staticmethod
        def get_ident():
            me = real_ident()
            if state['x'] is not None and me != state['x'] and not y_in_guard.is_set():
                y_in_guard.set()              # Y is inside the guard, about to record itself: let X finish first
                x_done.wait(3)
            return me
    results = {}
    hold = threading.Event()

    def racer(name):
        try:
            ts = TrajectoryStore.create()
            results[name] = 'created'
        except RuntimeError:
            results[name] = 'refused'
            ts = None
        except Exception as e:   # noqa
            results[name] = f'{type(e).__name__}: {e}'
            ts = None
        if real_ident() == state['x']:
            x_done.set()
        hold.wait(8)
        if ts is not None:
            try:
                ts.close()
            except Exception:   # noqa
                pass
    saved = store_mod.threading
    store_mod.threading = ThreadingProxy()
    try:
        ths = [threading.Thread(target=racer, args=(n,)) for n in ('A', 'B')]
        ths[0].start()
        import time
        time.sleep(0.3)
        ths[1].start()
        time.sleep(0.5)
        deadline = time.time() + 8
        while len(results) < 2 and time.time() < deadline:
            time.sleep(0.05)
        hold.set()
        for t in ths:
            t.join(10)
    finally:
        store_mod.threading = saved
        TrajectoryStore.active_in_thread = None
    if list(results.values()).count('created') > 1:
        return [f'two threads racing for their first store both created one (each held a guard lock of its own: threading.Lock() was called '
                f'{state["locks"]} times while the constructors ran): {results}']
    return []


def replay(payload):
    r = replay_schedule(payload)
    if r.get('reproduced'):
        return r
    race = racing_lock_creation()
    if race:
        return dict(reproduced=True, observed=race, required='of two threads racing for their first store exactly one succeeds', schedule_replay=r)
    seq = sequential_faults()
    if seq:
        return dict(reproduced=True, observed=seq, required='a thread that owns a store keeps the confinement whatever its later constructor calls do',
                    schedule_replay=r)
    return r


def replay_schedule(payload):
    """Drive the schedule of the refuted obligation against the real constructor with a
    sys.settrace line scheduler: each thread is held before the line of its next atomic action
    until the schedule says it is its turn."""
    import ast as _ast
    import os
    import re
    import shutil
    import sys
    import tempfile
    import threading
    note = payload.get('note') or ''
    msched = re.search(r'schedule=(\[.*\])', note)
    if not msched:
        return dict(reproduced=False, error='no schedule in counter-model')
    sched = _ast.literal_eval(msched.group(1))
    m = payload.get('model', {})
    from AEIC.trajectories.store import TrajectoryStore
    init_code = TrajectoryStore.__init__.__code__
    # initial state: only 'nobody owns' is reachable for two first-time creators
    shared0_none = m.get('shared0_none', True)
    if not shared0_none:
        return dict(reproduced=False, error='counter-model starts from an owned state; not a two-first-creators schedule')
    TrajectoryStore.active_in_thread = None
    steps = [(t, [ln for _, ln in acts]) for t, acts in sched]      # (thread, lines of the group)
    cond = threading.Condition()
    state = dict(i=0)
    results = {}
    tmp = tempfile.mkdtemp(prefix='c20-', dir=os.environ.get('VERIF_SCRATCH'))

    def my_lines(name):
        return [ln for t, lines in steps if t == name for ln in lines]

    def make_tracer(name):
        pending = my_lines(name)
        prog = dict(k=0, in_group=None)

        def advance_done():
            # called when the thread reaches a new line: the action(s) of the previous line are done
            with cond:
                if prog['in_group'] is not None:
                    gi, left = prog['in_group']
                    if not left:
                        state['i'] = max(state['i'], gi + 1)
                        prog['in_group'] = None
                        cond.notify_all()

        def local(frame, event, arg):
            if frame.f_code is not init_code and frame.f_code.co_filename != init_code.co_filename:
                return local
            if event == 'line':
                if prog['in_group'] is not None and prog['in_group'][1]:
                    pass
                advance_done()
                ln = frame.f_lineno
                if prog['k'] < len(pending) and ln == pending[prog['k']]:
                    # wait for our turn: the schedule head must be a group of this thread containing this line
                    with cond:
                        def my_turn():
                            i = state['i']
                            return i < len(steps) and steps[i][0] == name
                        if prog['in_group'] is None:
                            cond.wait_for(my_turn, timeout=20)
                            gi = state['i']
                            prog['in_group'] = (gi, list(steps[gi][1]) if gi < len(steps) else [])
                        gi, left = prog['in_group']
                        while left and left[0] == ln:
                            left.pop(0)
                            prog['k'] += 1
                        # several actions on one line count together
            elif event == 'return' and frame.f_code is init_code:
                with cond:
                    if prog['in_group'] is not None:
                        state['i'] = max(state['i'], prog['in_group'][0] + 1)
                        prog['in_group'] = None
                    # a finished thread never blocks the other one
                    while state['i'] < len(steps) and steps[state['i']][0] == name:
                        state['i'] += 1
                    cond.notify_all()
            return local

        def tracer(frame, event, arg):
            # the constructor and the helpers of its module that it calls (their lines can carry atomic actions too)
            if frame.f_code is init_code or frame.f_code.co_filename == init_code.co_filename:
                return local(frame, event, arg) or local
            return None
        return tracer

    def worker(name):
        sys.settrace(make_tracer(name))
        try:
            ts = TrajectoryStore.create(base_file=os.path.join(tmp, name + '.nc'))
            results[name] = 'created'
            results[name + '_store'] = ts
        except Exception as e:   # noqa
            results[name] = 'refused: ' + type(e).__name__
        finally:
            sys.settrace(None)
            with cond:
                while state['i'] < len(steps) and steps[state['i']][0] == name:
                    state['i'] += 1
                cond.notify_all()
    try:
        ta = threading.Thread(target=worker, args=('A',))
        tb = threading.Thread(target=worker, args=('B',))
        ta.start()
        tb.start()
        ta.join(60)
        tb.join(60)
        both = results.get('A') == 'created' and results.get('B') == 'created'
        return dict(reproduced=both, observed={k: v for k, v in results.items() if not k.endswith('_store')},
                    required='at most one of two racing threads may create a store', schedule=sched)
    finally:
        for k in ('A_store', 'B_store'):
            try:
                results[k].close()
            except Exception:   # noqa
                pass
        TrajectoryStore.active_in_thread = None
        shutil.rmtree(tmp, ignore_errors=True)
