"""C19 -- BADA-3 fuel-burn integration keeps mass, thrust and fuel flow consistent.

Spec functions are the BADA-3.16 equations the code cites (3.2-1 total energy, 3.6-1/2/5 lift / drag,
3.7-1..3 maximum climb thrust per engine class, 3.7-4 temperature correction, 3.7-8 cruise thrust,
3.7-9/10 descent thrust, 3.9-1..6 fuel flow).  The engine and fuel-burn models are constructed by
their real constructors from the library's own Bada3AircraftParameters object (parameter access is a
typing obligation: whatever protocol the models use must exist on that class).
"""
from __future__ import annotations

from fractions import Fraction as Fr

import z3

from pyvc.models.arrays import SArr
from pyvc.source import Unsupported
from pyvc.values import Obj, PyExc, to_real, to_z3
from pyvc.verify import unit

LEVEL = 'proof'
EXPLANATION = ('Engine-model and fuel-burn-model methods executed symbolically on arrays of symbolic length and compared with '
               'the cited BADA-3 equations; the mass-vector update is proved to keep the anchor mass and to decrease over each '
               'step by the trapezoid of 1/specific-ground-range; drivers are run for 1..3 iterations.')
M = 'AEIC.BADA.model'
P = 'AEIC.BADA.aircraft_parameters:Bada3AircraftParameters'
Z = z3.IntSort()


def rv(x):
    return z3.RealVal(str(Fr(x)))


G0 = rv('9.80665')
M2FT = 1 / rv('0.3048')          # the international foot, exactly (BADA 3 user manual: 1 ft = 0.3048 m)
MPS2KT = 1 / rv('0.514444')
NAMES = ['c_fcr', 'c_f1', 'c_f2', 'c_d0cr', 'c_d2cr', 'S_ref', 'c_tc1', 'c_tc2', 'c_tc3', 'c_tc4', 'c_tc5', 'c_tcr', 'c_tdes_low',
         'c_tdes_high', 'h_p_des']


def params(h, engine):
    vals = {n: h.real('p_' + n) for n in NAMES}
    for n in ('c_f1', 'c_f2', 'S_ref', 'c_tc1', 'c_tc2', 'c_d0cr', 'c_d2cr', 'c_fcr', 'c_tcr', 'c_tdes_low', 'c_tdes_high'):
        h.ctx.assume(vals[n] > 0)
    h.ctx.assumed.append('physically plausible parameters: positive fuel-flow, thrust, drag coefficients and reference area')
    obj = h.construct(P, engine_type=engine, **vals)
    return obj, vals


def engine_model(h, engine):
    p, v = params(h, engine)
    fb = h.construct(M + ':Bada3FuelBurnModel', p)
    return fb, h.getattr(fb, 'engine_model'), v


def arrs(h, names, where=None):
    n = h.int('n_points')
    h.assume(n >= 2, 'a profile has at least two points')
    return n, {nm: SArr.symbolic(h.ctx, nm, n, where=(where or {}).get(nm)) for nm in names}


def elem(a, k):
    return to_real(a.at(k)) if isinstance(a, SArr) else to_real(a)


def spec_max_climb_isa(engine, v, alt, tas):
    hf = alt * M2FT
    if engine == 'Jet':
        return v['c_tc1'] * (1 - hf / v['c_tc2'] + v['c_tc3'] * hf * hf)                 # (3.7-1)
    if engine == 'Turboprop':
        return v['c_tc1'] / (tas * MPS2KT) * (1 - hf / v['c_tc2']) + v['c_tc3']          # (3.7-2)
    return v['c_tc1'] * (1 - hf / v['c_tc2']) + v['c_tc3'] / (tas * MPS2KT)              # (3.7-3)


def spec_isa_T(alt):
    return z3.If(alt <= 11000, rv('288.15') - rv('0.0065') * alt, rv('216.65'))


def spec_max_climb(engine, v, alt, tas, T):
    dT_eff = (T - spec_isa_T(alt)) - v['c_tc4']                                           # (3.7-4..7)
    c5 = z3.If(v['c_tc5'] > 0, v['c_tc5'], 0)
    x = dT_eff * c5
    clip = z3.If(x < 0, 0, z3.If(x > rv('0.4'), rv('0.4'), x))
    return spec_max_climb_isa(engine, v, alt, tas) * (1 - clip)


def spec_sfc(engine, v, tas):
    if engine == 'Jet':
        return v['c_f1'] * (1 + tas * MPS2KT / v['c_f2']) / 60000                           # (3.9-1)
    if engine == 'Turboprop':
        return v['c_f1'] * (1 - tas * MPS2KT / v['c_f2']) * (tas * MPS2KT / 1000) / 60000   # (3.9-2)
    return None


def spec_fuel_flow(engine, v, thrust, tas, cruise):
    if engine == 'Piston':
        nom = v['c_f1']                                                                      # (3.9-5)
    else:
        nom = spec_sfc(engine, v, tas) * thrust                                              # (3.9-3)
    return nom * v['c_fcr'] if cruise else nom                                               # (3.9-6)


def engine_unit(engine):
    def u(h):
        h.ctx.named['engine_type'] = z3.StringVal(engine)
        try:
            fb, em, v = engine_model(h, engine)
            n, a = arrs(h, ['altitude', 'tas', 'temperature', 'thrust'],
                        where={'altitude': lambda x: z3.And(x >= 0, x <= 25000), 'tas': lambda x: x > 0, 'temperature': lambda x: x > 0})
            k = h.ctx.fresh('k', Z)
            h.ctx.assume(z3.And(k >= 0, k < n))
            alt, tas, T, th = (elem(a[x], k) for x in ('altitude', 'tas', 'temperature', 'thrust'))
            got = {}
            got['isa'] = h.I.call(h.I.getattr(em, 'calculate_max_climb_thrust_isa'), [a['altitude'], a['tas']], {})
            got['climb'] = h.I.call(h.I.getattr(em, 'calculate_max_climb_thrust'), [a['altitude'], a['tas'], a['temperature']], {})
            got['cruise'] = h.I.call(h.I.getattr(em, 'calculate_max_cruise_thrust'), [a['altitude'], a['tas'], a['temperature']], {})
            got['des_hi'] = h.I.call(h.I.getattr(em, 'calculate_descent_thrust_high'), [a['altitude'], a['tas'], a['temperature']], {})
            got['des_lo'] = h.I.call(h.I.getattr(em, 'calculate_descent_thrust_low'), [a['altitude'], a['tas'], a['temperature']], {})
            got['ff_nom'] = h.I.call(h.I.getattr(em, 'calculate_nominal_fuel_flow'), [a['thrust'], a['tas']], {})
            got['ff_crz'] = h.I.call(h.I.getattr(em, 'calculate_cruise_fuel_flow'), [a['thrust'], a['tas']], {})
        except PyExc as e:
            if e.cls.name in ('TypeError', 'AttributeError', 'KeyError'):
                h.fail('parameter-access-works-on-the-librarys-own-parameter-object', f'{e.inst!r} at {e.inst.where}')
            else:
                h.fail('no-internal-error', f'{e.inst!r} at {e.inst.where}')
            return
        h.ensure('parameter-access-works-on-the-librarys-own-parameter-object', True)
        mc = spec_max_climb(engine, v, alt, tas, T)
        h.ensure('max-climb-thrust-isa-equals-bada-3.7-1-to-3', elem(got['isa'], k) == spec_max_climb_isa(engine, v, alt, tas))
        h.ensure('max-climb-thrust-temperature-correction-3.7-4', elem(got['climb'], k) == mc)
        h.ensure('max-cruise-thrust-3.7-8', elem(got['cruise'], k) == mc * v['c_tcr'])
        h.ensure('descent-thrust-3.7-9-10', z3.And(elem(got['des_hi'], k) == v['c_tdes_high'] * mc, elem(got['des_lo'], k) == v['c_tdes_low'] * mc))
        h.ensure('nominal-fuel-flow-3.9-3-or-5', elem(got['ff_nom'], k) == spec_fuel_flow(engine, v, th, tas, False))
        h.ensure('cruise-fuel-flow-applies-the-cruise-correction-3.9-6', elem(got['ff_crz'], k) == spec_fuel_flow(engine, v, th, tas, True))
    return u


for _e in ('Jet', 'Turboprop', 'Piston'):
    unit('C19', f'engine-model.{_e.lower()}', [M + ':Bada3EngineModel', M + f':Bada3{_e}EngineModel', M + ':Bada3FuelBurnModel.create_engine_model'],
         replay='contracts.C19:replay')(engine_unit(_e))


@unit('C19', 'thrust-and-specific-ground-range', [M + ':Bada3FuelBurnModel.calculate_thrust', M + ':Bada3FuelBurnModel.calculate_cl',
                                                  M + ':Bada3FuelBurnModel.calculate_cd', M + ':Bada3FuelBurnModel.calculate_drag',
                                                  M + ':Bada3FuelBurnModel.calculate_thrust_by_total_energy',
                                                  M + ':Bada3FuelBurnModel.calculate_specific_ground_range'],
      replay='contracts.C19:replay', timeout_ms=30000)
def thrust_unit(h):
    engine = ['Jet', 'Turboprop', 'Piston'][h.choice(3)]
    h.ctx.named['engine_type'] = z3.StringVal(engine)
    try:
        fb, em, v = engine_model(h, engine)
    except PyExc as e:
        h.fail('parameter-access-works-on-the-librarys-own-parameter-object', f'{e.inst!r} at {e.inst.where}')
        return
    n, a = arrs(h, ['mass', 'temperature', 'altitude', 'tas', 'rocd', 'acceleration', 'groundspeed'],
                where={'altitude': lambda x: z3.And(x >= 0, x <= 25000), 'tas': lambda x: x > 0, 'temperature': lambda x: x > 0,
                       'mass': lambda x: x > 0, 'groundspeed': lambda x: x >= 0})
    # ground speeds may come as whole metres per second in an integer array (np.array([200, 210]))
    if engine == 'Jet' and h.choice(2) == 1:          # (the element type of the buffer does not depend on the engine type)
        gi = SArr.symbolic(h.ctx, 'groundspeed_whole', n, sort=z3.IntSort(), where=lambda x: x >= 0)
        a['groundspeed'] = gi
        h.ctx.named['groundspeed_is_an_integer_array'] = z3.BoolVal(True)
    cruise = SArr.symbolic(h.ctx, 'in_cruise', n, sort=z3.BoolSort())
    h.trust('ISA pressure (C12) by contract: pressure_at_altitude_isa_bada4 > 0')
    PRES = z3.Function('isa_pressure', z3.RealSort(), z3.RealSort())

    def pressure(I_, fi, args, kw):
        alt = args[0]
        return SArr(alt.length, lambda kk: (h.ctx.axiom(PRES(to_real(alt.at(kk))) > 0), PRES(to_real(alt.at(kk))))[1])
    h.summary('AEIC.utils.standard_atmosphere:pressure_at_altitude_isa_bada4', pressure)
    fb0, em0 = dict(fb.attrs), dict(em.attrs)
    try:
        thr = h.I.call(h.I.getattr(fb, 'calculate_thrust'), [a['mass'], a['temperature'], a['altitude'], a['tas'], a['rocd'], a['acceleration'], cruise], {})
        sgr = h.I.call(h.I.getattr(fb, 'calculate_specific_ground_range'),
                       [a['mass'], a['temperature'], a['altitude'], a['tas'], a['rocd'], a['acceleration'], cruise, a['groundspeed']], {})
    except PyExc as e:
        if e.cls.name == 'TypeError' and 'ufunc' in repr(e.inst):
            h.fail('defined-for-integer-typed-profiles', f'{e.inst!r} at {e.inst.where}')
        elif e.cls.name in ('TypeError', 'AttributeError', 'KeyError'):
            h.fail('parameter-access-works-on-the-librarys-own-parameter-object', f'{e.inst!r} at {e.inst.where}')
        elif e.cls.name == 'NonFiniteResult':
            h.fail('defined-on-plausible-inputs', f'{e.inst!r} at {e.inst.where}')
        else:
            h.fail('no-internal-error', f'{e.inst!r} at {e.inst.where}')
        return
    # thrust and fuel flow are functions of the arguments and the aircraft parameters: a query leaves nothing behind on the
    # model object that a later query (another temperature profile, another pass of the mass iteration) could pick up
    changed = [f'{nm}.{k2}' for nm, o, o0 in (('model', fb, fb0), ('engine', em, em0)) for k2 in set(o.attrs) | set(o0)
               if k2 not in o0 or k2 not in o.attrs or o.attrs[k2] is not o0[k2]]
    h.ensure('a-query-leaves-the-model-object-as-it-was', not changed, note='changed: ' + ', '.join(sorted(changed)))
    k = h.ctx.fresh('k', Z)
    h.ctx.assume(z3.And(k >= 0, k < n))
    m, T, alt, tas, rocd, acc, gs = (elem(a[x], k) for x in ('mass', 'temperature', 'altitude', 'tas', 'rocd', 'acceleration', 'groundspeed'))
    ck = cruise.at(k)
    rho = PRES(alt) / (rv('287.05287') * T)
    cl = 2 * m * G0 / (rho * v['S_ref'] * tas * tas)                                  # (3.6-1)
    cd = v['c_d0cr'] + v['c_d2cr'] * cl * cl                                          # (3.6-2)
    drag = rv('0.5') * rho * v['S_ref'] * tas * tas * cd                              # (3.6-5)
    t_te = drag + m * (G0 * (1 / tas) * rocd + acc)                                   # (3.2-1)
    mc = spec_max_climb(engine, v, alt, tas, T)
    t_max = z3.If(ck, mc * v['c_tcr'], mc)
    t_des = z3.If(alt * M2FT > v['h_p_des'], v['c_tdes_high'] * mc, v['c_tdes_low'] * mc)
    limited = z3.If(t_te > t_max, t_max, t_te)
    spec_thr = z3.If(limited < 0, t_des, limited)
    h.ensure('thrust-is-total-energy-thrust-limited-by-max-climb-or-cruise-thrust-and-replaced-by-descent-thrust-when-negative',
             elem(thr, k) == spec_thr)
    ff = z3.If(ck, spec_fuel_flow(engine, v, spec_thr, tas, True), spec_fuel_flow(engine, v, spec_thr, tas, False))
    h.ensure('specific-ground-range-is-ground-speed-over-fuel-flow', z3.Implies(ff != 0, elem(sgr, k) * ff == gs))
    h.ensure('cruise-correction-only-in-cruise', z3.Implies(z3.And(ff != 0, z3.Not(ck)),
                                                            elem(sgr, k) * spec_fuel_flow(engine, v, spec_thr, tas, False) == gs))


@unit('C19', 'mass-vector-update', ['AEIC.BADA.fuel_burn_base:BaseFuelBurnModel.update_mass_vector',
                                    'AEIC.BADA.fuel_burn_base:BaseFuelBurnModel.update_mass_vector_backward'],
      replay='contracts.C19:replay')
def mass_update(h):
    backward = h.choice(2) == 1
    h.ctx.named['backward'] = z3.BoolVal(backward)
    fbm = h.new(M + ':Bada3FuelBurnModel', _partial=True)
    n = h.int('n_points')
    h.assume(n >= 2)
    mass = SArr.symbolic(h.ctx, 'mass', n)
    sgr = SArr.symbolic(h.ctx, 'specific_ground_range', n, where=lambda x: x >= 0)
    dx, dx_at = segment_distances(h, n)
    m_first, m_last = to_real(mass.at(0)), to_real(mass.at(n - 1))
    h.trust('scipy.integrate.cumulative_trapezoid(y, dx) by its defining recurrence; 1/inf = 0')
    r = h.method(fbm, 'update_mass_vector_backward' if backward else 'update_mass_vector', mass, sgr, dx)
    inv = lambda j: z3.If(to_real(sgr.at(j)) < 1, z3.RealVal(0), 1 / to_real(sgr.at(j)))     # noqa
    k = h.ctx.fresh('k', Z)
    h.ctx.assume(z3.And(k >= 0, k < n - 1))
    rk, rk1 = to_real(r.at(k)), to_real(r.at(k + 1))
    h.ensure('anchor-mass-kept', (to_real(r.at(n - 1)) == m_last) if backward else (to_real(r.at(0)) == m_first))
    h.ensure('decrease-over-each-step-is-the-trapezoid-of-fuel-per-distance', rk - rk1 == dx_at(k) * (inv(k) + inv(k + 1)) / 2)
    h.ensure('mass-never-increases', rk1 <= rk)
    h.ensure('returns-the-updated-vector-itself', r is mass)


def segment_distances(h, n):
    """The segment length: one number for all segments, or one number per segment (both documented: Union[float, NDArray])."""
    if h.choice(2) == 0:
        dx = h.real('segment_distance')
        h.assume(dx >= 0, 'segment distance >= 0')
        h.ctx.named['segment_distance_kind'] = z3.StringVal('one number')
        return dx, (lambda k: dx)
    arr = SArr.symbolic(h.ctx, 'segment_distance', n - 1, where=lambda x: x >= 0)
    h.ctx.named['segment_distance_kind'] = z3.StringVal('one number per segment')
    return arr, (lambda k: to_real(arr.at(k)))


def driver_unit(which):
    def u(h):
        """The drivers run the real calculate_specific_ground_range by contract (values >= 0) and the real
        update_mass_vector; n_iter ranges over 1..3."""
        fbm = h.new(M + ':Bada3FuelBurnModel', _partial=True)
        n = h.int('n_points')
        h.assume(n >= 2)
        names = ['temperature', 'altitude', 'v_tas', 'rocd', 'acceleration', 'groundspeed']
        a = {nm: SArr.symbolic(h.ctx, nm, n) for nm in names}
        cruise = SArr.symbolic(h.ctx, 'in_cruise', n, sort=z3.BoolSort())
        dx, dx_at = segment_distances(h, n)
        calls = []

        def sgr_contract(I_, fi, args, kw):
            s = SArr.symbolic(h.ctx, f'sgr_{len(calls)}', n, where=lambda x: x >= 0)
            calls.append((args[1], s))
            return s
        h.summary(M + ':Bada3FuelBurnModel.calculate_specific_ground_range', sgr_contract)
        h.trust('calculate_specific_ground_range by its contract (own unit): an array of the profile length, values >= 0')
        n_iter = 1 + h.choice(3)
        h.ctx.named['n_iter'] = z3.IntVal(n_iter)
        # ground speeds may come as whole metres per second in an integer array: the mass profile must not take its element
        # type from it (explored for one iteration; the element type does not depend on the iteration count)
        if n_iter == 1 and h.choice(2) == 1:
            a['groundspeed'] = SArr.symbolic(h.ctx, 'groundspeed_whole', n, sort=z3.IntSort())
            h.ctx.named['ground_speeds_are_integers'] = z3.BoolVal(True)
        # the prescribed mass is a Python number: a float, or an int (e.g. 60000)
        if h.choice(2) == 0:
            m0 = h.real('prescribed_mass')
        else:
            m0 = h.int('prescribed_mass')
            h.ctx.named['prescribed_mass_is_a_python_int'] = z3.BoolVal(True)
        h.assume(m0 > 0)
        args = [a['temperature'], a['altitude'], a['v_tas'], a['rocd'], a['acceleration'], cruise, a['groundspeed'], dx]
        kw = dict(n_iter=n_iter)
        mtow = None
        h.ctx.assumed.append('the fuel burned stays below the aircraft mass (final mass > 0; the convergence test divides by it)')
        try:
            r = run_driver(h, which, fbm, args, kw, m0)
        except PyExc as e:
            if e.cls.name == 'ZeroDivisionError':
                return        # excluded by the precondition above
            h.fail('no-internal-error', f'{e.inst!r} at {e.inst.where}')
            return
        mtow = h.ctx.named.get('mtow')
        finish(h, which, r, calls, n, dx_at, m0, mtow, n_iter)
    return u


def run_driver(h, which, fbm, args, kw, m0):
    if True:
        if which == 'constant_initial_mass':
            r = h.method(fbm, 'iterate_flight_simulation_constant_initial_mass', *args, m0, **kw)
        elif which == 'constant_final_mass':
            r = h.method(fbm, 'iterate_flight_simulation_constant_final_mass', *args, m0, **kw)
        else:
            mtow, oew, mpl, lf, rf = (h.real(x) for x in ('mtow', 'oew', 'mpl', 'load_factor', 'reserve_fuel_fraction'))
            h.assume(z3.And(mtow > 0, oew > 0, mpl >= 0, lf >= 0, lf <= 1, rf >= 0, oew <= mtow))
            r = h.method(fbm, 'iterate_flight_simulation_fuel_burn_dependent_initial_mass_rf_fraction', *args, m0, mtow, oew, mpl, lf, rf, **kw)
        return r


def finish(h, which, r, calls, n, dx_at, m0, mtow, n_iter):
    if True:
        sgr = calls[-1][1]
        inv = lambda j: z3.If(to_real(sgr.at(j)) < 1, z3.RealVal(0), 1 / to_real(sgr.at(j)))     # noqa
        k = h.ctx.fresh('k', Z)
        h.ctx.assume(z3.And(k >= 0, k < n - 1))
        rk, rk1 = to_real(r.at(k)), to_real(r.at(k + 1))
        h.ensure('returned-profile-decreases-by-the-trapezoid-over-each-step', rk - rk1 == dx_at(k) * (inv(k) + inv(k + 1)) / 2,
                 note=f'n_iter={n_iter}')
        h.ensure('returned-profile-never-increases', rk1 <= rk, note=f'n_iter={n_iter}')
        if which == 'constant_initial_mass':
            h.ensure('starts-at-the-prescribed-mass', to_real(r.at(0)) == m0)
        elif which == 'constant_final_mass':
            h.ensure('ends-at-the-prescribed-mass', to_real(r.at(n - 1)) == m0)
        else:
            h.ensure('initial-mass-never-exceeds-mtow', z3.Or(to_real(r.at(0)) <= mtow, to_real(r.at(0)) == m0),
                     note='(the first estimate is the caller\'s)')


for _w in ('constant_initial_mass', 'constant_final_mass', 'fuel_dependent_initial_mass'):
    unit('C19', 'driver.' + _w, [M + ':Bada3FuelBurnModel.iterate_flight_simulation_' + ('fuel_burn_dependent_initial_mass_rf_fraction' if _w.startswith('fuel') else _w),
                                 'AEIC.BADA.fuel_burn_base:BaseFuelBurnModel.update_mass_vector'],
         replay='contracts.C19:replay')(driver_unit(_w))


# ------------------------------------------------------------------------------------------------
def replay(payload):
    """Native: the library's own parameter object, all three engine classes, independent numpy
    evaluation of the BADA-3 equations and of the trapezoid relation."""
    import numpy as np
    from AEIC.BADA.aircraft_parameters import Bada3AircraftParameters
    from AEIC.BADA.model import Bada3FuelBurnModel
    bad = []
    for eng in ('Jet', 'Turboprop', 'Piston'):
        p = Bada3AircraftParameters(ac_type='X', engine_type=eng, c_fcr=0.95, c_f1=0.7 if eng != 'Piston' else 0.02, c_f2=1000.0,
                                    c_d0cr=0.025, c_d2cr=0.035, S_ref=122.0, c_tc1=140000.0 if eng == 'Jet' else 6000000.0,
                                    c_tc2=48000.0, c_tc3=2.0e-11 if eng == 'Jet' else 1000.0, c_tc4=8.0, c_tc5=0.008, c_tcr=0.95,
                                    c_tdes_low=0.05, c_tdes_high=0.1, h_p_des=10000.0)
        try:
            fb = Bada3FuelBurnModel(p)
            n = 8
            alt = np.linspace(1000.0, 11000.0, n)
            tas = np.linspace(150.0, 230.0, n)
            T = 288.15 - 0.0065 * alt + 5.0
            rocd = np.array([10, 8, 6, 0, 0, -5, -8, -10.0])
            acc = np.zeros(n)
            crz = np.array([False, False, False, True, True, False, False, False])
            mass = np.full(n, 60000.0)
            thr = fb.calculate_thrust(mass, T, alt, tas, rocd, acc, crz)
            mc = fb.engine_model.calculate_max_climb_thrust(alt, tas, T)
            if np.any(thr[crz] > 0.95 * mc[crz] * (1 + 1e-12)) or np.any(thr[~crz] > mc[~crz] * (1 + 1e-12)):
                bad.append(f'{eng}: thrust above the applicable maximum (cruise limit = 0.95 x climb limit)')
            gs = tas.copy()
            prof = fb.iterate_flight_simulation_constant_initial_mass(T, alt, tas, rocd, acc, crz, gs, 50000.0, 60000.0)
            if prof[0] != 60000.0 or np.any(np.diff(prof) > 1e-9):
                bad.append(f'{eng}: constant-initial-mass profile {prof[:3]}')
            prof2 = fb.iterate_flight_simulation_fuel_burn_dependent_initial_mass_rf_fraction(
                T, alt, tas, rocd, acc, crz, gs, 50000.0, 60000.0, 78000.0, 42000.0, 18000.0, 0.8, 0.05)
            if np.any(np.diff(prof2) > 1e-6):
                bad.append(f'{eng}: fuel-dependent profile increases: {list(np.round(prof2[:3], 1))}')
            m = np.array([60000.0, 0, 0, 0, 0.0])
            sg = np.array([300.0, 310.0, 0.5, 305.0, 320.0])
            back = fb.update_mass_vector_backward(np.array([0, 0, 0, 0, 50000.0]), sg, 1000.0)
            inv = np.where(sg < 1, 0.0, 1 / sg)
            steps = 1000.0 * (inv[:-1] + inv[1:]) / 2
            if not np.allclose(back[:-1] - back[1:], steps, rtol=1e-12):
                bad.append(f'{eng}: backward update steps {list(back[:-1] - back[1:])} instead of {list(steps)}')
            # the same model object queried again with the same altitude profile but ISA + 18 K: what it returns must be what
            # a fresh model object returns (nothing remembered from the earlier queries)
            T2 = T + 18.0
            again = fb.calculate_thrust(mass, T2, alt, tas, rocd, acc, crz)
            fresh = Bada3FuelBurnModel(p).calculate_thrust(mass, T2, alt, tas, rocd, acc, crz)
            if not np.array_equal(again, fresh):
                bad.append(f'{eng}: thrust for a second temperature profile on a used model object {list(np.round(again[:3], 3))} '
                           f'differs from a fresh model object {list(np.round(fresh[:3], 3))}')
            # ... and with the same altitudes but other speeds (the climb rating of turboprops and pistons depends on the speed)
            tas2 = tas * 0.8 + 11.0
            again = fb.calculate_thrust(mass, T, alt, tas2, rocd, acc, crz)
            fresh = Bada3FuelBurnModel(p).calculate_thrust(mass, T, alt, tas2, rocd, acc, crz)
            if not np.array_equal(again, fresh):
                bad.append(f'{eng}: thrust for a second speed profile (same altitudes) on a used model object {list(np.round(again[:3], 3))} '
                           f'differs from a fresh model object {list(np.round(fresh[:3], 3))}')
            # the drivers with the ground speed given as an integer array (whole metres per second)
            gi = np.round(gs).astype(np.int64)
            for nm, fn in (('constant_initial_mass', fb.iterate_flight_simulation_constant_initial_mass),
                           ('constant_final_mass', fb.iterate_flight_simulation_constant_final_mass)):
                try:
                    a_, b_ = fn(T, alt, tas, rocd, acc, crz, gi, 50000.0, 58250.4), fn(T, alt, tas, rocd, acc, crz, gi.astype(float), 50000.0, 58250.4)
                    if not np.allclose(a_, b_, rtol=1e-12):
                        bad.append(f'{eng}: {nm} with integer ground speeds returns {np.asarray(a_)[-3:].tolist()}, with the same speeds as floats {np.round(b_[-3:], 3).tolist()}')
                except Exception as e:   # noqa
                    bad.append(f'{eng}: {nm} with an integer ground-speed array: {type(e).__name__}: {e}')
            # one length per segment (documented: Union[float, NDArray]), forwards and backwards
            d = np.array([1000.0, 5000.0, 20000.0, 500.0])
            steps_d = d * (inv[:-1] + inv[1:]) / 2
            for nm, got in (('forward', fb.update_mass_vector(np.array([60000.0, 0, 0, 0, 0]), sg, d)),
                            ('backward', fb.update_mass_vector_backward(np.array([0, 0, 0, 0, 50000.0]), sg, d))):
                if not np.allclose(got[:-1] - got[1:], steps_d, rtol=1e-12):
                    bad.append(f'{eng}: {nm} update with per-segment lengths {d.tolist()}: steps {np.round(got[:-1] - got[1:], 3).tolist()} '
                               f'instead of the trapezoids {np.round(steps_d, 3).tolist()}')
            # ground speed given as an integer array
            try:
                si = fb.calculate_specific_ground_range(mass, T, alt, tas, rocd, acc, crz, np.round(tas).astype(np.int64))
                sf = fb.calculate_specific_ground_range(mass, T, alt, tas, rocd, acc, crz, np.round(tas))
                if not np.allclose(si, sf, rtol=1e-12):
                    bad.append(f'{eng}: specific ground range for integer ground speeds {si[:3].tolist()} differs from the float ones {sf[:3].tolist()}')
            except Exception as e:   # noqa
                bad.append(f'{eng}: specific ground range with an integer ground-speed array: {type(e).__name__}: {e}')
            # the prescribed mass given as a Python int
            for nm, fn, anchor in (('constant_initial_mass', fb.iterate_flight_simulation_constant_initial_mass, 0),
                                   ('constant_final_mass', fb.iterate_flight_simulation_constant_final_mass, -1)):
                pi = fn(T, alt, tas, rocd, acc, crz, gs, 50000.0, 60000)
                pf = fn(T, alt, tas, rocd, acc, crz, gs, 50000.0, 60000.0)
                if not np.allclose(pi, pf, rtol=1e-12):
                    bad.append(f'{eng}: {nm} with the mass given as the int 60000 returns {pi[:3].tolist()}, as the float 60000.0 {np.round(pf[:3], 3).tolist()}')
            fwd = fb.update_mass_vector(m, sg, 1000.0)
            if not np.allclose(fwd[:-1] - fwd[1:], steps, rtol=1e-12):
                bad.append(f'{eng}: forward update steps wrong')
        except Exception as e:   # noqa
            bad.append(f'{eng}: {type(e).__name__}: {e}')
    return dict(reproduced=bool(bad), observed=bad[:5], required='BADA-3 relations on the library\'s own parameter object')
