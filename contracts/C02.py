"""C02 -- simulated trajectories obey mass, time, distance and route bookkeeping.

Container layer (real Container / Trajectory / FieldSet code on symbolic buffers): append extends the
view by exactly the point, make_point(idx) hands back the idx-th point of the view, attribute reads are
the view.  Builder layer (real LegacyContext.__init__, _start_point, _fly_level_change, fly_cruise,
_fly_iteration, fly): loop invariants over a ghost trajectory that uses the container contracts.
Resampling: Trajectory.interpolate_time against the np.interp contract.
"""
from __future__ import annotations

import z3

from pyvc.loops import LoopDone, invariant_for_range
from pyvc.models.arrays import SArr
from pyvc.source import Unsupported
from pyvc.values import Builtin, EnumMember, Model, Obj, PyExc, to_real, to_z3
from pyvc.verify import unit

LEVEL = 'other'
EXPLANATION = ('Container.append / make_point / attribute views proved on the real code over symbolic size, capacity and buffers; '
               'climb, cruise and descent loops by inductive invariants against the contracts of the performance model (C06), the '
               'ground track (C15) and the weather (C16); context altitudes; first point = reported mass and fuel; resampling '
               'against the np.interp contract.')
S = 'AEIC.storage.container'
T = 'AEIC.trajectories.trajectory'
B = 'AEIC.trajectories.builders.base'
L = 'AEIC.trajectories.builders.legacy'
POINT_FIELDS = ['fuel_flow', 'aircraft_mass', 'fuel_mass', 'ground_distance', 'altitude', 'flight_level', 'rate_of_climb',
                'flight_time', 'latitude', 'longitude', 'azimuth', 'heading', 'true_airspeed', 'ground_speed']


def install_field_models(h):
    """FieldMetadata.convert_in / _cast: numpy casting of a float to float64 is the identity (assumed);
    the length check of point-wise fields is kept."""
    I = h.I
    h.trust('FieldMetadata.convert_in on a real number or a float array of the expected length returns it unchanged '
            '(numpy same-kind cast to float64); np.resize keeps the leading elements')

    def convert_in(I_, fi, a, k):
        meta, v, name, npoints = a[0], a[1], a[2], a[3]
        if v is None:
            req = I_.getattr(meta, 'required')
            if req is False:
                return None
            I_.raise_('TypeError', f'field {name}: cannot cast assigned value of type NoneType')
        if isinstance(v, SArr):
            ln = I_.len_(v)
            if I_.truth(I_.compare('!=', ln, npoints)):
                I_.raise_('ValueError', f'field {name}: assigned array has the wrong length')
        return v
    h.summary('AEIC.storage.field_sets:FieldMetadata.convert_in', convert_in)

    def resize(I_, arr, shape):
        n = shape[0] if isinstance(shape, tuple) else shape
        old, on = arr.snapshot(), arr.length
        tail = z3.Function(f'resize_tail_{id(arr) % 100000}', z3.IntSort(), z3.RealSort())
        return SArr(n, lambda kk: z3.If(to_z3(kk) < to_z3(on), to_real(old.at(kk)), tail(to_z3(kk))))
    I.models['numpy.resize'] = resize


def general_trajectory(h):
    """A Trajectory in an arbitrary reachable state: 0 <= size <= capacity, arbitrary buffer contents."""
    I = h.I
    I.module_get(I.get_module(T), 'BASE_FIELDS')        # module initialisation registers the base field set
    t = h.construct(T + ':Trajectory')
    size, cap = h.int('size'), h.int('capacity')
    h.assume(z3.And(size >= 0, size <= cap, cap >= 1), 'container invariant: 0 <= size <= capacity, capacity >= 1')
    t.attrs['_size'], t.attrs['_capacity'] = size, cap
    data = t.attrs['_data']
    bufs = {}
    for f in POINT_FIELDS:
        if f not in data:
            raise Unsupported(f'base field {f} missing from the trajectory')
        bufs[f] = SArr.symbolic(h.ctx, 'buf_' + f, cap)
        data[f] = bufs[f]
    return t, size, cap, bufs


@unit('C02', 'container.append', [S + ':Container.append', S + ':Container._append_point', S + ':Container._append_from_dict',
                                  S + ':Container._expand_capacity', S + ':Container.__getattr__', T + ':Trajectory.append',
                                  T + ':Trajectory.set_phase', S + ':Container.__setattr__'], replay='contracts.C02:replay_container')
def container_append(h):
    I = h.I
    install_field_models(h)
    t, size, cap, bufs = general_trajectory(h)
    old = {f: bufs[f].snapshot() for f in POINT_FIELDS}
    FP = I.lookup_fq('AEIC.storage.phase:FlightPhase')
    which = ['CLIMB', 'CRUISE', 'DESCENT'][h.choice(3)]
    phase = next(m for m in FP.members if m.name == which)
    h.method(t, 'set_phase', phase)
    cnt0 = h.int('points_in_phase_before')
    t.attrs['_data'][I.getattr(phase, 'field_name')] = cnt0
    pt = h.method(t, 'make_point')
    vals = {}
    for f in POINT_FIELDS:
        vals[f] = h.real('new_' + f)
        I.setattr(pt, f, vals[f])
    try:
        h.method(t, 'append', pt)
    except PyExc as e:
        h.fail('a-complete-point-can-be-appended', f'{e.inst!r} at {e.inst.where}')
        return
    n1 = to_z3(I.len_(t))
    h.ensure('length-grows-by-one', n1 == size + 1)
    h.ensure('capacity-covers-the-size', to_z3(t.attrs['_capacity']) >= n1)
    j = h.int('any_earlier_index')
    h.assume(z3.And(j >= 0, j < size))
    for f in POINT_FIELDS:
        view = I.getattr(t, f)
        h.ensure('view-has-the-new-length', to_z3(I.len_(view)) == size + 1, note=f)
        h.ensure('earlier-points-unchanged', to_real(view.at(j)) == to_real(old[f].at(j)), note=f)
        h.ensure('last-point-of-the-view-is-the-appended-point', to_real(view.at(size)) == vals[f], note=f)
    h.ensure('phase-point-count-incremented', to_z3(t.attrs['_data'][I.getattr(phase, 'field_name')]) == cnt0 + 1)


@unit('C02', 'container.make_point', [S + ':Container.make_point', S + ':Container.__init__', S + ':Container.add_fields'],
      replay='contracts.C02:replay_container')
def container_make_point(h):
    I = h.I
    install_field_models(h)
    t, size, cap, bufs = general_trajectory(h)
    idx = h.int('idx')
    try:
        pt = h.method(t, 'make_point', idx)
    except PyExc as e:
        h.ensure('only-an-out-of-range-index-is-refused', z3.And(h.exc_is(e, 'IndexError'), z3.Or(idx < -size, idx >= size)), note=repr(e.inst))
        return
    h.ensure('an-out-of-range-index-is-refused', z3.And(idx >= -size, idx < size))
    pos = z3.If(idx < 0, size + idx, idx)
    for f in POINT_FIELDS:
        v = I.getattr(pt, f)
        h.ensure('point-equals-the-indexed-point-of-the-view', to_real(v) == to_real(bufs[f].at(pos)), note=f)
    h.ensure('a-point-has-length-one', to_z3(I.len_(pt)) == 1)


def replay_container(payload):
    """make_point / append on a real Trajectory whose size is below its capacity."""
    import numpy as np
    from AEIC.trajectories.trajectory import Trajectory
    bad = []
    for n in (1, 3, 33, 50, 51, 100, 120):
        t = Trajectory()
        for i in range(n):
            pt = t.make_point()
            for f in POINT_FIELDS:
                setattr(pt, f, float(1000 * (POINT_FIELDS.index(f) + 1) + i + 1))
            t.append(pt)
        if len(t) != n:
            bad.append(f'{n} appends: len {len(t)}')
        for idx in (-1, 0, n - 1, -n):
            p = t.make_point(idx)
            for f in ('aircraft_mass', 'true_airspeed'):
                want = getattr(t, f)[idx]
                got = getattr(p, f)
                if not np.isclose(got, want):
                    bad.append(f'{n} points (capacity {t._capacity}): make_point({idx}).{f} = {got}, trajectory.{f}[{idx}] = {want}')
    return dict(reproduced=bool(bad), observed=bad[:6])


# ================================================================================================
# Builder layer
# ================================================================================================
R = z3.RealSort()
TLON = z3.Function('track_lon_at', R, R)      # the ground track's position function (C15: the forward geodesic from the
TLAT = z3.Function('track_lat_at', R, R)      # origin along the initial azimuth, at distance s; s = 0 is the origin)
TAZ = z3.Function('track_azimuth_at', R, R)
FT = 0.3048


class Recip(Model):
    """A step fraction written as 1/m (every positive fraction is): 1 / frac == m exactly."""

    def __init__(self, m):
        self.m = m

    def py_binop(self, I, op, other, reflected):
        if op == 'Div' and reflected and other == 1:
            return self.m
        raise Unsupported('arithmetic on a step fraction other than 1 / frac')


class GT(Model):
    """GroundTrack.great_circle(origin, destination, allow_overstep=True) by its C15 contract."""
    type_names = ('GroundTrack',)

    def __init__(self, h):
        self.h = h
        self.total = h.real('track_total_distance')
        h.assume(self.total >= 0, 'ground track length >= 0 (Geod contract)')

    def point(self, I, s):
        Loc = I.lookup_fq('AEIC.types.spatial:Location')
        loc = Obj(Loc)
        loc.attrs.update(longitude=TLON(s), latitude=TLAT(s))
        P = I.lookup_fq('AEIC.trajectories.ground_track:GroundTrack.Point')
        p = Obj(P)
        p.attrs.update(location=loc, azimuth=TAZ(s))
        return p

    def py_getitem(self, I, idx):
        if idx == 0:
            return self.point(I, z3.RealVal(0))
        raise Unsupported('ground_track[%r]' % (idx,))

    def py_getattr(self, I, name):
        if name == 'total_distance':
            return self.total
        if name == 'step':
            def step(a, b):
                a, b = to_real(a), to_real(b)
                if I.ctx.branch(z3.Or(a < 0, b < 0)):
                    E = I.lookup_fq('AEIC.trajectories.ground_track:GroundTrack.Exception')
                    raise PyExc(I.mk_exc(E, 'distances must be non-negative'))
                return self.point(I, a + b)
            return Builtin('GroundTrack.step', step, pure=False)
        if name == 'location':
            return Builtin('GroundTrack.location', lambda s: self.point(I, to_real(s)), pure=False)
        raise Unsupported('GroundTrack.' + name)


class PerfModel(Model):
    """LegacyPerformanceModel.evaluate by its C06 contract on a valid table: values of the phase's sub-table range
    (climb ROCD > 0, descent ROCD < 0, cruise |ROCD| <= 1e-6; TAS > 0, TAS >= |ROCD|, fuel flow >= 0); a state outside
    the table raises ValueError."""

    def __init__(self, h):
        self.h = h
        self.n = 0
        self.maximum_altitude = h.real('maximum_altitude')
        self.maximum_mass = h.real('maximum_mass')
        self.empty_mass = h.real('empty_mass')
        self.maximum_payload = h.real('maximum_payload')
        h.assume(z3.And(self.maximum_mass > 0, self.empty_mass > 0, self.maximum_payload >= 0), 'aircraft masses positive')
        self.calls = []

    def evaluate(self, I, state, rules):
        h = self.h
        if h.choice(2) == 1:
            I.raise_('ValueError', 'One of the requested xi is out of bounds in dimension 0')
        self.n += 1
        tas, rocd, ff = (h.real(f'perf{self.n}_{x}') for x in ('tas', 'rocd', 'ff'))
        nm = rules.name if isinstance(rules, EnumMember) else None
        sign = {'CLIMB': rocd > 0, 'DESCEND': rocd < 0, 'CRUISE': z3.And(rocd >= -1e-6, rocd <= 1e-6)}.get(nm)
        if sign is None:
            raise Unsupported(f'flight rules {rules!r}')
        h.assume(z3.And(sign, tas > 0, tas >= rocd, tas >= -rocd, ff >= 0),
                 'valid performance table: climb ROCD > 0, descent ROCD < 0, cruise ROCD ~ 0, TAS > 0, TAS >= |ROCD|, fuel flow >= 0 (C06: results lie within the table values)')
        self.calls.append((state, rules, tas, rocd, ff))
        P = I.lookup_fq('AEIC.performance.types:Performance')
        return I.call(P, [], dict(true_airspeed=tas, rate_of_climb=rocd, fuel_flow=ff))

    def py_getattr(self, I, name):
        if name == 'evaluate':
            return Builtin('evaluate', lambda state, rules: self.evaluate(I, state, rules), pure=False)
        if name == 'performance_table':
            return self
        if name == 'tas':
            return [self.h.real('table_tas_a'), self.h.real('table_tas_b')]
        if name == 'rocd':
            return [self.h.real('table_rocd_a'), self.h.real('table_rocd_b')]
        if name in ('maximum_altitude', 'maximum_mass', 'empty_mass', 'maximum_payload'):
            return getattr(self, name)
        raise Unsupported('performance model.' + name)


class WeatherStub(Model):
    type_names = ('Weather',)

    def __init__(self, h):
        self.h, self.n = h, 0

    def py_getattr(self, I, name):
        if name == 'get_ground_speed':
            def gs(**k):
                if self.h.choice(2) == 1:
                    I.raise_('ValueError', 'point outside the weather domain')
                self.n += 1
                v = self.h.real(f'weather_ground_speed_{self.n}')
                self.h.assume(v > 0, 'Weather.get_ground_speed > 0 (C16; a wind that exactly cancels the airspeed is excluded)')
                return v
            return Builtin('get_ground_speed', gs, pure=False)
        raise Unsupported('Weather.' + name)


class TrajGhost(Model):
    """The trajectory under construction, by the container contracts proved above: append(pt) extends the view by
    a snapshot of pt, make_point(-1) returns the last appended point, make_point() an unset point.  Every append
    states the bookkeeping obligations of the new point against the previous one."""
    type_names = ('Trajectory',)

    def __init__(self, h, env):
        self.h, self.env = h, env
        self.last = None            # field -> value of the last point of the view
        self.appended = 0           # python int or z3 Int: points appended during this unit
        self.phase = None
        self.counts = {}
        self.first = None
        self.fixed = False
        I = h.I
        I.module_get(I.get_module(T), 'BASE_FIELDS')
        self.real = h.construct(T + ':Trajectory')

    def snapshot(self, I, pt):
        data = pt.attrs['_data']
        out = {}
        for f in POINT_FIELDS:
            v = data.get(f)
            if v is None:
                I.raise_('TypeError', f'field {f}: cannot cast assigned value of type NoneType (point appended with {f} unset)')
            out[f] = to_real(v)
        return out

    def on_append(self, I, pt):
        h, env = self.h, self.env
        if self.fixed:
            I.raise_('ValueError', 'cannot append to fixed-size Container')
        s = self.snapshot(I, pt)
        ph = self.phase.name if self.phase is not None else None
        tag = f'[{ph.lower()}] ' if ph else ''
        h.ensure(tag + 'aircraft-mass-minus-fuel-mass-is-constant', s['aircraft_mass'] - s['fuel_mass'] == env['dry'])
        h.ensure(tag + 'position-is-the-track-point-at-the-recorded-distance',
                 z3.And(s['longitude'] == TLON(s['ground_distance']), s['latitude'] == TLAT(s['ground_distance'])))
        h.ensure(tag + 'time-and-distance-non-negative', z3.And(s['flight_time'] >= 0, s['ground_distance'] >= 0))
        h.ensure(tag + 'altitude-never-exceeds-cruise-level-or-ceiling',
                 z3.And(s['altitude'] <= env['crz'], s['altitude'] <= env['ceiling']))
        if self.last is not None:
            l = self.last
            h.ensure(tag + 'mass-and-fuel-never-increase', z3.And(s['aircraft_mass'] <= l['aircraft_mass'], s['fuel_mass'] <= l['fuel_mass']))
            h.ensure(tag + 'time-and-distance-never-decrease', z3.And(s['flight_time'] >= l['flight_time'], s['ground_distance'] >= l['ground_distance']))
            order = {'CLIMB': s['altitude'] >= l['altitude'], 'CRUISE': s['altitude'] == l['altitude'],
                     'DESCENT': s['altitude'] <= l['altitude']}.get(ph)
            if order is not None:
                h.ensure(tag + 'altitude-order-of-the-phase', order)
        else:
            self.first = s
        self.last = s
        self.appended = self.appended + 1
        if self.phase is not None:
            self.counts[self.phase.name] = self.counts.get(self.phase.name, 0) + 1

    def py_getattr(self, I, name):
        if name == 'set_phase':
            def set_phase(p):
                self.phase = p
                self.counts[p.name] = 0
            return Builtin('set_phase', set_phase, pure=False)
        if name == 'append':
            return Builtin('append', lambda pt: self.on_append(I, pt), pure=False)
        if name == 'make_point':
            def make_point(idx=None):
                pt = I.call(I.getattr(self.real, 'make_point'), [], {})
                if idx is None:
                    return pt
                if idx != -1:
                    raise Unsupported('make_point(%r)' % (idx,))
                if self.last is None:
                    I.raise_('IndexError', 'point index out of range')
                for f in POINT_FIELDS:
                    pt.attrs['_data'][f] = self.last[f]
                return pt
            return Builtin('make_point', make_point, pure=False)
        if name == 'fix':
            return Builtin('fix', lambda: setattr(self, 'fixed', True), pure=False)
        if name.startswith('n_'):
            return self.counts.get(name[2:].upper(), 0)
        if name == 'aircraft_mass':
            return SArr.from_list([self.last['aircraft_mass']]) if self.last else SArr.from_list([])
        raise Unsupported('Trajectory.' + name)

    def py_setattr(self, I, name, val):
        if name.startswith('n_'):
            self.counts[name[2:].upper()] = val
            return
        raise Unsupported('Trajectory.%s = ...' % name)


def point_inv(env, p):
    """What every appended point satisfies (and what the next phase may rely on)."""
    return z3.And(p['aircraft_mass'] - p['fuel_mass'] == env['dry'], p['ground_distance'] >= 0, p['flight_time'] >= 0,
                  p['longitude'] == TLON(p['ground_distance']), p['latitude'] == TLAT(p['ground_distance']),
                  p['true_airspeed'] > 0, p['fuel_flow'] >= 0)


def fresh_point(h, tag):
    return {f: h.real(f'{tag}_{f}') for f in POINT_FIELDS}


def make_env(h, use_weather=None):
    """Builder + context in an arbitrary state satisfying the context's postcondition (proved in context.altitudes)."""
    I = h.I
    install_field_models(h)
    h.trust('LegacyPerformanceModel.evaluate by contract (C06): a Performance within the phase sub-table\'s value range, or ValueError outside the table')
    h.trust('GroundTrack.great_circle(..., allow_overstep=True) by contract (C15, re-proved here): step(a, b) raises for a < 0 or b < 0 and otherwise '
            'returns the track point at distance a + b from the origin (forward geodesic along the initial azimuth, also beyond the destination)')
    h.trust('Weather.get_ground_speed by contract (C16): a positive ground speed, or ValueError outside the weather domain')
    h.trust('Container contracts proved in container.append / container.make_point are used by the ghost trajectory of the phase units')
    m_clm, m_crz, m_des = (h.real(x) for x in ('inv_frac_step_clm', 'inv_frac_step_crz', 'inv_frac_step_des'))
    h.assume(z3.And(m_clm >= 2, m_crz >= 2, m_des >= 2), 'step fractions in (0, 1/2] (at least two points per phase)')
    lhv = h.real('fuel_LHV')
    h.assume(lhv > 0, 'fuel lower heating value > 0')
    lo = h.new(L + ':LegacyOptions', frac_step_clm=Recip(m_clm), frac_step_crz=Recip(m_crz), frac_step_des=Recip(m_des), fuel_LHV=lhv)
    wx = h.choice(2) == 1 if use_weather is None else use_weather
    options = h.construct(B + ':Options', use_weather=wx, iterate_mass=False)
    b = h.construct(L + ':LegacyBuilder', options=options, legacy_options=lo)
    pm = PerfModel(h)
    gt = GT(h)
    clm, crz, des_end = h.real('clm_start_altitude'), h.real('crz_start_altitude'), h.real('des_end_altitude')
    h.assume(z3.And(clm <= crz, des_end <= crz, crz <= pm.maximum_altitude),
             'context postcondition (context.altitudes): climb start <= cruise level <= ceiling, descent end <= cruise level')
    sm, fuel = h.real('starting_mass'), h.real('total_fuel_mass')
    mission = h.new('AEIC.missions.mission:Mission', origin='AAA', destination='BBB', departure='departure-time', arrival=None,
                    load_factor=h.real('load_factor'), aircraft_type='B738', flight_id=None)
    ctx = h.new(L + ':LegacyContext', builder=b, ac_performance=pm, mission=mission, ground_track=gt, initial_altitude=clm,
                starting_mass=sm, total_fuel_mass=fuel, clm_start_altitude=clm, crz_start_altitude=crz, des_start_altitude=crz,
                des_end_altitude=des_end, descent_dist_approx=18.23 * (crz - des_end) if False else h.real('descent_dist_approx'),
                weather=WeatherStub(h) if wx else None)
    b.attrs['ctx'] = ctx
    env = dict(b=b, ctx=ctx, pm=pm, gt=gt, clm=clm, crz=crz, des_end=des_end, ceiling=pm.maximum_altitude, dry=sm - fuel,
               sm=sm, fuel=fuel, m_clm=m_clm, m_crz=m_crz, m_des=m_des, wx=wx)
    env['frame0'] = frame_snapshot(env)
    return env


def _freeze(v):
    if isinstance(v, dict):
        return ('dict', tuple((k, id(x)) for k, x in v.items()))
    if isinstance(v, (list, set, tuple)):
        return (type(v).__name__, tuple(id(x) for x in v))
    if isinstance(v, Obj):
        return ('obj', tuple((k, id(x)) for k, x in v.attrs.items()))
    return None


def frame_snapshot(env):
    """What a phase of a flight may not change: the builder's own (constructor-time) attributes -- which objects they
    are and, one level down, what those hold (options, memo tables, lists) -- and the per-flight context's fields other
    than the ones the phase is there to set."""
    b, ctx = env['b'], env['ctx']
    return dict(builder={k: (v, _freeze(v)) for k, v in b.attrs.items()}, ctx={k: v for k, v in ctx.attrs.items()})


def frame_clause(h, env, may_set=()):
    """Frame of a phase method (what C17's history independence needs of its callees): nothing on the builder itself is
    added, replaced or modified in place, and in the flight context only the named fields are set."""
    b, ctx, f0 = env['b'], env['ctx'], env['frame0']
    changed = []
    for k in set(f0['builder']) | set(b.attrs):
        if k not in f0['builder']:
            changed.append(f'builder.{k} added')
        elif k not in b.attrs:
            changed.append(f'builder.{k} removed')
        else:
            v0, fr0 = f0['builder'][k]
            if b.attrs[k] is not v0:
                changed.append(f'builder.{k} replaced')
            elif k != 'ctx' and _freeze(b.attrs[k]) != fr0:       # the context's own fields are compared below
                changed.append(f'builder.{k} modified in place')
    for k in set(f0['ctx']) | set(ctx.attrs):
        if k in may_set:
            continue
        if k not in f0['ctx'] or k not in ctx.attrs or ctx.attrs[k] is not f0['ctx'][k]:
            v0, v1 = f0['ctx'].get(k), ctx.attrs.get(k)
            if not (z3.is_expr(v0) and z3.is_expr(v1) and z3.eq(v0, v1)):
                changed.append(f'context.{k} changed')
    h.ensure('[frame] builder-left-as-constructed-and-only-the-phases-own-context-fields-set', not changed, note='; '.join(sorted(changed)))


def loop_roles(fr):
    tr = [v for v in fr.locals.values() if isinstance(v, TrajGhost)]
    pts = [v for v in fr.locals.values() if isinstance(v, Obj) and v.cls.name == 'Container']
    if len(tr) != 1 or len(pts) != 1:
        raise Unsupported('phase loop: cannot identify the trajectory / current point variables')
    return tr[0], pts[0]


def assigned_names(st):
    import ast
    out = set()
    for n in ast.walk(st):
        tg = n.targets if isinstance(n, ast.Assign) else [n.target] if isinstance(n, (ast.AugAssign, ast.AnnAssign)) else []
        for t in tg:
            for e in (t.elts if isinstance(t, (ast.Tuple, ast.List)) else [t]):
                if isinstance(e, ast.Name):
                    out.add(e.id)
    return out


def install_phase_invariant(h, env, fq, phase, start, end, n_points):
    """Inductive invariant of the phase loop, stated before iteration i (1 <= i <= n - 1):
    i - 1 points of this phase lie behind, the last one at altitude start + (i-1) * delta (level change) or at the
    cruise level; the current point pt continues it: same dry mass, mass / fuel not above, time / distance not below,
    position on the track at pt.ground_distance; positive airspeed."""
    from pyvc.loops import invariant_for_range_peeled
    I = h.I
    nz = to_z3(n_points)
    delta = (end - start) / z3.ToReal(nz - 1) if phase != 'CRUISE' else None
    state = {}

    def cur(pt):
        d = pt.attrs['_data']
        return {f: (to_real(d[f]) if d.get(f) is not None else None) for f in POINT_FIELDS}

    def inv(I_, fr, i):
        tr, pt = loop_roles(fr)
        p, l = cur(pt), tr.last
        if l is None or any(v is None for v in p.values()):
            return z3.BoolVal(False)
        iz = to_z3(i)
        conj = [iz <= nz - 1 if phase != 'CRUISE' else iz <= nz,
                point_inv(env, l), p['aircraft_mass'] - p['fuel_mass'] == env['dry'],
                p['aircraft_mass'] <= l['aircraft_mass'], p['fuel_mass'] <= l['fuel_mass'],
                p['flight_time'] >= l['flight_time'], p['ground_distance'] >= l['ground_distance'],
                p['longitude'] == TLON(p['ground_distance']), p['latitude'] == TLAT(p['ground_distance']),
                p['true_airspeed'] > 0, p['fuel_flow'] >= 0, to_z3(tr.appended) == state['base'] + iz]
        if phase == 'CRUISE':
            conj += [l['altitude'] == env['crz'], p['altitude'] == env['crz']]
        else:
            conj += [l['altitude'] == start + z3.ToReal(iz - 1) * delta]
        return z3.And(*conj)

    def havoc(I_, fr):
        tr, pt = loop_roles(fr)
        state['n'] = state.get('n', 0) + 1
        for f in POINT_FIELDS:
            pt.attrs['_data'][f] = h.real(f'havoc{state["n"]}_pt_{f}')
        tr.last = fresh_point(h, f'havoc{state["n"]}_last')
        tr.appended = h.int(f'havoc{state["n"]}_appended')
        if tr.phase is not None:
            tr.counts[tr.phase.name] = h.int(f'havoc{state["n"]}_phase_count')
        for k in sorted(state['assigned']):
            if k in fr.locals and z3.is_expr(fr.locals[k]):
                fr.locals[k] = h.real(f'havoc{state["n"]}_{k}')

    base = invariant_for_range_peeled(fq.split(':')[1] + '.loop', inv, havoc)

    def handler(I_, st, fr):
        tr, pt = loop_roles(fr)
        state['base'] = to_z3(tr.appended)
        state['assigned'] = assigned_names(st) - {k for k, v in fr.locals.items() if v is pt or v is tr}
        return base(I_, st, fr)
    I.loop_invariants[(fq, 0)] = handler
    return delta


def run_phase(h, env, fn, *args):
    try:
        h.method(env['b'], fn, *args)
        return None
    except PyExc as e:
        return e


def rejection_ok(h, e):
    """A phase may refuse the mission: performance envelope (ValueError), ground track (negative step: too short),
    weather domain (ValueError).  Anything else is an internal error."""
    ok = h.exc_is(e, 'ValueError') or e.cls.name.endswith('GroundTrack.Exception') or e.cls.name == 'Exception'
    h.ensure('a-phase-stops-only-by-rejecting-the-mission', bool(ok), note=f'{e.inst!r} at {e.inst.where}')


def level_change_unit(h, phase):
    env = make_env(h)
    I = h.I
    FP = I.lookup_fq('AEIC.storage.phase:FlightPhase')
    SFR = I.lookup_fq('AEIC.performance.types:SimpleFlightRules')
    fp = next(m for m in FP.members if m.name == phase)
    rule = next(m for m in SFR.members if m.name == ('CLIMB' if phase == 'CLIMB' else 'DESCEND'))
    n = h.int('n_points')
    h.assume(n >= 2, 'at least two points per phase (step fraction <= 1/2)')
    tr = TrajGhost(h, env)
    if phase == 'CLIMB':
        start, end = env['clm'], env['crz']
    else:
        start, end = env['crz'], env['des_end']
        prev = fresh_point(h, 'end_of_cruise')
        h.assume(z3.And(point_inv(env, prev), prev['altitude'] == env['crz']), 'descent starts from the last cruise point (cruise postcondition)')
        tr.last = prev
    fq = L + ':LegacyBuilder._fly_level_change'
    delta = install_phase_invariant(h, env, fq, phase, start, end, n)
    base = tr.appended
    e = run_phase(h, env, '_fly_level_change', tr, fp, rule, n, start, end)
    frame_clause(h, env)
    if e is not None:
        rejection_ok(h, e)
        return
    h.ensure('phase-appends-exactly-n-points', to_z3(tr.appended) == to_z3(base) + n)
    h.ensure('phase-ends-at-its-end-altitude', tr.last['altitude'] == end)
    h.ensure('last-point-satisfies-the-point-invariant', point_inv(env, tr.last))
    if phase == 'CLIMB':
        h.ensure('first-point-carries-starting-mass-and-fuel',
                 z3.And(tr.first['aircraft_mass'] == env['sm'], tr.first['fuel_mass'] == env['fuel']))
        h.ensure('first-point-at-climb-start-altitude-time-zero-distance-zero',
                 z3.And(tr.first['altitude'] == env['clm'], tr.first['flight_time'] == 0, tr.first['ground_distance'] == 0))


FUNCS_LC = [L + ':LegacyBuilder._fly_level_change', B + ':Builder._start_point', B + ':Builder.__getattr__', S + ':Container.__setattr__',
            S + ':Container.__getattr__']


@unit('C02', 'level-change.climb', FUNCS_LC, replay='contracts.C02:replay_builder', max_paths=20000, timeout_ms=20000)
def climb_unit(h):
    level_change_unit(h, 'CLIMB')


@unit('C02', 'level-change.descent', FUNCS_LC, replay='contracts.C02:replay_builder', max_paths=20000, timeout_ms=20000)
def descent_unit(h):
    level_change_unit(h, 'DESCENT')


@unit('C02', 'cruise', [L + ':LegacyBuilder.fly_cruise', B + ':Builder.__getattr__', S + ':Container.__setattr__', S + ':Container.__getattr__'],
      replay='contracts.C02:replay_builder', max_paths=20000, timeout_ms=20000)
def cruise_unit(h):
    env = make_env(h)
    tr = TrajGhost(h, env)
    prev = fresh_point(h, 'end_of_climb')
    h.assume(z3.And(point_inv(env, prev), prev['altitude'] == env['crz']), 'cruise starts from the last climb point (climb postcondition)')
    tr.last = prev
    n = z3.ToInt(env['m_crz'])
    install_phase_invariant(h, env, L + ':LegacyBuilder.fly_cruise', 'CRUISE', env['crz'], env['crz'], n)
    base = tr.appended
    e = run_phase(h, env, 'fly_cruise', tr)
    frame_clause(h, env)
    if e is not None:
        rejection_ok(h, e)
        return
    h.ensure('phase-appends-exactly-n-points', to_z3(tr.appended) == to_z3(base) + n)
    h.ensure('cruise-stays-at-the-cruise-level', tr.last['altitude'] == env['crz'])
    h.ensure('last-point-satisfies-the-point-invariant', point_inv(env, tr.last))


def replay_builder(payload):
    return native_builder_check(dict(quick=True))


def native_builder_check(payload):
    """Fly the sample missions with several step fractions / options and check the bookkeeping on the result."""
    import os
    root = os.environ.get('AEIC_SRC', '/repo/src').rsplit('/src', 1)[0]
    if not os.path.isdir(root + '/tests/data'):
        root = '/repo'          # a scratch copy of the sources only: the sample data are /repo's
    os.environ['AEIC_PATH'] = root + '/tests/data'
    import tomllib
    import numpy as np
    from pyproj import Geod
    from AEIC.config import Config, config
    from AEIC.missions import Mission
    from AEIC.performance.models import PerformanceModel
    from AEIC.trajectories.builders import LegacyBuilder, Options
    from AEIC.trajectories.builders.legacy import LegacyOptions
    payload = payload if isinstance(payload, dict) else {}
    Config.reset()
    Config.load(data_path_overrides=[root + '/tests/data'])
    G = Geod(ellps='WGS84')
    bad, cases = [], 0
    try:
        pm = PerformanceModel.load(config.file_location('performance/sample_performance_model.toml'))
        with open(config.file_location('missions/sample_missions_10.toml'), 'rb') as f:
            missions = Mission.from_toml(tomllib.load(f))
        combos = [(0.01, 0.01, 0.01, False), (0.03, 0.07, 0.03, False), (0.03, 0.01, 0.06, True), (0.5, 0.5, 0.5, False)]
        if (payload or {}).get('quick'):
            missions = missions[:4]
        for fc, fz, fd, it in combos:
            b = LegacyBuilder(options=Options(iterate_mass=it, use_weather=False),
                              legacy_options=LegacyOptions(frac_step_clm=fc, frac_step_crz=fz, frac_step_des=fd))
            for m in missions:
                cases += 1
                tag = f'{m.label} frac=({fc},{fz},{fd}) iterate={it}'
                try:
                    t = b.fly(pm, m)
                except (ValueError, RuntimeError) as e:
                    if 'out of bounds' in str(e) or 'converge' in str(e) or 'non-negative' in str(e):
                        continue
                    bad.append(f'{tag}: {type(e).__name__}: {e}')
                    continue
                except Exception as e:   # noqa
                    if type(e).__name__ == 'Exception' and 'non-negative' in str(e):
                        continue
                    bad.append(f'{tag}: {type(e).__name__}: {e}')
                    continue
                am, fm, ft, gd, alt = (np.asarray(getattr(t, x)) for x in ('aircraft_mass', 'fuel_mass', 'flight_time', 'ground_distance', 'altitude'))
                for name in POINT_FIELDS:
                    if not np.all(np.isfinite(np.asarray(getattr(t, name)))):
                        bad.append(f'{tag}: non-finite {name}')
                dry = am - fm
                if np.max(np.abs(dry - dry[0])) > 1e-6 * abs(dry[0]):
                    bad.append(f'{tag}: aircraft mass - fuel mass varies by {np.max(np.abs(dry - dry[0])):.3f} kg')
                if np.any(np.diff(am) > 1e-9) or np.any(np.diff(fm) > 1e-9):
                    bad.append(f'{tag}: mass or fuel increases')
                if np.any(np.diff(ft) < -1e-9) or np.any(np.diff(gd) < -1e-9):
                    bad.append(f'{tag}: time or distance decreases')
                if abs(am[0] - t.starting_mass) > 1e-6 or abs(fm[0] - t.total_fuel_mass) > 1e-6:
                    bad.append(f'{tag}: first point ({am[0]:.1f}, {fm[0]:.1f}) != reported starting mass / fuel ({t.starting_mass:.1f}, {t.total_fuel_mass:.1f})')
                o, d = m.origin_position, m.destination_position
                az = G.inv(o.longitude, o.latitude, d.longitude, d.latitude)[0]
                lon, lat, _ = G.fwd(np.full(len(gd), o.longitude), np.full(len(gd), o.latitude), np.full(len(gd), az), gd)
                _, _, off = G.inv(lon, lat, np.asarray(t.longitude), np.asarray(t.latitude))
                if np.max(off) > 1.0:
                    k = int(np.argmax(off))
                    bad.append(f'{tag}: point {k} is {off[k]:.1f} m away from the great-circle position at its recorded ground distance')
                nc, nz = t.n_climb, t.n_cruise
                if np.any(np.diff(alt[:nc]) < -1e-6) or np.any(np.abs(np.diff(alt[nc:nc + nz])) > 1e-6) or np.any(np.diff(alt[nc + nz:]) > 1e-6):
                    bad.append(f'{tag}: altitude order of the phases broken')
                if len(bad) >= 6:
                    break
        return dict(cases=cases, reproduced=bool(bad), observed=bad[:6])
    finally:
        Config.reset()


@unit('C02', 'context.altitudes', [L + ':LegacyContext.__init__'], replay='contracts.C02:replay_builder')
def context_unit(h):
    I = h.I
    pm = PerfModel(h)
    gt = GT(h)
    h.summary('AEIC.trajectories.ground_track:GroundTrack.great_circle', lambda I_, fi, a, k: gt)
    oa, da = h.real('origin_elevation'), h.real('destination_elevation')
    Pos = 'AEIC.types.spatial:Position'
    op = h.construct(Pos, h.real('origin_lon'), h.real('origin_lat'), oa)
    dp = h.construct(Pos, h.real('dest_lon'), h.real('dest_lat'), da)
    mission = h.new('AEIC.missions.mission:Mission', origin='AAA', destination='BBB', departure=None, arrival=None,
                    load_factor=h.real('load_factor'), aircraft_type='B738', flight_id=None, origin_position=op, destination_position=dp)
    options = h.construct(B + ':Options', use_weather=False)
    b = h.construct(L + ':LegacyBuilder', options=options)
    sm = [None, h.real('given_starting_mass')][h.choice(2)]
    ceil = pm.maximum_altitude
    k3, k7 = 3000 * z3.RealVal('0.3048'), 7000 * z3.RealVal('0.3048')
    clm_s = z3.If(oa + k3 >= ceil, oa, oa + k3)
    crz_0 = z3.If(ceil - k7 < clm_s, clm_s, ceil - k7)
    crz_s = z3.If(crz_0 > ceil, ceil, crz_0)
    de_s = z3.If(da + k3 >= ceil, ceil, da + k3)
    infeasible = z3.Or(crz_s < clm_s, de_s > crz_s)       # an airport (its climb start / descent end level) above the cruise level
    try:
        c = h.construct(L + ':LegacyContext', b, pm, mission, sm)
    except PyExc as e:
        ok = h.exc_is(e, 'ValueError')
        h.ensure('context-refuses-only-with-a-value-error', bool(ok), note=f'{e.inst!r} at {e.inst.where}')
        h.ensure('refused-only-when-an-airport-is-above-the-cruise-level', infeasible)
        return
    h.ensure('an-airport-above-the-cruise-level-is-refused', z3.Not(infeasible))
    g = lambda n: to_real(I.getattr(c, n))      # noqa
    clm, crz, ds, de = g('clm_start_altitude'), g('crz_start_altitude'), g('des_start_altitude'), g('des_end_altitude')
    h.ensure('climb-starts-3000ft-above-the-origin-or-at-its-elevation-if-that-reaches-the-ceiling',
             clm == z3.If(oa + k3 >= ceil, oa, oa + k3))
    h.ensure('descent-ends-3000ft-above-the-destination-clamped-to-the-ceiling', de == z3.If(da + k3 >= ceil, ceil, da + k3))
    h.ensure('cruise-level-between-climb-start-and-ceiling', z3.And(clm <= crz, crz <= ceil, ds == crz))
    h.ensure('descent-end-not-above-cruise-level', de <= ds)
    h.ensure('initial-altitude-is-the-climb-start', to_real(I.getattr(c, 'initial_altitude')) == clm)
    h.ensure('context-records-mission-model-and-track', I.getattr(c, 'ground_track') is gt and I.getattr(c, 'ac_performance') is pm
             and I.getattr(c, 'mission') is mission and I.getattr(c, 'starting_mass') is sm)


@unit('C02', 'phase-wrappers', [L + ':LegacyBuilder.fly_climb', L + ':LegacyBuilder.fly_descent'])
def wrappers_unit(h):
    """fly_climb / fly_descent hand the phase's altitudes, rule and point count to _fly_level_change; the point
    count is at least 2 for step fractions in (0, 1/2]."""
    env = make_env(h, use_weather=False)
    calls = []
    h.summary(L + ':LegacyBuilder._fly_level_change', lambda I_, fi, a, k: calls.append(a[1:]))
    tr = TrajGhost(h, env)
    which = ['fly_climb', 'fly_descent'][h.choice(2)]
    tr.counts['DESCENT'] = h.int('descent_points')
    before = tr.counts['DESCENT']
    h.method(env['b'], which, tr)
    frame_clause(h, env)
    if len(calls) != 1:
        h.fail('delegates-to-the-level-change-once', f'{len(calls)} calls')
        return
    t, fp, rule, n, start, end = calls[0]
    if which == 'fly_climb':
        h.ensure('climb-from-climb-start-to-cruise-level', z3.And(to_real(start) == env['clm'], to_real(end) == env['crz']))
        h.ensure('climb-phase-and-rule', fp.name == 'CLIMB' and rule.name == 'CLIMB' and t is tr)
        h.ensure('point-count-from-the-step-fraction', to_z3(n) == z3.ToInt(env['m_clm']))
    else:
        h.ensure('descent-from-cruise-level-to-descent-end', z3.And(to_real(start) == env['crz'], to_real(end) == env['des_end']))
        h.ensure('descent-phase-and-rule', fp.name == 'DESCENT' and rule.name == 'DESCEND' and t is tr)
        h.ensure('point-count-from-the-step-fraction', to_z3(n) == z3.ToInt(env['m_des'] + 1))
    h.ensure('at-least-two-points', to_z3(n) >= 2)


class PhaseLog(Model):
    type_names = ('Trajectory',)

    def __init__(self, h):
        self.h, self.log, self.final = h, [], h.real('final_aircraft_mass')

    def py_getattr(self, I, name):
        if name == 'fix':
            return Builtin('fix', lambda: self.log.append('fix'), pure=False)
        if name == 'aircraft_mass':
            return SArr.from_list([self.h.real('some_mass'), self.final])
        raise Unsupported('Trajectory.' + name)


@unit('C02', 'fly-iteration', [B + ':Builder._fly_iteration'])
def fly_iteration_unit(h):
    """One iteration flies climb, cruise, descent in this order on one fresh trajectory, fixes it and reports the
    residual (total fuel - burned) / total fuel."""
    env = make_env(h, use_weather=False)
    h.assume(env['fuel'] != 0, 'trip fuel is not zero (calc_starting_mass: positive distance and fuel flow)')
    t = PhaseLog(h)
    h.model('new:AEIC.trajectories.trajectory:Trajectory', lambda I_, cls, **kw: t)
    for ph in ('fly_climb', 'fly_cruise', 'fly_descent'):
        h.summary(f'{L}:LegacyBuilder.{ph}', lambda I_, fi, a, k, ph=ph: t.log.append((ph, a[1])))
    r = h.method(env['b'], '_fly_iteration')
    tr, res = r
    h.ensure('phases-in-order-on-the-new-trajectory-then-fixed',
             tr is t and t.log == [('fly_climb', t), ('fly_cruise', t), ('fly_descent', t), 'fix'], note=repr(t.log))
    h.ensure('residual-is-unburned-share-of-the-trip-fuel', to_real(res) == (env['fuel'] - (env['sm'] - t.final)) / env['fuel'])


@unit('C02', 'fly.reports-the-first-point', [B + ':Builder.fly', B + ':Builder._iterate_mass', B + ':Builder._fly_iteration'],
      replay='contracts.C02:replay_builder')
def fly_reports_unit(h):
    """fly() end to end against the callee contracts (C17's world: every callee may reject): the returned
    trajectory's metadata starting_mass / total_fuel_mass are the values its first point was flown with, for any
    number of mass iterations (loop invariant of _iterate_mass) and for a user-supplied starting mass."""
    from contracts import C17
    h.trust('callee contracts: LegacyContext.__init__ sets the Context fields or raises; calc_starting_mass / fly_climb / fly_cruise / '
            'fly_descent may raise (C17); fly_climb appends as first point the builder\'s current starting mass and trip fuel (level-change.climb)')
    b, options, tol = C17.make_builder(h)
    C17.loop_contract(h, tol)
    C17.tag_residual(h)
    w, out = C17.one_flight(h, b, 'f1')
    if out[0] == 'raise':
        return
    t = out[1]
    first = t.attrs.get('__first__') if isinstance(t, C17.Traj) else None
    if first is None:
        h.fail('returned-trajectory-was-flown-by-this-call', repr(t))
        return
    h.ensure('reported-starting-mass-is-the-first-points-mass', to_real(t.attrs.get('starting_mass')) == to_real(first[0])
             if t.attrs.get('starting_mass') is not None else False)
    h.ensure('reported-fuel-load-is-the-first-points-fuel', to_real(t.attrs.get('total_fuel_mass')) == to_real(first[1])
             if t.attrs.get('total_fuel_mass') is not None else False)


# ================================================================================================
# Resampling
# ================================================================================================
NANV = z3.Real('numpy_nan_marker')


def install_interp_contract(h):
    """np.interp(x, xp, fp, left, right) for non-decreasing xp of any length n >= 1, by contract: below xp[0] -> left,
    above xp[n-1] -> right, at xp[n-1] -> fp[n-1]; otherwise with the interval j (0 <= j < n-1, xp[j] <= x < xp[j+1])
    the value fp[j] + (fp[j+1]-fp[j]) * (x-xp[j]) / (xp[j+1]-xp[j])."""
    I = h.I
    h.trust('np.interp contract (binary search for the interval xp[j] <= x < xp[j+1], linear in it; left / right outside; the last node exactly)')
    I.models['const:numpy.nan'] = lambda I_: NANV
    jf = {}
    calls = []

    def interp(I_, x, xp, fp, left=None, right=None):
        n = to_z3(I_.len_(xp))
        if not I_.ctx.entails(to_z3(I_.len_(fp)) == n):
            calls.append(('length-mismatch', xp, fp))
            I_.raise_('ValueError', 'fp and xp are not of the same length.')
        calls.append((x, xp, fp))
        J = jf.setdefault(id(xp), z3.Function(f'interp_interval_{len(jf)}', z3.RealSort(), z3.IntSort()))
        lo = to_real(left) if left is not None else to_real(fp.at(0))
        hi = to_real(right) if right is not None else to_real(fp.at(n - 1))

        def one(v):
            v = to_real(v)
            j = J(v)
            x0, x1 = to_real(xp.at(j)), to_real(xp.at(j + 1))
            I_.ctx.axiom(z3.Implies(z3.And(to_real(xp.at(0)) <= v, v < to_real(xp.at(n - 1))),
                                    z3.And(j >= 0, j < n - 1, x0 <= v, v < x1)))
            f0, f1 = to_real(fp.at(j)), to_real(fp.at(j + 1))
            lin = f0 + (f1 - f0) * (v - x0) / (x1 - x0)
            return z3.If(v < to_real(xp.at(0)), lo, z3.If(v > to_real(xp.at(n - 1)), hi,
                         z3.If(v == to_real(xp.at(n - 1)), to_real(fp.at(n - 1)), lin)))
        return SArr(I_.len_(x), lambda k: one(x.at(k)))
    I.models['numpy.interp'] = interp
    I.models['copy.deepcopy'] = lambda I_, v, *a: v
    return jf, calls


def resampling_setup(h):
    I = h.I
    install_field_models(h)
    jf, calls = install_interp_contract(h)
    t, size, cap, bufs = general_trajectory(h)
    h.assume(size >= 1, 'a returned trajectory has at least one point')
    return I, t, size, cap, bufs, jf, calls


def time_axis(h, bufs, size, strict):
    """Instances of 'flight_time is (strictly) increasing over the stored points' for the index pairs asked for."""
    ft = bufs['flight_time']

    def mono(a, b):
        a, b = to_z3(a), to_z3(b)
        lt = to_real(ft.at(a)) < to_real(ft.at(b)) if strict else to_real(ft.at(a)) <= to_real(ft.at(b))
        h.ctx.assume(z3.Implies(z3.And(a >= 0, a < b, b < size), lt))
    return mono


FUNCS_RS = [T + ':Trajectory.interpolate_time', T + ':Trajectory.__init__', S + ':Container.__init__', S + ':Container.__getattr__']


def own_times(h, characterise):
    I, t, size, cap, bufs, jf, calls = resampling_setup(h)
    own = I.getattr(t, 'flight_time')
    try:
        r = h.method(t, 'interpolate_time', own)
    except PyExc as e:
        h.fail('a-trajectory-can-be-resampled-at-its-own-times', f'{e.inst!r} at {e.inst.where}')
        return
    h.ensure('resampled-trajectory-has-as-many-points', to_z3(I.len_(r)) == size)
    m = h.int('any_point')
    h.assume(z3.And(m >= 0, m < size))
    h.assume(z3.BoolVal(True), 'flight_time non-decreasing over the stored points (what the builder guarantees; equal times occur at the phase hand-overs)')
    mono = time_axis(h, bufs, size, strict=False)
    ft = bufs['flight_time']
    xm = to_real(ft.at(m))
    js = [J(xm) for J in jf.values()]
    for j in js:
        mono(j, m), mono(m, j + 1), mono(j + 1, m), mono(m, j), mono(m + 1, j)
    mono(0, m), mono(m, size - 1), mono(0, size - 1), mono(m, m + 1)
    untied = z3.Or(m == size - 1, xm < to_real(ft.at(m + 1)), xm == to_real(ft.at(size - 1)))
    for f in POINT_FIELDS:
        v = to_real(I.getattr(r, f).at(m))
        if not characterise:
            h.ensure('own-time-points-give-back-the-stored-values', v == to_real(bufs[f].at(m)), note=f)
        else:
            # exactly what happens: a point whose time differs from the next point's comes back unchanged; a point that
            # shares its time with later points comes back with the values of the last point of that time
            last_node = xm == to_real(ft.at(size - 1))
            h.ensure('own-time-points-give-back-the-stored-values',
                     z3.And(z3.Implies(z3.And(untied, z3.Not(last_node)), v == to_real(bufs[f].at(m))),
                            z3.Implies(last_node, v == to_real(bufs[f].at(size - 1))),
                            z3.Implies(z3.Not(last_node), z3.And(*[z3.And(j >= m, to_real(ft.at(j)) == xm, to_real(ft.at(j + 1)) > xm,
                                                                        v == to_real(bufs[f].at(j))) for j in js]))), note=f)


@unit('C02', 'resampling.own-time-points', FUNCS_RS, replay='contracts.C02:replay_resampling_ties')
def resampling_own(h):
    """Resampling at the trajectory's own time points returns every stored value (times as the builder produces them:
    non-decreasing, equal at the phase hand-overs)."""
    own_times(h, characterise=False)


@unit('C02', 'resampling.own-time-points.characterisation-of-known-defect', FUNCS_RS,
      characterises='resampling.own-time-points/own-time-points-give-back-the-stored-values')
def resampling_own_defect(h):
    own_times(h, characterise=True)


@unit('C02', 'resampling.intermediate-times', FUNCS_RS, replay='contracts.C02:replay_resampling')
def resampling_between(h):
    """Any query times: every point-wise field is interpolated over the stored points' times and values (the view,
    not the allocated buffers), in the interval that contains the query time."""
    I, t, size, cap, bufs, jf, calls = resampling_setup(h)
    nq = h.int('n_query_times')
    h.assume(nq >= 1)
    q = SArr.symbolic(h.ctx, 'query_time', nq)
    try:
        r = h.method(t, 'interpolate_time', q)
    except PyExc as e:
        h.fail('a-trajectory-can-be-resampled', f'{e.inst!r} at {e.inst.where}')
        return
    h.ensure('resampled-trajectory-has-one-point-per-query-time', to_z3(I.len_(r)) == nq)
    k = h.int('any_query')
    h.assume(z3.And(k >= 0, k < nq))
    x = to_real(q.at(k))
    ft = bufs['flight_time']
    j = h.int('interval')
    h.assume(z3.And(j >= 0, j + 1 < size, to_real(ft.at(j)) <= x, x < to_real(ft.at(j + 1))), 'the query time lies in the interval [t_j, t_j+1) of the stored points')
    mono = time_axis(h, bufs, size, strict=False)
    for J in jf.values():
        jj = J(x)
        mono(jj, j), mono(j + 1, jj), mono(jj + 1, j), mono(j, jj), mono(j + 1, jj + 1), mono(jj + 1, j + 1)
    mono(0, j), mono(j + 1, size - 1), mono(0, size - 1)
    # strictly inside one interval the interval is unique whenever the node times differ; with tied nodes the
    # interpolant is the same on every candidate interval only if x is not a tied value: x in [t_j, t_j+1) with t_j < t_j+1
    for f in POINT_FIELDS:
        v = to_real(I.getattr(r, f).at(k))
        f0, f1 = to_real(bufs[f].at(j)), to_real(bufs[f].at(j + 1))
        x0, x1 = to_real(ft.at(j)), to_real(ft.at(j + 1))
        uniq = z3.And(*[z3.Implies(J(x) != j, z3.And(to_real(ft.at(J(x))) == x0, to_real(ft.at(J(x) + 1)) == x1,
                                                     to_real(bufs[f].at(J(x))) == f0, to_real(bufs[f].at(J(x) + 1)) == f1)) for J in jf.values()])
        h.ensure('linear-interpolation-between-the-neighbouring-stored-points',
                 z3.Implies(uniq, v == f0 + (f1 - f0) * (x - x0) / (x1 - x0)), note=f)
    h.ensure('interpolates-over-the-stored-points-only',
             all(c[0] != 'length-mismatch' and h.ctx.entails(to_z3(I.len_(c[1])) == size) and h.ctx.entails(to_z3(I.len_(c[2])) == size) for c in calls) and len(calls) == len(POINT_FIELDS),
             note=f'{len(calls)} np.interp calls')


def replay_resampling_ties(payload):
    return replay_resampling(dict(ties_only=True))


def replay_resampling(payload):
    import os
    root = os.environ.get('AEIC_SRC', '/repo/src').rsplit('/src', 1)[0]
    if not os.path.isdir(root + '/tests/data'):
        root = '/repo'
    os.environ['AEIC_PATH'] = root + '/tests/data'
    import tomllib
    import numpy as np
    from AEIC.config import Config, config
    from AEIC.missions import Mission
    from AEIC.performance.models import PerformanceModel
    from AEIC.trajectories.builders import LegacyBuilder, Options
    from AEIC.trajectories.builders.legacy import LegacyOptions
    Config.reset()
    Config.load(data_path_overrides=[root + '/tests/data'])
    bad = []
    try:
        pm = PerformanceModel.load(config.file_location('performance/sample_performance_model.toml'))
        with open(config.file_location('missions/sample_missions_10.toml'), 'rb') as f:
            missions = Mission.from_toml(tomllib.load(f))
        ties_only = bool((payload or {}).get('ties_only'))
        for fr in (0.01, 0.03):
            b = LegacyBuilder(options=Options(iterate_mass=False), legacy_options=LegacyOptions(fr, fr, fr))
            t = b.fly(pm, missions[0])
            ft = np.asarray(t.flight_time)
            r = t.interpolate_time(ft)
            tied = set(np.where(np.diff(ft) == 0)[0].tolist())
            for name in POINT_FIELDS:
                a, c = np.asarray(getattr(t, name)), np.asarray(getattr(r, name))
                idx = [int(i) for i in np.where(~np.isclose(a, c, rtol=1e-12, atol=0))[0]]
                at_ties = [i for i in idx if i in tied]
                other = [i for i in idx if i not in tied]
                if ties_only and at_ties:
                    bad.append(f'step fraction {fr}: {name} at tied time index {at_ties[0]}: stored {a[at_ties[0]]!r}, resampled {c[at_ties[0]]!r} (the value of point {at_ties[0] + 1})')
                if not ties_only and other:
                    bad.append(f'step fraction {fr} ({len(t)} points, capacity {t._capacity}): {name} differs at {len(other)} untied points, e.g. [{other[0]}] stored {a[other[0]]!r}, resampled {c[other[0]]!r}')
            mid = 0.5 * (ft[3] + ft[4])
            r2 = t.interpolate_time(np.array([mid]))
            for name in ('aircraft_mass', 'altitude'):
                a = np.asarray(getattr(t, name))
                if not ties_only and not np.isclose(np.asarray(getattr(r2, name))[0], 0.5 * (a[3] + a[4]), rtol=1e-9):
                    bad.append(f'step fraction {fr}: {name} at the middle of [t3, t4] is {np.asarray(getattr(r2, name))[0]!r}, expected {0.5 * (a[3] + a[4])!r}')
        return dict(reproduced=bool(bad), observed=bad[:6])
    finally:
        Config.reset()


WITNESSES = {
    'tied-times-at-phase-hand-over': dict(replay_fn='contracts.C02:replay_resampling_ties', payload=dict(model={})),
}


# the ground track's position contract (C15) is part of this property: "every position lies on the origin-destination
# great circle at exactly the recorded ground distance" rests on step() returning the track point at from + step
from contracts import C15 as _c15   # noqa: E402
from pyvc.verify import UNITS as _UNITS   # noqa: E402
for _u in _UNITS.get('C15', []):
    if _u.name.startswith('ground-track.'):
        unit('C02', _u.name, _u.func, replay=_u.replay, max_paths=_u.max_paths)(_u.fn)


@unit('C02', 'calc-starting-mass', [L + ':LegacyBuilder.calc_starting_mass'])
def calc_mass_unit(h):
    """Trip fuel = distance / cruise TAS * cruise fuel flow >= 0 is recorded as the fuel load; the starting mass is
    empty + payload + trip + 5 % reserve + divert + hold, capped at the maximum mass."""
    env = make_env(h, use_weather=False)
    env['ctx'].attrs['total_fuel_mass'] = None
    b, pm = env['b'], env['pm']
    try:
        r = h.method(b, 'calc_starting_mass')
    except PyExc as e:
        frame_clause(h, env, may_set=('starting_mass', 'total_fuel_mass'))
        rejection_ok(h, e)
        return
    frame_clause(h, env, may_set=('starting_mass', 'total_fuel_mass'))
    (state, rules, tas, rocd, ff) = pm.calls[-1]
    fuel = env['gt'].total / tas * ff
    h.ensure('evaluated-at-cruise-level-and-maximum-mass', h.I.getattr(state, 'aircraft_mass') == 'max' and rules.name == 'CRUISE')
    h.ensure('cruise-level-queried', to_real(h.I.getattr(state, 'altitude')) == env['crz'])
    h.ensure('fuel-load-is-the-trip-fuel', z3.And(to_real(h.I.getattr(b, 'total_fuel_mass')) == fuel, fuel >= 0))
    h.ensure('starting-mass-never-above-the-maximum-mass', to_real(r) <= pm.maximum_mass)


def bounded_checks(tier, seed):
    from pyvc.cli import run_native
    r = run_native('contracts.C02', 'native_builder_check', dict(quick=(tier == 'quick')))
    viol = [dict(obligation='bounded/flown-trajectory-bookkeeping', input=o, observed=o, replay_fn='contracts.C02:native_builder_check')
            for o in (r.get('observed') or [])[:3]]
    return [dict(name='sample missions flown by the real LegacyBuilder with four step-fraction / option combinations; bookkeeping checked on the returned trajectories',
                 cases=r.get('cases', 0), distinct_nontrivial=r.get('cases', 0), bound=f"{r.get('cases', 0)} flights (sample performance model, sample missions)",
                 rule='dry mass constant, mass / fuel non-increasing, time / distance non-decreasing, first point = reported mass and fuel, positions on the '
                      'great circle at the recorded distance (pyproj), altitude order per phase, all values finite',
                 violations=viol, error=r.get('error'))]
