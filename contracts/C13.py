"""C13 -- schedule import creates exactly the flight instances the schedule row implies.

Deductive part: CSVEntry.is_row_valid (False iff one of the documented reasons), OAGDatabase.add
(skips only for unknown airport / implausible distance; call-site preconditions of _add_flight /
_add_schedule: the *defaulted* effective dates; count recorded), WritableDatabase._add_schedule
(one instance per date of the range whose weekday operates and whose arrival is not before departure,
local -> UTC through the assumed ZoneInfo offset function, day number, one warning per dropped instance),
_distance_check (decision rule and the argument order of GEOD.inv), _make_dow_mask.
Bounded part: CSVEntry.from_csv_row text parsing and an end-to-end import of generated rows.
"""
from __future__ import annotations

import z3

from pyvc.models import geod
from pyvc.models.arrays import SArr
from pyvc.models.geod import DIST
from pyvc.source import Unsupported
from pyvc.values import Builtin, EnumMember, FStr, Model, Obj, PyExc, to_real, to_z3
from pyvc.verify import unit

LEVEL = 'other'
EXPLANATION = ('Row filter, defaulting of effective dates, date-range x weekday expansion with local->UTC conversion, the '
               'plausibility rule and its Geod argument order are proved on the real code; the UTC clause rests on the assumed '
               'time-zone offset function; CSV text parsing is bounded.')
O = 'AEIC.missions.oag'
W = 'AEIC.missions.writable_database'
Z = z3.IntSort()
OFF = z3.Function('utc_offset_seconds', z3.StringSort(), Z, Z)     # ZoneInfo: offset of zone at a local wall-clock second


@unit('C13', 'is_row_valid', [O + ':CSVEntry.is_row_valid'], replay='contracts.C13:replay_parse')
def row_valid(h):
    carrier = ['\x1a', 'AA'][h.choice(2)]
    service = ['V', 'U', 'J', 'F'][h.choice(4)]
    stops = ['0', '1', '2'][h.choice(3)]
    operating = ['N', '', 'O'][h.choice(3)]
    genacft = ['BUS', 'HOV', 'LCH', 'LMO', 'RFS', 'TRN', '738', ''][h.choice(8)]
    row = dict(carrier=carrier, service=service, stops=stops, operating=operating, genacft=genacft)
    r = h.call(O + ':CSVEntry.is_row_valid', row)
    documented = carrier == '\x1a' or service in ('V', 'U') or stops != '0' or operating == 'N' or \
        genacft in ('BUS', 'HOV', 'LCH', 'LMO', 'RFS', 'TRN')
    h.ensure('rows-are-skipped-exactly-for-the-documented-reasons', r is (not documented), note=str(row))


class DateV(Model):
    """datetime.date as days since 1970-01-01."""
    type_names = ('datetime.date',)

    def __init__(self, days, label=None, ymd=None):
        self.days, self.label, self.ymd = days, label, ymd      # ymd: (year, month, day) terms when the unit supplies them

    def py_getattr(self, I, name):
        if name == 'isoformat':
            return Builtin('isoformat', lambda: FStr(['date:', self.days]))
        if name in ('year', 'month', 'day'):
            src = self.label or self.ymd
            if src is None:
                raise Unsupported('date.' + name + ' of a date given only as a day number')
            return src[('year', 'month', 'day').index(name)]
        raise Unsupported('date.' + name)

    def py_truth(self, I):
        return True


class Td(Model):
    def __init__(self, secs):
        self.secs = secs

    def py_getattr(self, I, name):
        if name == 'days':
            s = to_z3(self.secs)
            return s / 86400 if s.is_int() else z3.ToInt(s / 86400)
        raise Unsupported('timedelta.' + name)


class Ts(Model):
    """pandas.Timestamp: either a wall clock in a zone (instant = wall - OFF(zone, wall); UTC has offset 0) or,
    after absolute-time arithmetic on a zoned value, just an instant."""
    type_names = ('pandas.Timestamp',)

    def __init__(self, wall=None, zone='UTC', instant=None):
        self.wall, self.zone, self._instant = wall, zone, instant

    def instant(self):
        if self._instant is not None:
            return self._instant
        if self.zone == 'UTC':
            return to_z3(self.wall)
        return to_z3(self.wall) - OFF(z3.StringVal(self.zone), to_z3(self.wall))

    def py_binop(self, I, op, other, reflected):
        if op == 'Add' and isinstance(other, Td):
            if self.zone == 'UTC' and self._instant is None:
                return Ts(to_z3(self.wall) + to_z3(other.secs), 'UTC')
            # pandas: adding a timedelta to a zone-aware timestamp adds absolute time
            return Ts(instant=self.instant() + to_z3(other.secs), zone=self.zone)
        if op == 'Sub' and isinstance(other, Ts) and not reflected:
            return Td(self.instant() - other.instant())
        return NotImplemented

    def py_getattr(self, I, name):
        if name == 'replace':
            def replace(tzinfo=None, **k):
                if k:
                    raise Unsupported('Timestamp.replace of fields')
                if self._instant is not None or self.zone != 'UTC':
                    raise Unsupported('replace(tzinfo=) on an already zoned timestamp')
                return Ts(self.wall, tzinfo.name)
            return Builtin('replace', replace)
        if name == 'timestamp':
            return Builtin('timestamp', lambda: self.instant())
        if name == 'isoweekday':
            # 1970-01-01 was a Thursday (4)
            if self.wall is None:
                raise Unsupported('weekday of an instant')
            day = to_z3(self.wall) / 86400
            return Builtin('isoweekday', lambda: (day + 3) % 7 + 1)
        raise Unsupported('Timestamp.' + name)


class Zone(Model):
    def __init__(self, name):
        self.name = name


def install_time(h):
    I = h.I
    h.trust('pandas.date_range(a, b, tz="UTC") = the consecutive UTC midnights a..b inclusive; Timestamp.isoweekday; '
            'replace(tzinfo=ZoneInfo(z)) reinterprets the wall clock in zone z: instant = wall - utc_offset(z, wall) (zoneinfo database '
            'assumed); adding a timedelta to a zone-aware timestamp adds absolute time')
    I.models['zoneinfo.ZoneInfo'] = lambda I_, name: Zone(name)
    I.models['datetime.timedelta'] = lambda I_, days=0, hours=0, minutes=0, seconds=0: Td(
        to_z3(days) * 86400 + to_z3(hours) * 3600 + to_z3(minutes) * 60 + to_z3(seconds))
    I.models['pandas.Timestamp'] = lambda I_, s, **k: Ts(z3.IntVal(0), 'UTC')      # only EPOCH is built this way

    def date_range(I_, a, b, tz=None, **k):
        if a is None or b is None:
            I_.raise_('ValueError', 'Of the four parameters: start, end, periods, and freq, exactly three must be specified')
        n = I_.hooks['date_range_len'](a, b)
        return [Ts(to_z3(a.days) * 86400 + 86400 * i, 'UTC') for i in range(n)]
    I.models['pandas.date_range'] = date_range


def airport_info(h, tag, tz):
    ap = h.new('AEIC.utils.airports:Airport', iata_code=tag, longitude=h.real(tag + '_lon'), latitude=h.real(tag + '_lat'), _partial=True)
    return h.new(W + ':AirportInfo', id=h.int(tag + '_id'), airport=ap, timezone=tz)


class CursorStub(Model):
    def __init__(self):
        self.calls = []

    def py_getattr(self, I, name):
        if name in ('execute', 'executemany'):
            return Builtin(name, lambda sql, data=(): self.calls.append((name, sql, data)), pure=False)
        raise Unsupported('cursor.' + name)


@unit('C13', 'add_schedule.expansion', [W + ':WritableDatabase._add_schedule'], replay='contracts.C13:replay_import', max_paths=20000)
def add_schedule(h):
    """Ranges of 1..3 consecutive dates (start date symbolic), any weekday set, symbolic local times, zones and offsets."""
    install_time(h)
    I = h.I
    ndays = 1 + h.choice(3)
    I.hooks['date_range_len'] = lambda a, b: ndays
    d0 = h.int('first_day')
    h.assume(d0 >= 0)
    DOW = I.lookup_fq('AEIC.types.time:DayOfWeek')
    TOD = I.lookup_fq('AEIC.types.time:TimeOfDay')
    days = set(m for m in DOW.members if h.choice(2) == 1) if False else None
    # the operating-weekday set is decided lazily: membership of each encountered weekday is a symbolic Boolean
    op = {m.value: h.bool(f'operates_on_{m.name}') for m in DOW.members}

    class DaySet(Model):
        def py_contains(self, I_, item):
            if isinstance(item, EnumMember):
                return op[item.value]
            raise Unsupported('weekday set membership of ' + repr(item))
    dh, dm, ah, am = (h.int(x) for x in ('dep_hour', 'dep_minute', 'arr_hour', 'arr_minute'))
    h.assume(z3.And(dh >= 0, dh <= 23, dm >= 0, dm <= 59, ah >= 0, ah <= 23, am >= 0, am <= 59), 'times of day are valid')
    off = h.int('arrival_day_offset')
    h.assume(z3.And(off >= -1, off <= 2), 'arrival day offset in -1..2')
    origin, dest = airport_info(h, 'ORG', 'Zone/Origin'), airport_info(h, 'DST', 'Zone/Destination')
    # the importer's warning table may already hold a warning for this line (one is kept per line)
    prior = h.choice(2) == 1
    WT = I.lookup_fq(W + ':Warning')
    warnings = {7: h.new(W + ':Warning', warn_type=None, data=None)} if prior else {}
    db = h.new(W + ':WritableDatabase', _partial=True, warnings=warnings, unknown_airports=set())
    cur = CursorStub()
    fid = h.int('flight_id')
    # DayOfWeek(t.isoweekday()) with a symbolic weekday: by cases
    orig_from_pandas = None

    def from_pandas(I_, fi, a, k):
        wd = a[1].py_getattr(I_, 'isoweekday').fn()
        i = I_.ctx.choose(7, lambda j: I_.ctx.feasible(wd == j + 1))
        I_.ctx.assume(wd == i + 1)
        return DOW.members[i]
    h.summary('AEIC.types.time:DayOfWeek.from_pandas', from_pandas)
    try:
        n = h.method(db, '_add_schedule', cur, 7, fid, origin, dest, DateV(d0), DateV(d0 + ndays - 1), DaySet(),
                     I.call(TOD, [dh, dm], {}), I.call(TOD, [ah, am], {}), off)
    except PyExc as e:
        h.fail('no-internal-error', f'{e.inst!r} at {e.inst.where}')
        return
    inserted = []
    for name, sql, data in cur.calls:
        if name == 'executemany' and 'schedules' in str(sql):
            inserted += list(data)
    # ---- spec: one instance per date of the range that operates and is not misordered, in date order
    zo, zd = z3.StringVal('Zone/Origin'), z3.StringVal('Zone/Destination')
    expect = []
    for i in range(ndays):
        day = d0 + i
        wd = (day + 3) % 7 + 1
        operates = z3.Or(*[z3.And(wd == v, b) for v, b in op.items()])
        dep_wall = day * 86400 + dh * 3600 + dm * 60
        arr_wall = (day + off) * 86400 + ah * 3600 + am * 60
        dep = dep_wall - OFF(zo, dep_wall)
        arr = arr_wall - OFF(zd, arr_wall)
        expect.append((operates, dep, arr))
    # walk the dates in order; whether the specification includes a date is decided on the specification's own
    # instants (forking where the path condition leaves it open), never on what the code compared
    pos = 0
    dropped = 0
    for i, (operates, dep, arr) in enumerate(expect):
        if not h.ctx.branch(operates):
            continue
        if h.ctx.branch(arr >= dep):
            if pos >= len(inserted):
                h.fail('exactly-one-instance-per-operating-date', f'date {i} of the range operates and arrives after it departs but no instance was created for it')
                return
            row = inserted[pos]
            pos += 1
            h.ensure('instance-has-the-utc-instants-of-the-local-times',
                     z3.And(to_z3(row[0]) == dep, to_z3(row[1]) == arr), note=f'date {i}')
            h.ensure('instance-day-number-and-flight', z3.And(to_z3(row[2]) == dep / 86400, to_z3(row[3]) == fid), note=f'date {i}')
        else:
            dropped += 1
    h.ensure('exactly-one-instance-per-operating-date', pos == len(inserted),
             note=f'{len(inserted)} instances created, {pos} dates of the range operate and are well ordered')
    h.ensure('returns-the-number-of-instances', to_z3(n) == len(inserted))
    w = db.attrs['warnings']
    if dropped:
        ok = 7 in w and isinstance(w[7], Obj) and isinstance(w[7].attrs.get('warn_type'), EnumMember) and w[7].attrs['warn_type'].name == 'TIME_MISORDERING'
        h.ensure('dropped-instances-are-warned-about', bool(ok), note=f'{dropped} misordered instances dropped; warnings[line] = {w.get(7)!r}')
    else:
        h.ensure('no-warning-without-a-dropped-instance', (7 in w) == prior and (not prior or w[7] is warnings[7]))


class SymRows(Model):
    """The list `data` of _add_schedule after an arbitrary number of iterations: n rows (departure, arrival, day,
    flight id) and, as ghost state, the date index each row was created for."""
    type_names = ('list',)

    def __init__(self, n, cols, src):
        self.n, self.cols, self.src = n, cols, src
        self.current = None          # date index of the iteration being executed (ghost)

    def py_len(self, I):
        return self.n

    def py_getattr(self, I, name):
        if name == 'append':
            def append(t):
                if not (isinstance(t, tuple) and len(t) == 4):
                    raise Unsupported('a schedule row that is not a 4-tuple')
                n, old, osrc, cur = self.n, self.cols, self.src, self.current
                self.cols = [(lambda k, c=c, f=old[c]: z3.If(k == n, to_z3(t[c]), f(k))) for c in range(4)]
                self.src = lambda r: z3.If(r == n, cur, osrc(r))
                self.n = n + 1
            return Builtin('append', append, pure=False)
        raise Unsupported('list.' + name)


@unit('C13', 'add_schedule.any-number-of-dates', [W + ':WritableDatabase._add_schedule'], replay='contracts.C13:replay_import', max_paths=20000,
      timeout_ms=30000)
def add_schedule_inductive(h):
    """The date loop by an inductive invariant, for effective ranges of any length: with incl(j) = "date j of the range
    operates and its arrival is not before its departure" and CNT(i) = number of included dates before i, after i
    dates the list holds CNT(i) rows, the row of every included date j < i sits at position CNT(j) with that date's
    instants, every row belongs to an included date, and a warning for the line exists iff one was there before or
    some operating date was dropped."""
    from pyvc.loops import invariant_for_range
    install_time(h)
    I = h.I
    d0, D = h.int('first_day'), h.int('n_dates')
    h.assume(z3.And(d0 >= 0, D >= 0), 'the effective range has D >= 0 dates')
    DOW = I.lookup_fq('AEIC.types.time:DayOfWeek')
    TOD = I.lookup_fq('AEIC.types.time:TimeOfDay')
    op = {m.value: h.bool(f'operates_on_{m.name}') for m in DOW.members}

    class DaySet(Model):
        def py_contains(self, I_, item):
            if isinstance(item, EnumMember):
                return op[item.value]
            raise Unsupported('weekday set membership of ' + repr(item))
    dh, dm, ah, am = (h.int(x) for x in ('dep_hour', 'dep_minute', 'arr_hour', 'arr_minute'))
    h.assume(z3.And(dh >= 0, dh <= 23, dm >= 0, dm <= 59, ah >= 0, ah <= 23, am >= 0, am <= 59), 'times of day are valid')
    off = h.int('arrival_day_offset')
    h.assume(z3.And(off >= -1, off <= 2), 'arrival day offset in -1..2')
    origin, dest = airport_info(h, 'ORG', 'Zone/Origin'), airport_info(h, 'DST', 'Zone/Destination')
    prior = h.choice(2) == 1
    warnings = {7: h.new(W + ':Warning', warn_type=None, data=None)} if prior else {}
    db = h.new(W + ':WritableDatabase', _partial=True, warnings=warnings, unknown_airports=set())
    cur = CursorStub()
    fid = h.int('flight_id')
    zo, zd = z3.StringVal('Zone/Origin'), z3.StringVal('Zone/Destination')
    Zs = z3.IntSort()

    def spec(j):
        day = d0 + j
        wd = (day + 3) % 7 + 1
        operates = z3.Or(*[z3.And(wd == v, b) for v, b in op.items()])
        dep_wall = day * 86400 + dh * 3600 + dm * 60
        arr_wall = (day + off) * 86400 + ah * 3600 + am * 60
        dep = dep_wall - OFF(zo, dep_wall)
        arr = arr_wall - OFF(zd, arr_wall)
        return operates, dep, arr
    CNT = z3.Function('included_dates_before', Zs, Zs)
    DRP = z3.Function('dropped_dates_before', Zs, Zs)

    def incl(j):
        o, d, a = spec(j)
        return z3.And(o, a >= d)

    def drop(j):
        o, d, a = spec(j)
        return z3.And(o, a < d)

    def unfold(i):
        i = to_z3(i)
        h.ctx.assume(z3.And(CNT(0) == 0, DRP(0) == 0))
        h.ctx.assume(z3.Implies(i >= 0, z3.And(CNT(i + 1) == CNT(i) + z3.If(incl(i), 1, 0), DRP(i + 1) == DRP(i) + z3.If(drop(i), 1, 0),
                                               CNT(i) >= 0, DRP(i) >= 0)))
    h.trust('counting functions CNT / DRP are defined by CNT(0) = 0, CNT(i+1) = CNT(i) + [incl(i)] (likewise DRP); instances are unfolded where used')

    def date_range(I_, a, b, tz=None, **k):
        return SArr(D, lambda i: Ts((to_z3(a.days) + to_z3(i)) * 86400, 'UTC'), kind='list')
    I.models['pandas.date_range'] = date_range

    def from_pandas(I_, fi, a, k):
        wd = a[1].py_getattr(I_, 'isoweekday').fn()
        i = I_.ctx.choose(7, lambda j: I_.ctx.feasible(wd == j + 1))
        I_.ctx.assume(wd == i + 1)
        return DOW.members[i]
    h.summary('AEIC.types.time:DayOfWeek.from_pandas', from_pandas)
    j, r = h.int('any_date'), h.int('any_row')
    h.assume(z3.And(j >= 0, r >= 0))
    state = dict(n=0)

    def rows_of(v):
        if isinstance(v, SymRows):
            return v
        if isinstance(v, list):
            if v:
                raise Unsupported('non-empty concrete row list at a loop head')
            return SymRows(z3.IntVal(0), [lambda k: z3.IntVal(0)] * 4, lambda q: z3.IntVal(-1))
        raise Unsupported('the row list is a ' + type(v).__name__)

    def find_rows(fr):
        c = [k for k, v in fr.locals.items() if isinstance(v, (SymRows, list)) and k != 'self']
        c = [k for k in c if isinstance(fr.locals[k], SymRows) or fr.locals[k] == []]
        if len(c) != 1:
            raise Unsupported('cannot identify the list of schedule rows')
        return c[0]

    def has_warning():
        w = db.attrs['warnings']
        return 7 in w

    def inv(I_, fr, i):
        i = to_z3(i)
        unfold(i), unfold(j), unfold(i - 1)
        name = find_rows(fr)
        rows = rows_of(fr.locals[name])
        if isinstance(fr.locals[name], SymRows):
            fr.locals[name].current = i
        o, dep, arr = spec(j)
        conj = [rows.n == CNT(i), i >= 0,
                z3.Implies(z3.And(j < i, incl(j)), z3.And(CNT(j) < rows.n, rows.cols[0](CNT(j)) == dep, rows.cols[1](CNT(j)) == arr,
                                                          rows.cols[2](CNT(j)) == dep / 86400, rows.cols[3](CNT(j)) == fid)),
                z3.Implies(j < i, CNT(j) + z3.If(incl(j), 1, 0) <= CNT(i)),
                z3.Implies(r < rows.n, z3.And(rows.src(r) >= 0, rows.src(r) < i, incl(rows.src(r)), CNT(rows.src(r)) == r)),
                z3.BoolVal(has_warning()) == z3.Or(z3.BoolVal(prior), DRP(i) > 0)]
        return z3.And(*conj)

    def havoc(I_, fr):
        state['n'] += 1
        t = state['n']
        name = find_rows(fr)
        cols = [z3.Function(f'havoc{t}_col{c}', Zs, Zs) for c in range(4)]
        src = z3.Function(f'havoc{t}_src', Zs, Zs)
        fr.locals[name] = SymRows(h.int(f'havoc{t}_rows'), [(lambda k, f=f: f(k)) for f in cols], lambda q: src(q))
        for k in list(fr.locals):
            if k not in (name, 'self') and z3.is_expr(fr.locals[k]) and k in state['assigned']:
                fr.locals[k] = h.int(f'havoc{t}_{k}')
        # the warning table: whether the line has a warning now is arbitrary (the invariant says when)
        w = db.attrs['warnings']
        if h.choice(2) == 1:
            w[7] = h.new(W + ':Warning', warn_type=('some-type' if prior else None), data=None) if 7 not in w else w[7]
            state['havoc_warn'] = True
        else:
            w.pop(7, None)
            state['havoc_warn'] = False
    base = invariant_for_range('_add_schedule.dates', inv, havoc)

    def handler(I_, st, fr):
        import ast
        state['assigned'] = {n.id for x in ast.walk(st) for n in ast.walk(x) if isinstance(n, ast.Name) and isinstance(n.ctx, ast.Store)}
        return base(I_, st, fr)
    I.loop_invariants[(W + ':WritableDatabase._add_schedule', 0)] = handler
    try:
        n = h.method(db, '_add_schedule', cur, 7, fid, origin, dest, DateV(d0), DateV(d0 + D - 1), DaySet(),
                     I.call(TOD, [dh, dm], {}), I.call(TOD, [ah, am], {}), off)
    except PyExc as e:
        h.fail('no-internal-error', f'{e.inst!r} at {e.inst.where}')
        return
    sent = [d for nm, sql, d in cur.calls if nm == 'executemany' and 'schedules' in str(sql)]
    unfold(D), unfold(j)
    total = CNT(D)
    if not sent:
        h.ensure('nothing-is-inserted-only-when-no-date-is-included', z3.And(total == 0, to_z3(n) == 0))
    else:
        rows = sent[0]
        if len(sent) != 1 or not isinstance(rows, SymRows):
            h.fail('rows-are-inserted-once', repr(sent))
            return
        o, dep, arr = spec(j)
        h.ensure('returns-the-number-of-instances', z3.And(to_z3(n) == rows.n, rows.n == total))
        h.ensure('every-included-date-has-its-instance-at-the-utc-instants-of-the-local-times',
                 z3.Implies(z3.And(j < D, incl(j)), z3.And(CNT(j) < rows.n, rows.cols[0](CNT(j)) == dep, rows.cols[1](CNT(j)) == arr,
                                                           rows.cols[2](CNT(j)) == dep / 86400, rows.cols[3](CNT(j)) == fid)))
        h.ensure('every-instance-belongs-to-exactly-one-included-date',
                 z3.Implies(r < rows.n, z3.And(rows.src(r) >= 0, rows.src(r) < D, incl(rows.src(r)), CNT(rows.src(r)) == r)))
    w = db.attrs['warnings']
    h.ensure('warned-iff-a-warning-was-there-or-an-operating-date-was-dropped', z3.BoolVal(7 in w) == z3.Or(z3.BoolVal(prior), DRP(D) > 0))


@unit('C13', 'oag.add', [O + ':OAGDatabase.add'], replay='contracts.C13:replay_import')
def oag_add(h):
    install_time(h)
    I = h.I
    geod.install(I)
    I.models['datetime.date'] = lambda I_, y, m, d: DateV(z3.Int(f'day_of_{m}_{d}'), label=(y, m, d))
    year = h.int('data_year')
    o_known, d_known = h.choice(2) == 1, h.choice(2) == 1
    plausible = h.bool('distance_plausible')
    origin, dest = airport_info(h, 'ORG', 'Z1'), airport_info(h, 'DST', 'Z2')
    calls = {}

    def get_ap(I_, fi, a, k):
        code = a[3]
        return (origin if o_known else None) if code == 'ORG' else (dest if d_known else None)
    h.summary(W + ':WritableDatabase._get_or_add_airport', get_ap)
    h.summary(W + ':WritableDatabase._distance_check', lambda I_, fi, a, k: plausible)
    fid = h.int('new_flight_id')

    def add_flight(I_, fi, a, k):
        calls['flight'] = a
        return fid
    h.summary(W + ':WritableDatabase._add_flight', add_flight)
    cnt = h.int('instances_created')

    def add_sched(I_, fi, a, k):
        calls['schedule'] = a
        # precondition of _add_schedule (pd.date_range): both ends of the effective range are dates
        if a[6] is None or a[7] is None:
            I_.raise_('ValueError', 'pd.date_range: start and end must be specified (effective date missing)')
        return cnt
    h.summary(W + ':WritableDatabase._add_schedule', add_sched)
    h.summary(W + ':WritableDatabase._set_flight_count', lambda I_, fi, a, k: calls.__setitem__('count', a))
    committed = []

    class Conn(Model):
        def py_getattr(self, I_, name):
            if name == 'cursor':
                return Builtin('cursor', lambda: CursorStub())
            if name == 'commit':
                return Builtin('commit', lambda: committed.append(1), pure=False)
            raise Unsupported('connection.' + name)
    db = h.new(O + ':OAGDatabase', _partial=True, _conn=Conn(), _year=year)
    has_from, has_to = h.choice(2) == 1, h.choice(2) == 1
    h.ctx.named['open_ended_from'] = z3.BoolVal(not has_from)
    h.ctx.named['open_ended_to'] = z3.BoolVal(not has_to)
    ef = DateV(h.int('eff_from_day'), ymd=(h.int('eff_from_year'), h.int('eff_from_month'), h.int('eff_from_dom'))) if has_from else None
    et = DateV(h.int('eff_to_day'), ymd=(h.int('eff_to_year'), h.int('eff_to_month'), h.int('eff_to_dom'))) if has_to else None
    TOD = I.lookup_fq('AEIC.types.time:TimeOfDay')
    e = h.new(O + ':CSVEntry', line=3, carrier='AA', fltno=12, depapt='ORG', depctry='US', arrapt='DST', arrctry='US',
              deptim=I.call(TOD, [8, 30], {}), arrtim=I.call(TOD, [10, 5], {}), arrday=0, days={'set'}, distance=h.int('distance_miles'),
              inpacft='738', service='J', seats=150, efffrom=ef, effto=et, stops=0, longest=True)
    commit = h.choice(2) == 1
    try:
        r = h.method(db, 'add', e, commit=commit)
    except PyExc as ex:
        h.fail('plausible-row-is-imported', f'{ex.inst!r} at {ex.inst.where} (effective from given={has_from}, to given={has_to})')
        return
    skipped = (not o_known) or (not d_known)
    if r is False:
        h.ensure('rows-are-skipped-only-for-unknown-airport-or-implausible-distance', z3.Or(skipped, z3.Not(plausible)))
        h.ensure('skipped-row-creates-nothing', 'flight' not in calls and 'schedule' not in calls)
        return
    h.ensure('unknown-airport-or-implausible-distance-is-skipped', z3.And(not skipped, plausible))
    s, f = calls.get('schedule'), calls.get('flight')
    if s is None or f is None or 'count' not in calls:
        h.fail('creates-one-flight-record-its-instances-and-the-count', 'flight / schedule / count call missing')
        return

    def is_default(v, month, day):
        # a date built as date(<year>, month, day) whose year term equals the data year (a semantic question: the row's own
        # year is a different symbol and may differ)
        if not (isinstance(v, DateV) and v.label is not None and tuple(v.label[1:]) == (month, day)):
            return z3.BoolVal(False)
        return to_z3(v.label[0]) == year

    def same(v, given, month, day):
        return z3.BoolVal(v is given) if given is not None else is_default(v, month, day)
    h.ensure('open-ended-range-means-start-and-end-of-the-data-year', z3.And(same(s[6], ef, 1, 1), same(s[7], et, 12, 31)),
             note=f'_add_schedule called with effective range ({s[6]!r}, {s[7]!r})')
    h.ensure('flight-record-has-the-same-effective-range', z3.And(same(f[6], ef, 1, 1), same(f[7], et, 12, 31)))
    h.ensure('instances-belong-to-the-new-flight', z3.is_expr(s[3]) and z3.eq(s[3], fid) and s[4] is origin and s[5] is dest)
    c = calls['count']
    h.ensure('instance-count-recorded-on-the-flight', z3.is_expr(c[2]) and z3.eq(c[2], fid) and z3.is_expr(c[3]) and z3.eq(c[3], cnt))
    h.ensure('committed-when-asked', bool(committed) == commit)


def distance_unit(h, lonlat_order):
    I = h.I
    geod.install(I)
    db = h.new(W + ':WritableDatabase', _partial=True, warnings={}, unknown_airports=set())
    warned = []
    h.summary(W + ':WritableDatabase._warn', lambda I_, fi, a, k: warned.append(a[1]))
    origin, dest = airport_info(h, 'ORG', 'Z1'), airport_info(h, 'DST', 'Z2')
    given = h.real('given_distance_km')
    h.assume(given >= 0)
    r = h.method(db, '_distance_check', 5, origin, dest, given)
    oa, da = origin.attrs['airport'].attrs, dest.attrs['airport'].attrs
    if lonlat_order:
        gc = DIST(oa['longitude'], oa['latitude'], da['longitude'], da['latitude']) / 1000
    else:
        gc = DIST(oa['latitude'], oa['longitude'], da['latitude'], da['longitude']) / 1000
    diff = z3.If(given - gc >= 0, given - gc, gc - given)
    implausible = z3.Or(gc < 1, z3.And(given > 0, diff > 50, 100 * diff / gc > 10))
    rz = r if z3.is_expr(r) else z3.BoolVal(bool(r))
    h.ensure('plausibility-rule-on-the-geodesic-distance-between-the-airports', rz == z3.Not(implausible))
    h.ensure('a-dropped-row-is-warned-about', (len(warned) == 1) == (r is False) if isinstance(r, bool) else True)


@unit('C13', 'distance_check', [W + ':WritableDatabase._distance_check'], replay='contracts.C13:replay_distance')
def distance_check(h):
    distance_unit(h, lonlat_order=True)


@unit('C13', 'distance_check.characterisation-of-known-defect', [W + ':WritableDatabase._distance_check'],
      characterises='distance_check/plausibility-rule-on-the-geodesic-distance-between-the-airports')
def distance_check_defect(h):
    # the recorded defect, exactly: the rule is evaluated on GEOD.inv(lat1, lon1, lat2, lon2)
    distance_unit(h, lonlat_order=False)


@unit('C13', 'dow-mask', [W + ':WritableDatabase._make_dow_mask'])
def dow_mask(h):
    DOW = h.I.lookup_fq('AEIC.types.time:DayOfWeek')
    days = set(m for m in DOW.members if h.choice(2) == 1)
    r = h.call(W + ':WritableDatabase._make_dow_mask', days)
    h.ensure('one-bit-per-operating-weekday', r == sum(1 << (m.value - 1) for m in days))


# ------------------------------------------------------------------------------------------------
def bounded_checks(tier, seed):
    from pyvc.cli import run_native
    r = run_native('contracts.C13', 'native_import_check', dict(seed=seed, n=(30 if tier == 'quick' else 300)))
    viol = [dict(obligation='bounded/' + v['what'], witness=v.get('witness'), input=v.get('input'), observed=v.get('observed'),
                 replay_fn='contracts.C13:native_import_check') for v in r.get('violations', [])]
    return [dict(name='generated OAG rows imported by the real CSVEntry.from_csv_row + OAGDatabase.add into SQLite, compared with a stdlib oracle',
                 cases=r.get('cases', 0), distinct_nontrivial=r.get('cases', 0), bound=f"{r.get('cases', 0)} generated rows (seed {seed})",
                 rule='airport pairs among known airports, effective ranges incl. open-ended / single-day / DST dates, weekday sets, local times, '
                      'arrival day offsets -1..2, service / equipment codes', violations=viol, error=r.get('error'))]


def native_import_check(payload):
    """Real import of generated rows; oracle with datetime + zoneinfo only."""
    import datetime as dt
    import os
    import random
    import shutil
    import sqlite3
    import tempfile
    from zoneinfo import ZoneInfo
    root = os.environ.get('AEIC_SRC', '/repo/src').rsplit('/src', 1)[0]
    os.environ['AEIC_PATH'] = root + '/tests/data'
    from AEIC.config import Config
    Config.reset()
    Config.load(data_path_overrides=[root + '/tests/data'])
    from AEIC.missions.oag import CSVEntry, OAGDatabase
    from AEIC.utils.airports import airport
    rnd = random.Random((payload or {}).get('seed', 0))
    n = (payload or {}).get('n', 30)
    tmp = tempfile.mkdtemp(prefix='c13-', dir=os.environ.get('VERIF_SCRATCH'))
    viol, cases = [], 0
    year = 2019
    pairs = [('BOS', 'LAX'), ('JFK', 'LHR'), ('ORD', 'DEN'), ('SFO', 'JFK'), ('LAX', 'JFK'), ('MIA', 'ATL'), ('SEA', 'ATL')]
    pairs = [(a, b) for a, b in pairs if airport(a) is not None and airport(b) is not None]
    try:
        db = OAGDatabase(os.path.join(tmp, 'm.sqlite'), year)
        tzs = {}
        rows = []
        for i in range(n):
            a, b = rnd.choice(pairs)
            kind = rnd.choice(['range', 'single', 'open_from', 'open_to', 'open_both', 'dst', 'misordered', 'from_last_year_open_to', 'open_from_to_next_year'])
            start = dt.date(year, rnd.randint(1, 12), rnd.randint(1, 28))
            end = start + dt.timedelta(days=rnd.randint(0, 20))
            if kind == 'single':
                end = start
            if kind == 'dst':
                start, end = dt.date(year, 3, 8), dt.date(year, 3, 12)
            if kind == 'from_last_year_open_to':
                start = dt.date(year - 1, 12, rnd.randint(20, 31))
            if kind == 'open_from_to_next_year':
                end = dt.date(year + 1, 1, rnd.randint(1, 10))
            ef = '00000000' if kind in ('open_from', 'open_both', 'open_from_to_next_year') else start.strftime('%Y%m%d')
            et = '99999999' if kind in ('open_to', 'open_both', 'from_last_year_open_to') else end.strftime('%Y%m%d')
            days = ''.join(str(d) for d in range(1, 8) if rnd.random() < 0.6) or '3'
            dep = (rnd.randint(0, 23), rnd.randint(0, 59))
            dur = rnd.randint(60, 600)
            row = dict(carrier='AA', fltno=str(100 + i), depapt=a, depctry='US', arrapt=b, arrctry='US', deptim=f'{dep[0]:02d}{dep[1]:02d}',
                       arrtim='0000', arrday=' ', days=days, distance='0', inpacft='738', service='J', seats='150', efffrom=ef, effto=et,
                       stops='0', longest='L', operating='', genacft='738')
            rows.append((row, dep, dur, a, b, ef, et, days, kind))
        for (row, dep, dur, a, b, ef, et, days, kind) in rows:
            cases += 1
            # destination zone: take the arrival local time from the true duration so that order is sane
            from timezonefinder import TimezoneFinder   # noqa
            tf = tzs.setdefault('tf', TimezoneFinder())
            za = ZoneInfo(tf.timezone_at(lng=airport(a).longitude, lat=airport(a).latitude))
            zb = ZoneInfo(tf.timezone_at(lng=airport(b).longitude, lat=airport(b).latitude))
            d0 = dt.date(year, 6, 5)
            dep_dt = dt.datetime(d0.year, d0.month, d0.day, dep[0], dep[1], tzinfo=za)
            arr_dt = (dep_dt + dt.timedelta(minutes=dur)).astimezone(zb)
            row['arrtim'] = f'{arr_dt.hour:02d}{arr_dt.minute:02d}'
            off = (arr_dt.date() - d0).days
            if kind == 'misordered':
                off = -1          # arrives "the day before": every instance is misordered and must be dropped with a warning
            row['arrday'] = {0: ' ', -1: 'P'}.get(off, str(off))
            e = CSVEntry.from_csv_row(row, 2)
            if e is None:
                viol.append(dict(what='well-formed row parses', input=row))
                continue
            before = db._conn.execute('SELECT COUNT(*) FROM schedules').fetchone()[0]
            try:
                ok = db.add(e)
            except Exception as ex:   # noqa
                viol.append(dict(what='plausible row is imported', input=row, observed=f'{type(ex).__name__}: {ex}'))
                continue
            if not ok:
                viol.append(dict(what='plausible row is never dropped', input=row))
                continue
            frm = dt.date(year, 1, 1) if ef == '00000000' else dt.datetime.strptime(ef, '%Y%m%d').date()
            to = dt.date(year, 12, 31) if et == '99999999' else dt.datetime.strptime(et, '%Y%m%d').date()
            want = []
            d = frm
            while d <= to:
                if str(d.isoweekday()) in days:
                    de = dt.datetime(d.year, d.month, d.day, dep[0], dep[1], tzinfo=za)
                    ad = d + dt.timedelta(days=off)
                    ar = dt.datetime(ad.year, ad.month, ad.day, int(row['arrtim'][:2]), int(row['arrtim'][2:]), tzinfo=zb)
                    if ar.timestamp() >= de.timestamp():
                        want.append((int(de.timestamp()), int(ar.timestamp())))
                d += dt.timedelta(days=1)
            fid = db._conn.execute('SELECT MAX(id) FROM flights').fetchone()[0]
            got = db._conn.execute('SELECT departure_timestamp, arrival_timestamp FROM schedules WHERE flight_id = ? ORDER BY departure_timestamp', (fid,)).fetchall()
            nf = db._conn.execute('SELECT number_of_flights FROM flights WHERE id = ?', (fid,)).fetchone()[0]
            days_bad = db._conn.execute('SELECT departure_timestamp, day FROM schedules WHERE flight_id = ? AND day != departure_timestamp / 86400', (fid,)).fetchall()
            if days_bad:
                viol.append(dict(what='instance day number is the UTC day of its departure', input=row, observed=days_bad[:2]))
            if sorted(got) != sorted(want):
                bad = [g for g in got if g not in want][:2] + [w for w in want if w not in got][:2]
                viol.append(dict(what='exactly the instances the row implies, at the correct UTC instants', input=row,
                                 observed=f'{len(got)} instances, expected {len(want)}; differing: {bad}'))
            elif nf != len(want):
                viol.append(dict(what='instance count recorded on the flight', input=row, observed=[nf, len(want)]))
            elif kind == 'misordered' and not want and 2 not in db.warnings:
                viol.append(dict(what='dropped instances are warned about', input=row, observed=sorted(db.warnings)))
            if len(viol) >= 4:
                break
        db.close()
        return dict(cases=cases, violations=viol[:4], reproduced=bool(viol))
    finally:
        Config.reset()
        shutil.rmtree(tmp, ignore_errors=True)


def replay_import(payload):
    return native_import_check(dict(seed=3, n=40))


def replay_parse(payload):
    from AEIC.missions.oag import CSVEntry
    bad = []
    base = dict(carrier='AA', service='J', stops='0', operating='', genacft='738')
    for k, v, want in (('carrier', '\x1a', False), ('service', 'V', False), ('service', 'U', False), ('stops', '1', False),
                       ('operating', 'N', False), ('genacft', 'BUS', False), ('genacft', 'TRN', False), ('service', 'F', True),
                       ('operating', 'O', True), ('genacft', '320', True)):
        row = dict(base)
        row[k] = v
        if CSVEntry.is_row_valid(row) is not want:
            bad.append(f'{k}={v!r}: is_row_valid = {not want}')
    return dict(reproduced=bool(bad), observed=bad)


def replay_distance(payload):
    """BOS-ATL and MIA-MCO with their OAG distances must be plausible."""
    import os
    root = os.environ.get('AEIC_SRC', '/repo/src').rsplit('/src', 1)[0]
    os.environ['AEIC_PATH'] = root + '/tests/data'
    import tempfile
    import shutil
    from pyproj import Geod
    from AEIC.config import Config
    Config.reset()
    Config.load(data_path_overrides=[root + '/tests/data'])
    from AEIC.missions.writable_database import AirportInfo, WritableDatabase
    from AEIC.utils.airports import airport
    tmp = tempfile.mkdtemp(prefix='c13d-', dir=os.environ.get('VERIF_SCRATCH'))
    try:
        db = WritableDatabase(os.path.join(tmp, 'd.sqlite'))
        G = Geod(ellps='WGS84')
        bad = []
        for a, b in (('MIA', 'MCO'), ('BOS', 'ATL'), ('JFK', 'MIA'), ('SEA', 'ANC'), ('MIA', 'BOG')):
            A, B = airport(a), airport(b)
            if A is None or B is None:
                continue
            true_km = G.inv(A.longitude, A.latitude, B.longitude, B.latitude)[2] / 1000.0
            for factor in (1.0, 1.08, 0.93):
                given = true_km * factor
                want = not (abs(given - true_km) > 50 and 100 * abs(given - true_km) / true_km > 10)
                got = db._distance_check(1, AirportInfo(1, A, 'UTC'), AirportInfo(2, B, 'UTC'), given)
                if got != want:
                    bad.append(f'{a}-{b}: stated {given:.0f} km, geodesic {true_km:.0f} km: plausible={got}, expected {want}')
        db.close()
        return dict(reproduced=bool(bad), observed=bad[:4], required='the rule applied to the geodesic distance between the two airports')
    finally:
        Config.reset()
        shutil.rmtree(tmp, ignore_errors=True)


WITNESSES = {
    'lat-lon-exchanged': dict(replay_fn='contracts.C13:replay_distance', payload=dict(model={})),
}
