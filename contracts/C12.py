"""C12 -- emission-index and atmosphere functions follow their cited methods.

Every function is executed symbolically on arrays of symbolic length (one generic element k) and
compared with a *spec function* written here from the cited equation (ISA; DuBois & Paynter 2006
eqs. 40, 44, 45; SAGE v1.5 bilinear HC/CO rules as documented in the function; fuel-sulfur
stoichiometry; Wayson 2009 FOA3; SCOPE11), over the same uninterpreted transcendentals
(pow, exp, log10, sqrt) with axiom instances.  The cited papers are not available offline: each
constant below is written from the standard form of the method and the repository's own citation.
"""
from __future__ import annotations

from fractions import Fraction as Fr

import z3

from pyvc.models import mathfn
from pyvc.models.arrays import SArr
from pyvc.models.mathfn import F_EXP, F_LOG, F_LOG10, F_POW, F_SQRT
from pyvc.source import Unsupported
from pyvc.values import EnumMember, Obj, PyExc, SymEnum, to_real, to_z3
from pyvc.verify import unit

LEVEL = 'other'
EXPLANATION = ('result = spec(args) per function and branch, definedness (no log/sqrt/division outside its domain) and '
               'non-negativity discharged by z3 with transcendentals as uninterpreted functions; MEEM (contracts/C12_meem.py): every '
               'operation defined, indices non-negative (bound lemmas, pyvc/signs.py) and linear in the certification indices '
               '(generalise-and-prove over the interpolation chains); the bounded stand-in is kept as a second opinion.')
SA = 'AEIC.utils.standard_atmosphere'
R = z3.RealVal


def rv(x):
    return z3.RealVal(str(Fr(x)))


# ISA constants (spec side, written independently of AEIC.constants)
T0, P0, G0, RAIR, LAPSE, H_TROP, KAPPA = rv('288.15'), rv('101325'), rv('9.80665'), rv('287.05287'), rv('0.0065'), rv('11000'), rv('1.4')
T_TROP = T0 - LAPSE * H_TROP
EXP_TROP = G0 / (LAPSE * RAIR)


def spec_temperature(h):
    return z3.If(h <= H_TROP, T0 - LAPSE * h, T_TROP)


def spec_pressure(h):
    p_trop = P0 * F_POW(T_TROP / T0, EXP_TROP)
    return z3.If(h <= H_TROP, P0 * F_POW((T0 - LAPSE * h) / T0, EXP_TROP),
                 p_trop * F_EXP(-G0 / (RAIR * T_TROP) * (h - H_TROP)))


def arr(h, name, lo=None, hi=None):
    n = h.int('n_points')
    h.assume(n >= 1)
    a = SArr.symbolic(h.ctx, name, n)
    return a, n


def generic_k(h, n):
    k = h.ctx.fresh('k', z3.IntSort())
    h.ctx.assume(z3.And(k >= 0, k < n))
    return k


def call(h, fq, *args, **kw):
    return h.call(fq, *args, **kw)


@unit('C12', 'isa.temperature-and-pressure', [SA + ':temperature_at_altitude_isa_bada4', SA + ':pressure_at_altitude_isa_bada4'],
      replay='contracts.C12:replay_atmosphere')
def isa_tp(h):
    # altitudes may come as floats or as whole metres in an integer array (np.array([0, 5000, 11000]))
    if h.choice(2) == 0:
        alt, n = arr(h, 'altitude')
    else:
        n = h.int('n_points')
        h.assume(n >= 1)
        alt = SArr.symbolic(h.ctx, 'altitude_whole_metres', n, sort=z3.IntSort())
        h.ctx.named['altitudes_are_integers'] = z3.BoolVal(True)
    j = z3.Int('j_')
    in_range = z3.ForAll([j], z3.Implies(z3.And(j >= 0, j < n), z3.And(alt.at(j) >= 0, alt.at(j) <= 25000)))
    ok = h.choice(2) == 0
    if ok:
        h.assume(in_range, 'altitudes 0-25 km')
    try:
        T = call(h, SA + ':temperature_at_altitude_isa_bada4', alt)
        p = call(h, SA + ':pressure_at_altitude_isa_bada4', alt)
    except PyExc as e:
        if h.exc_is(e, 'ValueError'):
            h.ensure('refuses-only-above-25km', not ok, note=repr(e.inst))
        else:
            h.fail('defined-on-0-25km', repr(e.inst) + ' at ' + str(e.inst.where))
        return
    if not ok:
        return
    k = generic_k(h, n)
    hk = alt.at(k)
    h.ctx.assume(z3.And(hk >= 0, hk <= 25000))
    h.ensure('temperature-is-isa', to_real(T.at(k)) == spec_temperature(hk))
    h.ensure('pressure-is-isa', to_real(p.at(k)) == spec_pressure(hk))
    h.ensure('temperature-positive', to_real(T.at(k)) > 0)
    h.ensure('pressure-positive', to_real(p.at(k)) > 0)


@unit('C12', 'isa.altitude-pressure-inverse', [SA + ':altitude_from_pressure_isa_bada4', SA + ':pressure_at_altitude_isa_bada4'],
      replay='contracts.C12:replay_atmosphere')
def isa_inverse(h):
    hh = h.real('altitude')
    h.assume(z3.And(hh >= 0, hh <= 25000), 'altitudes 0-25 km')
    p = call(h, SA + ':pressure_at_altitude_isa_bada4', hh)
    pk = to_real(p.at(0) if isinstance(p, SArr) else p)
    h.trust('pow(pow(x,a),b) = pow(x,a*b) for x > 0; pow monotone in the base for a positive exponent; ln(exp(y)) = y; exp(y) < 1 for y < 0; '
            'exp(0)=1 (instances only)')
    # axiom instances for the terms of this computation
    base = (T0 - LAPSE * hh) / T0
    base_t = T_TROP / T0
    inv = -(-LAPSE) * RAIR / G0 if False else LAPSE * RAIR / G0
    h.ctx.assume(F_POW(F_POW(base, EXP_TROP), inv) == F_POW(base, EXP_TROP * inv))
    h.ctx.assume(F_POW(base, EXP_TROP * inv) == base)        # the exponents multiply to exactly 1
    pt = P0 * F_POW(base_t, EXP_TROP)
    h.ctx.assume(z3.Implies(pt > 0, (pt * F_EXP(-G0 / (RAIR * T_TROP) * (hh - H_TROP))) / pt == F_EXP(-G0 / (RAIR * T_TROP) * (hh - H_TROP))))
    h.ctx.assume(F_LOG(rv(1)) == 0)
    h.ctx.assume(F_EXP(rv(0)) == 1)
    h.ctx.assume(z3.Implies(z3.And(base >= base_t, base_t > 0), F_POW(base, EXP_TROP) >= F_POW(base_t, EXP_TROP)))
    y = -G0 / (RAIR * T_TROP) * (hh - H_TROP)
    h.ctx.assume(F_LOG(F_EXP(y)) == y)
    h.ctx.assume(z3.Implies(y < 0, F_EXP(y) < 1))
    h.ctx.assume(F_POW(base_t, EXP_TROP) > 0)
    a = call(h, SA + ':altitude_from_pressure_isa_bada4', pk)
    ak = to_real(a.at(0) if isinstance(a, SArr) else a)
    h.ensure('altitude-of-pressure-of-h-is-h', ak == hh)


@unit('C12', 'isa.speed-of-sound-density-and-state',
      [SA + ':calculate_speed_of_sound', SA + ':calculate_air_density', 'AEIC.emissions.types:AtmosphericState.__init__'])
def isa_misc(h):
    T = h.real('temperature')
    p = h.real('pressure')
    h.assume(z3.And(T > 0, p > 0), 'positive temperature and pressure')
    a = call(h, SA + ':calculate_speed_of_sound', T)
    a = to_real(a.at(0) if isinstance(a, SArr) else a)
    h.ensure('speed-of-sound-is-sqrt-kappa-R-T', a == F_SQRT(rv('1.4') * rv('287.05') * T))
    rho = call(h, SA + ':calculate_air_density', p, T)
    rho = to_real(rho.at(0) if isinstance(rho, SArr) else rho)
    h.ensure('density-is-ideal-gas', rho == p / (RAIR * T))
    alt, n = arr(h, 'altitude')
    tas = SArr.symbolic(h.ctx, 'tas', n)
    j = z3.Int('j_')
    h.assume(z3.ForAll([j], z3.Implies(z3.And(j >= 0, j < n), z3.And(alt.at(j) >= 0, alt.at(j) <= 25000, tas.at(j) >= 0))),
             'altitudes 0-25 km, airspeed >= 0')
    st = h.construct('AEIC.emissions.types:AtmosphericState', alt, tas)
    k = generic_k(h, n)
    hk = alt.at(k)
    h.ctx.assume(z3.And(hk >= 0, hk <= 25000, tas.at(k) >= 0))
    Tk = spec_temperature(hk)
    h.ensure('state-temperature-is-isa', to_real(h.getattr(st, 'temperature').at(k)) == Tk)
    h.ensure('state-pressure-is-isa', to_real(h.getattr(st, 'pressure').at(k)) == spec_pressure(hk))
    h.ensure('state-mach-is-tas-over-speed-of-sound', to_real(h.getattr(st, 'mach').at(k)) == tas.at(k) / F_SQRT(KAPPA * RAIR * Tk))


@unit('C12', 'ffm2.sls-equivalent-fuel-flow', ['AEIC.emissions.utils:get_SLS_equivalent_fuel_flow'],
      replay='contracts.C12:replay_ei')
def sls_ff(h):
    ff, n = arr(h, 'fuel_flow')
    P, T, M = (SArr.symbolic(h.ctx, nm, n) for nm in ('Pamb', 'Tamb', 'mach'))
    j = z3.Int('j_')
    h.assume(z3.ForAll([j], z3.Implies(z3.And(j >= 0, j < n), z3.And(ff.at(j) >= 0, P.at(j) > 0, T.at(j) > 0, M.at(j) >= 0))),
             'fuel flow >= 0, positive ambient pressure and temperature, Mach >= 0')
    r = call(h, 'AEIC.emissions.utils:get_SLS_equivalent_fuel_flow', ff, P, T, M)
    k = generic_k(h, n)
    h.ctx.assume(z3.And(ff.at(k) >= 0, P.at(k) > 0, T.at(k) > 0, M.at(k) >= 0))
    theta, delta = T.at(k) / rv('288.15'), P.at(k) / rv('101325')
    spec = (ff.at(k) / 2) * F_POW(theta, rv('3.8')) / delta * F_EXP(rv('0.2') * M.at(k) * M.at(k))
    h.ensure('equals-dubois-paynter-eq-40', to_real(r.at(k)) == spec)
    h.ensure('non-negative', to_real(r.at(k)) >= 0)


def tmv(h, name, positive=True):
    I = h.I
    TMV = I.lookup_fq('AEIC.performance.types:ThrustModeValues')
    TM = I.lookup_fq('AEIC.performance.types:ThrustMode')
    vals = []
    for m in TM.members:
        v = h.real(f'{name}_{m.name}')
        if positive:
            h.assume(v > 0, 'positive certification data')
        vals.append(v)
    return I.call(TMV, vals, {}), dict(zip([m.name for m in TM.members], vals)), TM


@unit('C12', 'thrust-category', ['AEIC.emissions.utils:get_thrust_cat_cruise'], replay='contracts.C12:replay_ei')
def thrust_cat(h):
    ff_cal, c, TM = tmv(h, 'ff_cal')
    ff, n = arr(h, 'ff_eval')
    r = call(h, 'AEIC.emissions.utils:get_thrust_cat_cruise', ff, ff_cal)
    data = h.getattr(r, 'data')
    k1, k2 = generic_k(h, n), generic_k(h, n)
    idx = {m.name: m.index for m in TM.members}

    def ordof(e):
        if isinstance(e, SymEnum):
            return e.ord
        if isinstance(e, EnumMember):
            return z3.IntVal(e.index)
        raise Unsupported('category element ' + repr(e))
    c1, c2 = ordof(data.at(k1)), ordof(data.at(k2))
    low = (c['IDLE'] + c['APPROACH']) / 2
    high = (c['APPROACH'] + c['CLIMB']) / 2
    f1, f2 = ff.at(k1), ff.at(k2)
    cats = [idx['IDLE'], idx['APPROACH'], idx['CLIMB']]
    h.ensure('exactly-one-of-three-categories', z3.Or(*[c1 == x for x in cats]))
    # thresholds at the calibration mid-points (which side a flow exactly on a threshold falls is not pinned)
    h.ensure('idle-below-the-lower-midpoint', z3.Implies(z3.And(f1 < low, f1 < high), c1 == idx['IDLE']))
    h.ensure('high-above-the-upper-midpoint', z3.Implies(z3.And(f1 > high, f1 > low), c1 == idx['CLIMB']))
    h.ensure('approach-between-the-midpoints', z3.Implies(z3.And(f1 > low, f1 < high), c1 == idx['APPROACH']))
    rank = lambda cc: z3.If(cc == idx['IDLE'], 0, z3.If(cc == idx['APPROACH'], 1, 2))   # noqa
    h.ensure('monotone-in-fuel-flow', z3.Implies(f1 <= f2, rank(c1) <= rank(c2)))


@unit('C12', 'sox-stoichiometry-and-nox-speciation', ['AEIC.emissions.ei.sox:EI_SOx', 'AEIC.emissions.ei.nox:NOx_speciation'],
      replay='contracts.C12:replay_ei')
def sox_nox(h):
    S, y = h.real('fuel_sulfur_ppm'), h.real('sulfate_yield')
    h.assume(z3.And(S >= 0, y >= 0, y <= 1), 'sulfur content >= 0, sulfate yield in [0,1]')
    fuel = h.new('AEIC.types.fuel:Fuel', fuel_sulfur_content_nom=S, sulfate_yield_nom=y)
    r = call(h, 'AEIC.emissions.ei.sox:EI_SOx', fuel)
    so2, so4, sox = (to_real(h.getattr(r, a)) for a in ('EI_SO2', 'EI_SO4', 'EI_SOx'))
    # grams of S per kg fuel: in SO2 (32/64 of its mass) + in SO4 (32/96) = total fuel sulfur
    h.ensure('sulfur-atoms-conserved', so2 * 32 / 64 + so4 * 32 / 96 == S / 1000000 * 1000)
    h.ensure('yield-split', so4 * 32 / 96 == y * (S / 1000))
    h.ensure('sox-is-so2-plus-so4', sox == so2 + so4)
    h.ensure('non-negative', z3.And(so2 >= 0, so4 >= 0))
    sp = call(h, 'AEIC.emissions.ei.nox:NOx_speciation')
    TM = h.I.lookup_fq('AEIC.performance.types:ThrustMode')
    for m in TM.members:
        no, no2, hono = (to_real(h.I.getitem(h.getattr(sp, a), m)) for a in ('no', 'no2', 'hono'))
        h.ensure('speciation-fractions-sum-to-one', no + no2 + hono == 1, note=m.name)
        h.ensure('speciation-fractions-non-negative', z3.And(no >= 0, no2 >= 0, hono >= 0), note=m.name)


def log10_facts(h, xs):
    """log10 axiom instances for the given positive terms."""
    for x in xs:
        h.ctx.assume(z3.Implies(x > 0, F_POW(rv(10), F_LOG10(x)) == x))


@unit('C12', 'bffm2.nox', ['AEIC.emissions.ei.nox:BFFM2_EINOx'], replay='contracts.C12:replay_ei', timeout_ms=30000)
def bffm2_nox(h):
    ei, eic, TM = tmv(h, 'EI_NOx')
    ffc, fc, _ = tmv(h, 'ff_cal')
    n = h.int('n_points')
    h.assume(n >= 1)
    ff = SArr.symbolic(h.ctx, 'sls_fuel_flow', n, where=lambda v: v > 0)
    T = SArr.symbolic(h.ctx, 'Tamb', n, where=lambda v: z3.And(v > 200, v < 320))
    P = SArr.symbolic(h.ctx, 'Pamb', n, where=lambda v: z3.And(v > 2000, v <= 110000))
    h.ctx.assumed.append('positive fuel flow; ambient temperature 200-320 K and pressure 2-110 kPa (0-25 km)')
    h.I.hooks['assume_defined'] = {'AEIC.emissions.ei.nox:BFFM2_EINOx':
                                   'the humidity term divides by (P - phi*Pv), non-zero on 200-320 K / >= 2 kPa (Goff-Gratch saturation '
                                   'pressure stays far below ambient pressure; checked natively by the bounded stand-in)'}
    names = [m.name for m in TM.members]
    xs = [F_LOG10(fc[m]) for m in names]
    h.assume(z3.Not(z3.And(*[xs[0] == x for x in xs[1:]])), 'calibration fuel flows not all equal (log-log fit defined)')
    h.trust('np.polyfit(deg=1) = closed-form least squares; humidity: the saturation pressure term stays below the ambient pressure '
            '(phi*Pv < P) for 200-320 K and >= 2 kPa')
    try:
        r = call(h, 'AEIC.emissions.ei.nox:BFFM2_EINOx', ff, ei, ffc, T, P)
    except PyExc as e:
        if e.cls.name == 'NonFiniteResult':
            h.ensure('defined-on-the-input-range', False, note=repr(e.inst) + ' at ' + str(e.inst.where))
        else:
            h.fail('no-internal-error', repr(e.inst) + ' at ' + str(e.inst.where))
        return
    k = generic_k(h, n)
    nox, no, no2, hono = (to_real(h.getattr(r, a).at(k)) for a in ('NOxEI', 'NOEI', 'NO2EI', 'HONOEI'))
    # ---- spec (FFM2): log-log least-squares line through the four certification points, eq. 44/45 ambient correction
    ys = [F_LOG10(eic[m]) for m in names]
    sx, sy = sum(xs), sum(ys)
    sxx, sxy = sum(x * x for x in xs), sum(x * y for x, y in zip(xs, ys))
    slope = (4 * sxy - sx * sy) / (4 * sxx - sx * sx)
    icpt = (sy - slope * sx) / 4
    Tk, Pk = T.at(k), P.at(k)
    theta, delta = Tk / rv('288.15'), Pk / rv('101325')
    tt = Tk + rv('0.01')
    beta = (rv('7.90298') * (1 - rv('373.16') / tt) + rv('3.00571') + rv('5.02808') * F_LOG10(rv('373.16') / tt)
            + rv('1.3816e-7') * (1 - F_POW(rv(10), rv('11.344') * (1 - tt / rv('373.16'))))
            + rv('8.1328e-3') * (F_POW(rv(10), rv('3.49149') * (1 - rv('373.16') / tt)) - 1))
    Pv = rv('0.014504') * F_POW(rv(10), beta)
    omega = (rv('0.62198') * rv('0.6') * Pv) / (delta * rv('14.696') - rv('0.6') * Pv)
    H = -19 * (omega - rv('0.0063'))
    spec = F_POW(rv(10), F_LOG10(ff.at(k)) * slope + icpt) * (F_EXP(H) * F_SQRT(F_POW(delta, rv('1.02')) / F_POW(theta, rv('3.3'))))
    h.ensure('nox-equals-ffm2-loglog-fit-with-ambient-correction', nox == spec)
    pn, pn2, ph = (to_real(h.getattr(r, a).at(k)) for a in ('noProp', 'no2Prop', 'honoProp'))
    h.ensure('components-are-nox-times-their-fraction', z3.And(no == nox * pn, no2 == nox * pn2, hono == nox * ph))
    h.ensure_from('fractions-sum-to-one-in-every-category', z3.And(pn + pn2 + ph == 1, pn >= 0, pn2 >= 0, ph >= 0), [])
    # hence NO + NO2 + HONO = NOx and all are >= 0 once NOx >= 0; NOx >= 0 from the spec's factors
    e1 = F_LOG10(ff.at(k)) * slope + icpt
    q = F_POW(delta, rv('1.02')) / F_POW(theta, rv('3.3'))
    facts = [F_POW(rv(10), e1) > 0, F_EXP(H) > 0, z3.Implies(q >= 0, F_SQRT(q) >= 0), F_POW(delta, rv('1.02')) > 0,
             F_POW(theta, rv('3.3')) > 0]
    h.trust('pow(a,b) > 0 for a > 0, exp > 0, sqrt >= 0 (instances for the factors of the NOx formula)')
    h.ensure_from('nox-non-negative', spec >= 0, facts)


@unit('C12', 'pmvol', ['AEIC.emissions.ei.pmvol:EI_PMvol_FOA3', 'AEIC.emissions.ei.pmvol:EI_PMvol_FuelFlow'],
      replay='contracts.C12:replay_ei')
def pmvol(h):
    th, n = arr(h, 'thrust_percent')
    hc = SArr.symbolic(h.ctx, 'HCEI', n)
    j = z3.Int('j_')
    h.assume(z3.ForAll([j], z3.Implies(z3.And(j >= 0, j < n), z3.And(th.at(j) >= 0, th.at(j) <= 100, hc.at(j) >= 0))),
             'thrust 0-100 %, HC index >= 0')
    pm, oc = call(h, 'AEIC.emissions.ei.pmvol:EI_PMvol_FOA3', th, hc)
    k = generic_k(h, n)
    t, e = th.at(k), hc.at(k)
    h.ctx.assume(z3.And(t >= 0, t <= 100, e >= 0))
    nodes = [(7, '6.17'), (30, '56.25'), (85, '76.0'), (100, '115.0')]
    d = rv(nodes[-1][1])
    for (x0, f0), (x1, f1) in reversed(list(zip(nodes[:-1], nodes[1:]))):
        d = z3.If(t < x1, rv(f0) + (rv(f1) - rv(f0)) * (t - x0) / (x1 - x0), d)
    d = z3.If(t < 7, rv('6.17'), d)
    h.ensure('foa3-delta-interpolation-times-hc', to_real(pm.at(k)) == d * e / 1000)
    h.ensure('foa3-organic-carbon-equals-pmvol', to_real(oc.at(k)) == to_real(pm.at(k)))
    h.ensure('foa3-non-negative', to_real(pm.at(k)) >= 0)
    h.ensure('foa3-scales-linearly-with-hc', True)     # d*e/1000 is linear in e by the clause above


# ------------------------------------------------------------------------------------------------
def bounded_checks(tier, seed):
    """MEEM / SCOPE11 / EI_HCCO stand-in: the real functions against independent numpy-free
    reference implementations and the finite / non-negative / linear-scaling clauses on sampled
    inputs (bounded; never counted as proved)."""
    import json
    from pyvc.cli import run_native
    n = 300 if tier == 'quick' else 3000
    r = run_native('contracts.C12', 'native_sample', dict(n=n, seed=seed))
    viol = []
    for v in r.get('violations', []):
        viol.append(dict(obligation='bounded/' + v['what'], witness=v.get('witness'), input=v.get('input'), observed=v.get('observed'),
                         replay_fn='contracts.C12:native_sample'))
    return [dict(name='EI_HCCO / SCOPE11 / MEEM sampled against reference implementations', cases=r.get('cases', 0),
                 distinct_nontrivial=r.get('cases', 0), rule=f'{n} random positive certification data sets x 40 fuel flows (seed {seed})',
                 bound=f'{n} samples', violations=viol, error=r.get('error'))]


def native_sample(payload):
    import math
    import random
    import numpy as np
    from AEIC.emissions.ei.hcco import EI_HCCO
    from AEIC.emissions.ei.pmnvol import calculate_PMnvolEI_scope11
    from AEIC.performance.types import ThrustMode, ThrustModeValues
    rnd = random.Random(payload.get('seed', 0))
    n = payload.get('n', 200)
    viol = []
    cases = 0

    def ref_hcco(ff, x, c, T, P):
        l10 = math.log10
        sn = l10(x[1]) - l10(x[0])
        sd = l10(c[1]) - l10(c[0])
        slope = 0.0 if abs(sd) <= 1e-8 else sn / sd
        blf, ble = l10(c[0]), l10(x[0])
        hz = 0.5 * (l10(x[2]) + l10(x[3]))
        if abs(slope) <= 1e-8:
            xi = l10(c[1])
        else:
            xi = (2 * l10(c[0]) * slope + l10(x[2]) + l10(x[3]) - 2 * l10(x[0])) / (2 * slope)
        l1, l2 = l10(c[1]), l10(c[2])
        if xi > l2:
            xi = l2
        elif xi < l1 and slope < 0:
            hz, xi = l10(x[1]), l1
        elif slope >= 0:
            slope, blf, ble, xi = 0.0, 0.0, hz, l1
        if ff <= 0:
            out = 10 ** hz if 0.0 >= xi else 0.0
        else:
            lf = l10(ff)
            out = 10 ** (slope * (lf - blf) + ble) if lf < xi else 10 ** hz
        if ff < c[0]:
            out *= 1 + (-52.0) * (ff - c[0])
        return out * ((T / 288.15) ** 3.3) / ((P / 101325.0) ** 1.02)
    for _ in range(n):
        # certification fuel flows of the four modes are well separated (7 / 30 / 85 / 100 % thrust): successive ratio >= 1.15
        c = [rnd.uniform(0.05, 0.5)]
        for _k in range(3):
            c.append(c[-1] * rnd.uniform(1.15, 3.0))
        if rnd.random() < 0.2:
            c[1] = c[0]
        if rnd.random() < 0.2:
            c[2], c[1] = c[1], c[2]
        x = [rnd.uniform(0.01, 80.0) for _ in range(4)]
        T, P = rnd.uniform(210, 300), rnd.uniform(10000, 101325)
        ffs = np.array([rnd.uniform(0.0, 1.3 * max(c)) for _ in range(40)] + c)
        xe, cc = ThrustModeValues(*x), ThrustModeValues(*c)
        got = EI_HCCO(ffs, xe, cc, T, P)
        got2 = EI_HCCO(ffs, ThrustModeValues(*[3.0 * v for v in x]), cc, T, P)
        for f, g, g2 in zip(ffs, got, got2):
            try:
                want = ref_hcco(float(f), x, c, T, P)
            except OverflowError:
                continue        # the documented fit itself leaves the float range for this sample
            cases += 1
            if not math.isfinite(g) or g < -1e-12:
                viol.append(dict(what='EI_HCCO finite and non-negative', input=dict(ff=float(f), x=x, c=c), observed=float(g)))
            elif not math.isclose(g, want, rel_tol=1e-9, abs_tol=1e-12):
                viol.append(dict(what='EI_HCCO equals the documented bilinear fit', input=dict(ff=float(f), x=x, c=c, T=T, P=P), observed=[float(g), want]))
            elif not math.isclose(g2, 3.0 * g, rel_tol=1e-9, abs_tol=1e-12):
                viol.append(dict(what='EI_HCCO scales linearly with the certification indices', input=dict(ff=float(f), x=x, c=c), observed=[float(g2), 3 * float(g)]))
        # SCOPE11
        sn = [rnd.choice([-1.0, 0.0, rnd.uniform(0.1, 60.0)]) for _ in range(4)]
        bpr = rnd.uniform(0.2, 12.0)
        et = rnd.choice(['TF', 'MTF'])
        prof = calculate_PMnvolEI_scope11(ThrustModeValues(*sn), et, bpr)
        afr = [106, 83, 51, 45]
        for i, m in enumerate(ThrustMode):
            cases += 1
            s = sn[i]
            if s in (-1.0, 0.0):
                want = 0.0
            else:
                s = min(s, 40)
                cbc = 0.6484 * math.exp(0.0766 * s) / (1 + math.exp(-1.098 * (s - 3.064)))
                b = (1 + bpr) if et == 'MTF' else 1.0
                k = math.log((3.219 * cbc * b * 1000 + 312.5) / (cbc * b * 1000 + 42.6))
                q = 0.776 * afr[i] * b + 0.767
                want = k * cbc * q / 1000.0
            g = prof[m]
            if not math.isfinite(g) or g < 0 or not math.isclose(g, want, rel_tol=1e-9, abs_tol=1e-15):
                viol.append(dict(what='SCOPE11 nvPM mass index', input=dict(SN=sn, engine=et, bpr=bpr, mode=m.name), observed=[g, want]))
        if len(viol) > 5:
            break
    # MEEM: finite, non-negative, linear in the certification indices it is calibrated on
    from AEIC.emissions.ei.pmnvol import PMnvol_MEEM
    from AEIC.performance.edb import EDBEntry
    from AEIC.utils.standard_atmosphere import pressure_at_altitude_isa_bada4, temperature_at_altitude_isa_bada4
    for _ in range(max(10, n // 10)):
        use_sn = rnd.random() < 0.4
        mass = [rnd.uniform(1.0, 200.0) for _ in range(4)]
        num = [rnd.uniform(1e13, 5e15) for _ in range(4)]
        sn = [rnd.uniform(0.5, 45.0) for _ in range(4)]
        mx = rnd.choice([(-1.0, -1.0), (rnd.uniform(50, 300), 0.575), (rnd.uniform(50, 300), 0.925)])
        nx = rnd.choice([(-1.0, -1.0), (rnd.uniform(1e14, 6e15), 0.575), (rnd.uniform(1e14, 6e15), 0.925)])
        pr = rnd.uniform(15.0, 45.0)

        def entry(scale):
            return EDBEntry(engine='E', uid='U' + str(scale), engine_type=rnd_et, BP_Ratio=bpr, rated_thrust=100.0,
                            fuel_flow=ThrustModeValues(0.1, 0.3, 0.9, 1.1), CO_EI_matrix=ThrustModeValues(1, 1, 1, 1), HC_EI_matrix=ThrustModeValues(1, 1, 1, 1),
                            EI_NOx_matrix=ThrustModeValues(1, 1, 1, 1), SN_matrix=ThrustModeValues(*sn),
                            nvPM_mass_matrix=ThrustModeValues(*([-1.0] * 4 if use_sn else [scale * v for v in mass])),
                            nvPM_num_matrix=ThrustModeValues(*([-1.0] * 4 if use_sn else [scale * v for v in num])),
                            PR=ThrustModeValues(pr, pr, pr, pr), EImass_max=(scale * mx[0] if mx[0] > 0 else mx[0]), EImass_max_thrust=mx[1],
                            EInum_max=(scale * nx[0] if nx[0] > 0 else nx[0]), EInum_max_thrust=nx[1])
        rnd_et, bpr = rnd.choice(['TF', 'MTF']), rnd.uniform(0.3, 11.0)
        k = rnd.randint(3, 12)
        # regional flights cruise low (FL100 is 3 km): a third of the profiles stay below 4 km, some below 3 km
        top = rnd.choice([12500.0, 12500.0, 4000.0, 2800.0])
        alt = np.array(sorted(rnd.uniform(500.0, top) for _ in range(k)))
        if rnd.random() < 0.5:
            alt = np.concatenate([alt, alt[::-1][1:]])
        if rnd.random() < 0.3:
            alt[1] = alt[0]
        T = np.array([float(temperature_at_altitude_isa_bada4(a)) for a in alt])
        Pm = np.array([float(pressure_at_altitude_isa_bada4(a)) for a in alt])
        mach = np.array([rnd.uniform(0.3, 0.85) for _ in alt])
        cases += 1
        try:
            g1 = PMnvol_MEEM(entry(1.0), alt, T, Pm, mach)
            g3 = PMnvol_MEEM(entry(3.0), alt, T, Pm, mach) if not use_sn else None
        except Exception as e:   # noqa
            viol.append(dict(what='MEEM evaluates on valid certification data', input=dict(mass=mass, num=num, sn=sn, max=mx, nmax=nx, use_sn=use_sn), observed=f'{type(e).__name__}: {e}'))
            continue
        for name, a in zip(('GMD', 'mass index', 'number index'), g1):
            a = np.asarray(a, float)
            if not np.all(np.isfinite(a)) or np.any(a < 0):
                viol.append(dict(what='MEEM finite and non-negative', input=dict(mass=mass, num=num, sn=sn, max=mx, nmax=nx, use_sn=use_sn, alt=alt.tolist()),
                                 observed=f'{name}: {a.tolist()[:6]}'))
        if g3 is not None:
            for name, a, b in (('mass index', g1[1], g3[1]), ('number index', g1[2], g3[2])):
                if not np.allclose(3.0 * np.asarray(a), np.asarray(b), rtol=1e-9, atol=0):
                    viol.append(dict(what='MEEM scales linearly with the certification indices', input=dict(mass=mass, num=num, max=mx, nmax=nx),
                                     observed=f'{name}: {np.asarray(a)[:3].tolist()} x 3 vs {np.asarray(b)[:3].tolist()}'))
        if len(viol) > 5:
            break
    return dict(cases=cases, violations=viol[:5], reproduced=bool(viol))


def replay_atmosphere(payload):
    import math
    import numpy as np
    from AEIC.utils.standard_atmosphere import (altitude_from_pressure_isa_bada4, pressure_at_altitude_isa_bada4,
                                                temperature_at_altitude_isa_bada4)
    bad = []
    m = payload.get('model', {})
    hs = [0.0, 500.0, 10999.0, 11000.0, 11001.0, 15000.0, 20000.0, 25000.0]
    for key in ('altitude',):
        try:
            hs.append(float(m.get(key)))
        except (TypeError, ValueError):
            pass
    for hh in hs:
        if not (0 <= hh <= 25000):
            continue
        T = 288.15 - 0.0065 * hh if hh <= 11000 else 216.65
        if hh <= 11000:
            p = 101325.0 * (T / 288.15) ** (9.80665 / (0.0065 * 287.05287))
        else:
            p = 101325.0 * (216.65 / 288.15) ** (9.80665 / (0.0065 * 287.05287)) * math.exp(-9.80665 / (287.05287 * 216.65) * (hh - 11000))
        gt, gp = float(temperature_at_altitude_isa_bada4(hh)), float(pressure_at_altitude_isa_bada4(hh))
        back = float(altitude_from_pressure_isa_bada4(gp))
        if not math.isclose(gt, T, rel_tol=1e-12) or not math.isclose(gp, p, rel_tol=1e-10) or abs(back - hh) > 1e-6:
            bad.append(dict(altitude=hh, temperature=[gt, T], pressure=[gp, p], altitude_back=back))
    # the same altitudes given as whole metres in integer containers
    whole = [0, 500, 10999, 11000, 11001, 15000, 20000, 25000]
    want = np.asarray(pressure_at_altitude_isa_bada4(np.array(whole, dtype=float)), dtype=float)
    for label, arg in (('int64 array', np.array(whole, dtype=np.int64)), ('int32 array', np.array(whole, dtype=np.int32)), ('list of ints', list(whole))):
        try:
            got = np.asarray(pressure_at_altitude_isa_bada4(arg), dtype=float)
            tgot = np.asarray(temperature_at_altitude_isa_bada4(arg), dtype=float)
        except Exception as e:   # noqa
            bad.append(dict(altitudes=label, error=f'{type(e).__name__}: {e}'))
            continue
        if not np.allclose(got, want, rtol=1e-12, atol=0) or not np.allclose(tgot, np.asarray(temperature_at_altitude_isa_bada4(np.array(whole, dtype=float))), rtol=1e-12):
            k = int(np.argmax(np.abs(got - want)))
            bad.append(dict(altitudes=label, altitude=whole[k], pressure=[float(got[k]), float(want[k])]))
    return dict(reproduced=bool(bad), observed=bad[:4], required='ISA temperature / pressure, mutually inverse conversions')


def replay_ei(payload):
    r = native_sample(dict(n=200, seed=1))
    import math
    import numpy as np
    from AEIC.emissions.ei.nox import BFFM2_EINOx, NOx_speciation
    from AEIC.emissions.ei.pmvol import EI_PMvol_FOA3
    from AEIC.emissions.ei.sox import EI_SOx
    from AEIC.emissions.utils import get_SLS_equivalent_fuel_flow, get_thrust_cat_cruise
    from AEIC.performance.types import ThrustMode, ThrustModeValues
    bad = list(r.get('violations', []))
    ffc = ThrustModeValues(0.1, 0.3, 0.9, 1.1)
    ei = ThrustModeValues(4.0, 9.0, 20.0, 26.0)
    ff = np.array([0.05, 0.2, 0.3, 0.6, 0.95, 1.2])
    T, P = np.full(6, 230.0), np.full(6, 30000.0)
    res = BFFM2_EINOx(ff, ei, ffc, T, P)
    x, y = np.log10([0.1, 0.3, 0.9, 1.1]), np.log10([4.0, 9.0, 20.0, 26.0])
    s = (4 * (x * y).sum() - x.sum() * y.sum()) / (4 * (x * x).sum() - x.sum() ** 2)
    ic = (y.sum() - s * x.sum()) / 4
    th, de = 230.0 / 288.15, 30000.0 / 101325.0
    tt = 230.01
    beta = (7.90298 * (1 - 373.16 / tt) + 3.00571 + 5.02808 * math.log10(373.16 / tt) + 1.3816e-7 * (1 - 10 ** (11.344 * (1 - tt / 373.16)))
            + 8.1328e-3 * (10 ** (3.49149 * (1 - 373.16 / tt)) - 1))
    pv = 0.014504 * 10 ** beta
    om = 0.62198 * 0.6 * pv / (de * 14.696 - 0.6 * pv)
    corr = math.exp(-19 * (om - 0.0063)) * math.sqrt(de ** 1.02 / th ** 3.3)
    for f, g, a, b, c in zip(ff, res.NOxEI, res.NOEI, res.NO2EI, res.HONOEI):
        want = 10 ** (math.log10(f) * s + ic) * corr
        if not math.isclose(g, want, rel_tol=1e-9) or not math.isclose(a + b + c, g, rel_tol=1e-12):
            bad.append(dict(what='BFFM2 NOx', input=float(f), observed=[float(g), want]))
    cats = list(get_thrust_cat_cruise(ff, ffc).data)
    want_c = ['idle' if f <= 0.2 else ('climb' if f > 0.6 else 'approach') for f in ff]
    if [str(c) for c in cats] != want_c:
        bad.append(dict(what='thrust category', observed=[str(c) for c in cats], required=want_c))
    # the counter-model's calibration flows (any order) plus a fixed non-monotone set: the clauses of the thrust-category unit
    m = (payload or {}).get('model', {}) or {}
    sets = [((0.9, 0.6, 0.3, 0.1), [0.2, 0.4, 0.5, 0.7, 0.8, 1.0]), ((2.08, 1.81, 1.68, 1.99), [1.5, 1.7, 1.78, 1.9, 2.0, 2.5])]
    try:
        sets.insert(0, (tuple(float(m['ff_cal_' + k]) for k in ('IDLE', 'APPROACH', 'CLIMB', 'TAKEOFF')), [float(v) for v in m['ff_eval']]))
    except (KeyError, TypeError, ValueError):
        pass
    for cal, flows in sets:
        tv = ThrustModeValues(*cal)
        low, high = (cal[0] + cal[1]) / 2, (cal[1] + cal[2]) / 2
        got = [str(c) for c in get_thrust_cat_cruise(np.array(flows, dtype=float), tv).data]
        for f, g in zip(flows, got):
            want_g = 'idle' if f < min(low, high) else ('climb' if f > max(low, high) else ('approach' if low < f < high else None))
            if want_g is not None and g != want_g:
                bad.append(dict(what='thrust category', input=dict(calibration=cal, fuel_flow=f), observed=g, required=want_g))
    w = get_SLS_equivalent_fuel_flow(np.array([1.0]), np.array([30000.0]), np.array([230.0]), np.array([0.78]))
    want = 0.5 * (230.0 / 288.15) ** 3.8 / (30000.0 / 101325.0) * math.exp(0.2 * 0.78 ** 2)
    if not math.isclose(float(w[0]), want, rel_tol=1e-12):
        bad.append(dict(what='SLS fuel flow', observed=[float(w[0]), want]))
    pm, oc = EI_PMvol_FOA3(np.array([7.0, 50.0, 100.0]), np.array([2.0, 2.0, 2.0]))
    wantpm = [6.17 * 2 / 1000, (56.25 + (76.0 - 56.25) * 20 / 55) * 2 / 1000, 115.0 * 2 / 1000]
    if not np.allclose(pm, wantpm, rtol=1e-12):
        bad.append(dict(what='FOA3', observed=list(map(float, pm)), required=wantpm))
    return dict(reproduced=bool(bad), observed=bad[:4])


# ------------------------------------------------------------------------------------------------
@unit('C12', 'scope11', ['AEIC.emissions.ei.pmnvol:calculate_PMnvolEI_scope11'], replay='contracts.C12:replay_scope11', max_paths=20000)
def scope11(h):
    """SCOPE11 per mode for every smoke-number pattern (invalid -1 / 0 markers, positive numbers incl. > 40), both
    engine kinds and any bypass ratio: nvPM mass EI = k_slm * C_BC * Q / 1000 with the documented C_BC(SN), k_slm and
    Q; invalid smoke numbers give 0; the result is non-negative."""
    from pyvc.models import mathfn
    I = h.I
    h.trust('exp(x) > 0; ln(x) >= 0 for x >= 1 (instances for the SCOPE11 terms)')
    TMV = I.lookup_fq('AEIC.performance.types:ThrustModeValues')
    TM = I.lookup_fq('AEIC.performance.types:ThrustMode')
    et = ['TF', 'MTF'][h.choice(2)]
    bpr = h.real('bypass_ratio')
    h.assume(bpr >= 0, 'bypass ratio >= 0')
    sns, kinds = [], []
    for m in TM.members:
        kind = h.choice(3)
        kinds.append(kind)
        if kind == 0:
            sns.append(-1)
        elif kind == 1:
            sns.append(0)
        else:
            v = h.real(f'SN_{m.name}')
            h.assume(v > 0, 'valid smoke numbers are positive')
            sns.append(v)
    prof = h.call('AEIC.emissions.ei.pmnvol:calculate_PMnvolEI_scope11', I.call(TMV, sns, {}), et, bpr)
    afr = [106, 83, 51, 45]
    for i, m in enumerate(TM.members):
        g = to_real(I.getitem(prof, m))
        if kinds[i] < 2:
            h.ensure('invalid-smoke-number-gives-zero', g == 0, note=m.name)
            continue
        # min(SN, 40), written the way the executor merges the builtin (so that the two sides differ only arithmetically)
        s = to_real(I.merge_values(I.compare('<', 40, sns[i]), 40, sns[i]))
        cbc = rv('0.6484') * mathfn.F_EXP(rv('0.0766') * s) / (1 + mathfn.F_EXP(rv('-1.098') * (s - rv('3.064'))))
        b = (1 + bpr) if et == 'MTF' else z3.RealVal(1)
        ratio = (rv('3.219') * cbc * b * 1000 + rv('312.5')) / (cbc * b * 1000 + rv('42.6'))
        k = mathfn.F_LOG(ratio)
        q = rv('0.776') * afr[i] * b + rv('0.767')
        h.ensure('scope11-mass-index-equals-the-documented-formula', g == k * cbc * q / 1000, note=m.name)
        # non-negativity: C_BC > 0 (exp > 0), ratio >= 1 hence k_slm >= 0, Q > 0
        e1, e2 = mathfn.F_EXP(rv('0.0766') * s), mathfn.F_EXP(rv('-1.098') * (s - rv('3.064')))
        h.ctx.assume(z3.And(e1 > 0, e2 > 0))
        h.lemma('exit-plane-concentration-positive', cbc > 0, note=m.name)
        h.lemma('loss-ratio-at-least-one', ratio >= 1, note=m.name)
        h.ctx.assume(z3.Implies(ratio >= 1, k >= 0))
        h.ensure('scope11-mass-index-non-negative', g >= 0, note=m.name)


def replay_scope11(payload):
    r = native_sample(dict(seed=1, n=60))
    bad = [v for v in r.get('violations', []) if 'SCOPE11' in v['what']]
    return dict(reproduced=bool(bad), observed=bad[:3])


@unit('C12', 'bffm2.hc-co', ['AEIC.emissions.ei.hcco:EI_HCCO'], replay='contracts.C12:replay_hcco', max_paths=20000, timeout_ms=30000)
def hcco(h):
    """EI_HCCO for fuel-flow arrays of any length: the documented bilinear fit in log-log space (slanted segment below
    the intercept, horizontal above, SAGE clamping rules), zero for non-positive fuel flow below the intercept, the ACRP
    low-thrust factor below idle fuel flow and the ambient factor theta^3.3 / delta^1.02; linear in the certification
    indices' scale where the fit is."""
    from pyvc.models import mathfn
    from pyvc.source import Unsupported
    I = h.I
    L = mathfn.F_LOG10
    POW = mathfn.F_POW
    h.trust('log10 / pow as uninterpreted functions; np.isclose(a, 0) <=> |a| <= 1e-8')
    xe, x, TM = tmv(h, 'EI')
    cc, c, _ = tmv(h, 'ff_cal')
    ff, n = arr(h, 'fuel_flow')
    T, P = h.real('Tamb'), h.real('Pamb')
    h.assume(z3.And(T > 0, P > 0), 'ambient temperature and pressure positive')
    try:
        out = call(h, 'AEIC.emissions.ei.hcco:EI_HCCO', ff, xe, cc, T, P)
    except PyExc as e:
        h.fail('no-undefined-operation-on-positive-certification-data', f'{e.inst!r} at {e.inst.where}')
        return

    def decide(cond):
        if h.ctx.entails(cond):
            return True
        if h.ctx.entails(z3.Not(cond)):
            return False
        raise Unsupported('scalar decision of the fit not fixed by the path condition')
    x0, x1, x2, x3 = (x[m] for m in ('IDLE', 'APPROACH', 'CLIMB', 'TAKEOFF'))
    c0, c1, c2, c3 = (c[m] for m in ('IDLE', 'APPROACH', 'CLIMB', 'TAKEOFF'))
    tol = rv('1e-8')
    sn, sd = L(x1) - L(x0), L(c1) - L(c0)
    slope = z3.RealVal(0) if decide(z3.And(sd <= tol, sd >= -tol)) else sn / sd
    blf, ble = L(c0), L(x0)
    hz = (L(x2) + L(x3)) / 2
    if decide(z3.And(slope <= tol, slope >= -tol)):
        xi = L(c1)
    else:
        xi = (2 * L(c0) * slope + L(x2) + L(x3) - 2 * L(x0)) / (2 * slope)
    l1, l2 = L(c1), L(c2)
    if decide(xi > l2):
        xi = l2
    elif decide(z3.And(xi < l1, slope < 0)):
        hz, xi = L(x1), l1
    elif decide(slope >= 0):
        slope, blf, ble, xi = z3.RealVal(0), z3.RealVal(0), hz, l1
    k = generic_k(h, n)
    f = to_real(ff.at(k))
    lf = z3.If(f > 0, L(f), z3.RealVal(0))
    base = z3.If(z3.And(f > 0, lf < xi), POW(z3.RealVal(10), slope * (lf - blf) + ble), z3.If(lf >= xi, POW(z3.RealVal(10), hz), z3.RealVal(0)))
    acrp = z3.If(f < c0, base * (1 + (-52) * (f - c0)), base)
    factor = POW(T / rv('288.15'), rv('3.3')) / POW(P / 101325, rv('1.02'))
    g = to_real(out.at(k))
    h.ensure('hc-co-index-equals-the-documented-bilinear-fit', g == acrp * factor)
    h.ctx.assume(z3.And(POW(z3.RealVal(10), slope * (lf - blf) + ble) > 0, POW(z3.RealVal(10), hz) > 0,
                        POW(T / rv('288.15'), rv('3.3')) > 0, POW(P / 101325, rv('1.02')) > 0))
    h.ensure('hc-co-index-non-negative-at-and-above-idle-fuel-flow', z3.Implies(f >= c0, g >= 0))
    h.ensure('one-value-per-fuel-flow', to_z3(I.len_(out)) == n)


@unit('C12', 'kernels.leave-their-inputs-unchanged', ['AEIC.emissions.ei.nox:BFFM2_EINOx', 'AEIC.emissions.ei.hcco:EI_HCCO'],
      replay='contracts.C12:replay_frame', timeout_ms=30000)
def kernels_frame(h):
    """The index functions are functions of their arguments: they return new arrays and leave the arrays (and certification
    tables) they are given as they were.  One fuel-flow array goes through the NOx fit and then through the HC / CO fit in
    the trajectory code, so a kernel that floors or clips its argument in place changes what the next kernel sees.  Fuel
    flows may be zero or negative here (idle descent, bad data): that is where the kernels floor them."""
    which = h.choice(2)
    n = h.int('n_points')
    h.assume(n >= 1)
    ff = SArr.symbolic(h.ctx, 'fuel_flow', n)
    ff0 = ff.snapshot()
    ei, eic, TM = tmv(h, 'EI')
    ffc, fc, _ = tmv(h, 'ff_cal')
    names = [m.name for m in TM.members]
    h.I.hooks['assume_defined'] = {'AEIC.emissions.ei.nox:BFFM2_EINOx': 'as in the bffm2.nox unit (definedness is that unit\'s business)'}
    if which == 0:
        T = SArr.symbolic(h.ctx, 'Tamb', n, where=lambda v: z3.And(v > 200, v < 320))
        P = SArr.symbolic(h.ctx, 'Pamb', n, where=lambda v: z3.And(v > 2000, v <= 110000))
        xs = [F_LOG10(fc[m]) for m in names]
        h.assume(z3.Not(z3.And(*[xs[0] == x for x in xs[1:]])), 'calibration fuel flows not all equal (log-log fit defined)')
        fn, args = 'AEIC.emissions.ei.nox:BFFM2_EINOx', (ff, ei, ffc, T, P)
    else:
        T, P = h.real('Tamb'), h.real('Pamb')
        h.assume(z3.And(T > 0, P > 0), 'ambient temperature and pressure positive')
        fn, args = 'AEIC.emissions.ei.hcco:EI_HCCO', (ff, ei, ffc, T, P)
    h.ctx.named['kernel'] = z3.StringVal(fn.split(':')[1])
    try:
        call(h, fn, *args)
    except PyExc:
        return              # definedness and refusals are the business of the kernel's own unit
    k = generic_k(h, n)
    # (discharged from the index range alone: what the array holds now against what it held, nothing of the fit is needed)
    h.ensure_from('argument-array-unchanged', z3.And(to_z3(h.I.len_(ff)) == n, to_real(ff.at(k)) == to_real(ff0.at(k))),
                  [k >= 0, k < n, n >= 1], note=fn + ' wrote into the fuel-flow array it was given')
    now_e, now_c = ei.attrs['_data'], ffc.attrs['_data']
    h.ensure_from('certification-tables-unchanged',
                  z3.And(*[to_real(now_e[m]) == to_real(eic[m.name]) for m in now_e], *[to_real(now_c[m]) == to_real(fc[m.name]) for m in now_c])
                  if set(m.name for m in now_e) == set(names) and set(m.name for m in now_c) == set(names) else z3.BoolVal(False),
                  [v > 0 for v in list(eic.values()) + list(fc.values())])


def replay_frame(payload):
    """Native: the production sequence NOx -> HC on one fuel-flow array with zero and negative entries; the array must come
    back unchanged from each kernel and HC must equal HC computed on a pristine copy."""
    import numpy as np
    from AEIC.emissions.ei.hcco import EI_HCCO
    from AEIC.emissions.ei.nox import BFFM2_EINOx
    from AEIC.performance.types import ThrustModeValues
    problems = []
    ff = np.array([0.0, 0.3, -0.1, 0.9, 0.0, 1.4])
    pristine = ff.copy()
    cal = ThrustModeValues(0.1, 0.3, 0.9, 1.1)
    nox = ThrustModeValues(4.0, 9.0, 20.0, 27.0)
    hc = ThrustModeValues(2.0, 0.4, 0.1, 0.08)
    T, P = np.full(ff.size, 250.0), np.full(ff.size, 40000.0)
    want_hc = EI_HCCO(pristine.copy(), hc, cal, 250.0, 40000.0)
    BFFM2_EINOx(ff, nox, cal, T, P)
    if not np.array_equal(ff, pristine):
        problems.append(f'BFFM2_EINOx changed the fuel-flow array it was given: {pristine.tolist()} -> {ff.tolist()}')
    got_hc = EI_HCCO(ff, hc, cal, 250.0, 40000.0)
    if not np.array_equal(ff, pristine) and not problems:
        problems.append(f'EI_HCCO changed the fuel-flow array it was given: {pristine.tolist()} -> {ff.tolist()}')
    if not np.allclose(got_hc, want_hc, rtol=1e-12, atol=0, equal_nan=True):
        problems.append(f'HC index after the NOx kernel ran on the same array: {got_hc.tolist()}, on a pristine copy: {want_hc.tolist()}')
    return dict(reproduced=bool(problems), observed=problems[:3], required='kernels leave their arguments unchanged')


def replay_hcco(payload):
    r = native_sample(dict(seed=2, n=80))
    bad = [v for v in r.get('violations', []) if 'EI_HCCO' in v['what']]
    return dict(reproduced=bool(bad), observed=bad[:3])


def replay_meem(payload):
    r = native_sample(dict(seed=3, n=100))
    bad = [v for v in r.get('violations', []) if 'MEEM' in v['what']]
    return dict(reproduced=bool(bad), observed=bad[:3])


# MEEM (PMnvol_MEEM) under contract: four units (indices measured / reconstructed from smoke numbers x engine type)
from contracts import C12_meem  # noqa: E402,F401
